"""C16 — binning, zooming and radial reductions preserve image content."""
import math

import numpy

from .. import common

MANIFEST = {
    "text": "Lean 4 theorems, for all image sizes / bin factors / batch shapes / target sizes / radii tables: binImgs is the n x n "
            "block sum and conserves the total (2-D path and N-D path, stack = per frame); spline zoom (both entry points, for any "
            "spline kernel meeting the stated contract: interpolates nodes, reproduces tensor polynomials up to the order, linear) "
            "is the identity at equal size, passes through the old samples when the new grid contains the old nodes, is exact on "
            "polynomials up to the order and is complex-linear; azimuthal-average rings are never empty, a constant image averages "
            "to the constant and every value lies between min and max; the encircled-energy curve starts at 0, is monotone and "
            "within [0,1] for non-negative images, and the reported diameter is the tabulated sample nearest the fraction (within "
            "half a curve step when the curve crosses it).  The hand-written model is tied to the source on every run by an exact "
            "(integer images) / 1e-12 (float pipeline) correspondence with the Lean driver; a direct oracle on the real code "
            "supplies failing inputs.",
    "note": "Trusted: Lean kernel + propext/Classical.choice/Quot.sound; Mathlib's Real.sqrt/rpow/pi; the hand-written model "
            "Model/ImageReduce.lean (tied by correspondence only, generator quality bounds what it sees); scipy's "
            "RectBivariateSpline as an external kernel with a contract that is checked numerically on every instance used; NumPy "
            "slicing/broadcast/dtype semantics (integer overflow of small dtypes is not modelled); IEEE rounding.",
    "technique": "Lean 4 proof over a hand-written model + exact differential correspondence (Lean driver vs real code) + oracle search",
}
REQUIRED = ["bin_is_block_sum", "bin_total", "bin_stack", "bin_stack_is_block_sum", "bin_stack_total",
            "zoom_rbs_same_size_id", "zoom_rbs_nodes", "zoom_rbs_monomial", "zoom_rbs_polynomial", "zoom_rbs_complex",
            "zoom_rbs_complex_smul", "zoom_same_size_id", "zoom_nodes", "zoom_polynomial", "zoom_complex", "zoom_rejects",
            "rings_nonempty", "azavg_const", "azavg_between_min_max",
            "ee_starts_zero", "ee_monotone", "ee_le_one", "ee_diameter_is_nearest_sample", "ee_diameter_nearest_crossing",
            "ee_diameter_adjacent"]
RT = 1e-12          # float pipeline correspondence (same operations in the same order; differences are libm ulps)
ZT = 1e-9           # spline zoom oracle / contract tolerance, relative to the data scale


# ------------------------------------------------------------------------------------------------ helpers
def _lib():
    from aotools import interpolation
    from aotools.image_processing import psf
    from aotools.functions import pupil
    return interpolation, psf, pupil


def _ints(rng, shape, lo, hi):
    n = int(numpy.prod(shape))
    return numpy.array([rng.randint(lo, hi) for _ in range(n)], dtype=numpy.int64).reshape(shape)


def _image(rng, size, kind=None):
    """non-negative integer image size×size, several structures"""
    kind = kind or rng.choice(["uniform", "sparse", "blob", "border", "flat", "corner"])
    a = numpy.zeros((size, size), dtype=numpy.int64)
    if kind == "uniform":
        a = _ints(rng, (size, size), 0, 1000)
    elif kind == "sparse":
        for _ in range(rng.randint(1, 3)):
            a[rng.randrange(size), rng.randrange(size)] = rng.randint(1, 1000)
    elif kind == "blob":
        cy, cx, w = rng.uniform(0, size), rng.uniform(0, size), rng.uniform(0.5, size / 2.0)
        yy, xx = numpy.mgrid[0:size, 0:size]
        a = numpy.floor(1000 * numpy.exp(-((yy - cy) ** 2 + (xx - cx) ** 2) / (2 * w * w))).astype(numpy.int64)
    elif kind == "border":
        a[0, :] = _ints(rng, (size,), 0, 9)
        a[:, -1] = _ints(rng, (size,), 0, 9)
    elif kind == "flat":
        a[:] = rng.randint(1, 9)
    elif kind == "corner":
        a[rng.choice([0, size - 1]), rng.choice([0, size - 1])] = rng.randint(1, 50)
    if a.sum() == 0:
        a[size // 2, size // 2] = 1
    return a, kind


def _centre(rng, dim):
    """a custom centre whose pixel distances can never equal an encircled-energy radius exactly: integer or (integer ± 1/4)
    coordinates make x²+y² a non-integer, while the only radius that is a closed-form number is the last one (= dim, up to the
    rounding of pow); pixel-centred (half-integer) centres would make the last mask depend on the last ulp of libm's pow"""
    def one():
        k = rng.randint(0, 2 * dim)
        return float(k) if rng.random() < 0.5 else k + rng.choice([-0.25, 0.25])
    return one(), one()


def _flat(a):
    return " ".join(str(int(v)) for v in numpy.asarray(a).ravel())


def _hex(a):
    return " ".join(common.f2h(v) for v in numpy.asarray(a, dtype=float).ravel())


def _unhex(s):
    return numpy.array([common.h2f(t) for t in s.split()], dtype=float)


def _near(a, b, tol, scale=1.0):
    a, b = numpy.asarray(a, dtype=float), numpy.asarray(b, dtype=float)
    if a.shape != b.shape or not (numpy.all(numpy.isfinite(a)) and numpy.all(numpy.isfinite(b))):
        return False
    return bool(numpy.all(numpy.abs(a - b) <= tol * max(scale, 1e-300)))


def _bits_equal(a, b):
    a, b = numpy.asarray(a, dtype=float), numpy.asarray(b, dtype=float)
    return a.shape == b.shape and bool(numpy.all(a.view(numpy.uint64) == b.view(numpy.uint64)))


def _call(fn, *a, **k):
    """(result, None) or (None, 'ExceptionName: message')"""
    try:
        return fn(*a, **k), None
    except Exception as ex:      # noqa: BLE001 — an exception of the library on an in-domain input is a finding
        return None, "%s: %s" % (type(ex).__name__, (str(ex).splitlines() or [""])[0][:120])


def _rbs(data, order):
    from scipy.interpolate import RectBivariateSpline
    return RectBivariateSpline(numpy.arange(data.shape[0]), numpy.arange(data.shape[1]), data, kx=order, ky=order)


# ------------------------------------------------------------------------------------------------ correspondence
def correspondence(chk, scale):
    ip, psf, pupil = _lib()
    rng = chk.rng
    lines, checks = [], []      # checks[k](answer string) -> None | "what differs"

    def add(line, fn, desc, cls, sample=None):
        lines.append("C16 " + line)
        checks.append((fn, desc))
        chk.case(("corr",) + tuple(desc), sample=sample)
        chk.count("corr:" + cls)
        chk.corr_cases += 1

    # ---- binImgs, 2-D path (int and float dtype, int and float n, non-square)
    for it in range(12 * scale):
        n = rng.choice([1, 2, 2, 3, 4, 5, 7])
        R, C = rng.randint(1, 5), rng.randint(1, 5)
        data = _ints(rng, (R * n, C * n), -50, 1000)
        variant = rng.choice(["int", "float-data", "float-n"])
        arg = data.astype(float) if variant == "float-data" else data
        got, err = _call(ip.binImgs, arg, float(n) if variant == "float-n" else n)

        def cmp(ans, got=got, err=err, R=R, C=C):
            if err:
                return "real binImgs raised " + err
            if got.shape != (R, C):
                return "shape %s vs model (%d, %d)" % (got.shape, R, C)
            exp = numpy.array([int(t) for t in ans.split()]).reshape(R, C)
            return None if numpy.array_equal(numpy.asarray(got, dtype=numpy.int64), exp) and numpy.all(got == exp) \
                else "values differ: real %s model %s" % (got.tolist(), exp.tolist())
        add("bin2 %d %d %d %s" % (R * n, C * n, n, _flat(data)), cmp, ("bin2", R * n, C * n, n, variant, it),
            "bin2:n=%d" % n, sample={"op": "bin2", "shape": [R * n, C * n], "n": n} if it == 0 else None)
    # ---- binImgs, N-D path (3-D and 4-D stacks)
    for it in range(8 * scale):
        n = rng.choice([1, 2, 3, 4])
        R, C = rng.randint(1, 4), rng.randint(1, 4)
        lead = tuple(rng.randint(1, 3) for _ in range(rng.choice([1, 1, 2])))
        data = _ints(rng, lead + (R * n, C * n), -50, 1000)
        got, err = _call(ip.binImgs, data, n)
        b = int(numpy.prod(lead))

        def cmp(ans, got=got, err=err, R=R, C=C, lead=lead):
            if err:
                return "real binImgs raised " + err
            if got.shape != lead + (R, C):
                return "shape %s vs model %s" % (got.shape, lead + (R, C))
            exp = numpy.array([int(t) for t in ans.split()]).reshape(lead + (R, C))
            return None if numpy.array_equal(got, exp) else "values differ: real %s model %s" % (got.tolist(), exp.tolist())
        add("binN %d %d %d %d %s" % (b, R * n, C * n, n, _flat(data)), cmp, ("binN", lead, R * n, C * n, n, it),
            "binN:rank%d" % (len(lead) + 2))
    # ---- pupil.circle as used by psf.py (dyadic radii / centres: exact)
    for it in range(10 * scale):
        size = rng.randint(1, 12)
        middle = rng.random() < 0.5
        if rng.random() < 0.5:
            radius, cx, cy = float(rng.randint(0, size)), 0.0, 0.0
        else:
            radius = common.dyadic(rng, 0, size, 3)
            cx, cy = common.dyadic(rng, -2, size, 2), common.dyadic(rng, -2, size, 2)
        got, err = _call(pupil.circle, radius, size, (cx, cy), "middle" if middle else "corner")

        def cmp(ans, got=got, err=err, size=size):
            if err:
                return "real circle raised " + err
            exp = numpy.array([int(t) for t in ans.split()], dtype=float).reshape(size, size)
            return None if numpy.array_equal(got, exp) else "mask differs: real %s model %s" % (got.tolist(), exp.tolist())
        add("circle %s %d %s %s %d" % (common.f2h(radius), size, common.f2h(cx), common.f2h(cy), int(middle)), cmp,
            ("circle", radius, size, cx, cy, middle), "circle:" + ("middle" if middle else "corner"))
    # ---- azimuthal_average on integer images (bit-exact)
    for it in range(10 * scale):
        size = rng.randint(2, 14 if scale <= 3 else 20)
        data = _ints(rng, (size, size), -100, 1000) if rng.random() < 0.7 else _image(rng, size)[0]
        got, err = _call(psf.azimuthal_average, data)

        def cmp(ans, got=got, err=err, size=size):
            if err:
                return "real azimuthal_average raised " + err
            m = _unhex(ans).reshape(size // 2, 3)
            if got.shape != (size // 2,):
                return "length %s vs model %d" % (got.shape, size // 2)
            return None if _bits_equal(got, m[:, 2]) else "values differ: real %s model %s" % (got.tolist(), m[:, 2].tolist())
        add("azavg %d %s" % (size, _flat(data)), cmp, ("azavg", size, it), "azavg:" + ("even" if size % 2 == 0 else "odd"),
            sample={"op": "azavg", "size": size} if it == 0 else None)
    # ---- encircled_energy on non-negative integer images of even size
    nexact = [0, 0]
    for it in range(10 * scale):
        dim = rng.randint(1, 6 if scale <= 3 else 10)
        data, kind = _image(rng, 2 * dim)
        if rng.random() < 0.6:
            centre, xc, yc = None, float(dim), float(dim)
        else:
            xc, yc = _centre(rng, dim)
            centre = [xc, yc]
        fr = rng.randint(1, 63) / 64.0
        curve, err = _call(psf.encircled_energy, data, fraction=fr, center=centre, eeDiameter=False)
        diam, err2 = _call(psf.encircled_energy, data, fraction=fr, center=centre)
        op = "eeslow" if (it % 5 == 4 and dim <= 4) else "ee"

        def cmp(ans, curve=curve, diam=diam, err=err or err2, dim=dim, fr=fr, op=op):
            if err:
                return "real encircled_energy raised " + err
            t = ans.split()
            idx, d = int(t[0]), common.h2f(t[1])
            rest = _unhex(" ".join(t[2:]))
            if op == "ee":
                xi, yi = rest[:4 * dim], rest[4 * dim:]
                if not _bits_equal(curve[0], xi):
                    return "xi differs: real %s model %s" % (curve[0].tolist(), xi.tolist())
            else:
                yi = rest
            if numpy.asarray(curve[1]).shape != yi.shape or not _near(curve[1], yi, RT):
                return "curve differs: real %s model %s" % (numpy.asarray(curve[1]).tolist(), yi.tolist())
            nexact[0] += int(_bits_equal(curve[1], yi))
            nexact[1] += 1
            if diam != d:
                # a different arg-min is legitimate only when the two candidates tie within the curve tolerance
                ry = numpy.abs(numpy.asarray(curve[1]) - fr)
                k_real = int(numpy.argmin(ry))
                if not abs(ry[k_real] - ry[idx]) <= 4 * RT:
                    return "diameter differs: real %r model %r (index %d)" % (diam, d, idx)
            return None
        add("%s %d %s %s %s %s" % (op, dim, common.f2h(xc), common.f2h(yc), common.f2h(fr), _flat(data)), cmp,
            ("ee", dim, xc, yc, fr, kind, it), "ee:%s:%s" % (kind, "default-centre" if centre is None else "centre"),
            sample={"op": "ee", "dim": dim, "centre": centre, "fraction": fr, "kind": kind} if it == 0 else None)
    # ---- the same two reductions on float images (dyadic: bit-exact; generic: summation order differs, 1e-12·scale)
    for it in range(6 * scale):
        size = rng.randint(2, 12)
        dy = rng.random() < 0.5
        nprng = numpy.random.default_rng(rng.getrandbits(32))
        data = _ints(rng, (size, size), -800, 800) / 8.0 if dy else nprng.normal(0, 1, (size, size))
        got, err = _call(psf.azimuthal_average, data)

        def cmp(ans, got=got, err=err, size=size, dy=dy, s=float(numpy.abs(data).max())):
            if err:
                return "real azimuthal_average raised " + err
            m = _unhex(ans).reshape(size // 2, 3)
            ok = _bits_equal(got, m[:, 2]) if dy else _near(got, m[:, 2], RT, scale=s)
            return None if ok else "values differ: real %s model %s" % (got.tolist(), m[:, 2].tolist())
        add("azavgf %d %s" % (size, _hex(data)), cmp, ("azavgf", size, dy, it), "azavg:float:" + ("dyadic" if dy else "generic"))
    for it in range(6 * scale):
        dim = rng.randint(1, 6)
        dy = rng.random() < 0.5
        nprng = numpy.random.default_rng(rng.getrandbits(32))
        data = _image(rng, 2 * dim)[0] / 16.0 if dy else nprng.uniform(0, 1, (2 * dim, 2 * dim)) ** 4
        xc, yc = (float(dim), float(dim)) if rng.random() < 0.5 else _centre(rng, dim)
        fr = rng.randint(1, 63) / 64.0
        curve, err = _call(psf.encircled_energy, data, fraction=fr, center=[xc, yc], eeDiameter=False)
        diam, err2 = _call(psf.encircled_energy, data, fraction=fr, center=[xc, yc])

        def cmp(ans, curve=curve, diam=diam, err=err or err2, dim=dim, fr=fr):
            if err:
                return "real encircled_energy raised " + err
            t = ans.split()
            idx, d = int(t[0]), common.h2f(t[1])
            rest = _unhex(" ".join(t[2:]))
            yi = rest[4 * dim:]
            if not _bits_equal(curve[0], rest[:4 * dim]):
                return "xi differs"
            if numpy.asarray(curve[1]).shape != yi.shape or not _near(curve[1], yi, RT):
                return "curve differs: real %s model %s" % (numpy.asarray(curve[1]).tolist(), yi.tolist())
            if diam != d:
                ry = numpy.abs(numpy.asarray(curve[1]) - fr)
                if not abs(ry[int(numpy.argmin(ry))] - ry[idx]) <= 4 * RT:
                    return "diameter differs: real %r model %r (index %d)" % (diam, d, idx)
            return None
        add("eef %d %s %s %s %s" % (dim, common.f2h(xc), common.f2h(yc), common.f2h(fr), _hex(data)), cmp,
            ("eef", dim, xc, yc, fr, dy, it), "ee:float:" + ("dyadic" if dy else "generic"))
    # ---- zoom glue: coordinates, order check, order-1 kernel executed in Lean, orders 3/5 with scipy's kernel at the model's coordinates
    for order in range(0, 8):
        _, err = _call(ip.zoom, numpy.arange(64.0).reshape(8, 8), (8, 8), order)
        rejects = err is not None and err.startswith("ValueError")

        def cmp(ans, rejects=rejects, err=err, order=order):
            if err is not None and not rejects:
                return "real zoom raised " + err
            return None if (ans == "1") == (not rejects) else "zoom accepts order %d: real %s model %s" % (order, not rejects, ans)
        add("zoomorder %d" % order, cmp, ("zoomorder", order), "zoom:order-check")
    for it in range(14 * scale):
        entry = rng.choice(["zoom", "zoom_rbs"])
        order = rng.choice([1, 1, 3, 5])
        nx = rng.randint(order + 1, 9)
        ny = nx if rng.random() < 0.5 else rng.randint(order + 1, 9)
        xs, ys = rng.randint(2, 14), rng.randint(2, 14)
        if rng.random() < 0.2:
            xs = 1
        cplx = rng.random() < 0.35
        nprng = numpy.random.default_rng(rng.getrandbits(32))
        re, im = nprng.uniform(-1, 1, (nx, ny)), nprng.uniform(-1, 1, (nx, ny))
        data = re + 1j * im if cplx else re
        got, err = _call(getattr(ip, entry), data, (xs, ys), order)
        scale_d = float(numpy.abs(data).max())

        def cmp_lin(ans, n=nx, num=xs):
            exp = numpy.linspace(0, n - 1, num)
            return None if _bits_equal(exp, _unhex(ans)) else "linspace(0,%d,%d): numpy %s model %s" % (n - 1, num, exp.tolist(), ans)
        add("lin %d %d" % (nx - 1, xs), cmp_lin, ("lin", nx - 1, xs), "zoom:linspace")
        add("lin %d %d" % (ny - 1, ys), lambda ans, n=ny, num=ys: cmp_lin(ans, n, num), ("lin", ny - 1, ys), "zoom:linspace")
        if order == 1:
            def cmp(ans, got=got, err=err, xs=xs, ys=ys, cplx=cplx, s=scale_d):
                if err:
                    return "real zoom raised " + err
                m = _unhex(ans)
                m = (m[:xs * ys] + 1j * m[xs * ys:]).reshape(xs, ys) if cplx else m.reshape(xs, ys)
                if got.shape != (xs, ys):
                    return "shape %s vs model (%d, %d)" % (got.shape, xs, ys)
                if cplx != numpy.iscomplexobj(got):
                    return "complexness differs"
                return None if numpy.all(numpy.isfinite(got)) and numpy.abs(got - m).max() <= 1e-11 * s \
                    else "values differ by %.3g" % numpy.abs(got - m).max()
            payload = _hex(re) + (" " + _hex(im) if cplx else "")
            add("%s %s %d %d %d %d %s" % ("zoomc1" if cplx else "zoom1", entry, nx, ny, xs, ys, payload), cmp,
                ("zoom1", entry, nx, ny, xs, ys, cplx, it), "zoom:order1:%s:%s" % (entry, "complex" if cplx else "real"),
                sample={"op": "zoom1", "entry": entry, "array": [nx, ny], "new": [xs, ys]} if it == 0 else None)
        else:
            # model = glue (coordinates, axis order, re/im split) around the external kernel: evaluate scipy's kernel at the
            # MODEL's coordinates (numpy.linspace was compared with the model's linspace0 just above) and axis order
            cxm, cym = numpy.linspace(0, nx - 1, xs), numpy.linspace(0, ny - 1, ys)
            model = _rbs(re, order)(cxm, cym) + (1j * _rbs(im, order)(cxm, cym) if cplx else 0)
            chk.case(("corr", "zoomk", entry, order, nx, ny, xs, ys, cplx, it))
            chk.count("corr:zoom:order%d:%s:%s" % (order, entry, "complex" if cplx else "real"))
            chk.corr_cases += 1
            if err:
                chk.broke("correspondence", "%s(order=%d) on %dx%d -> (%d,%d): real code raised %s" % (entry, order, nx, ny, xs, ys, err))
            elif got.shape != model.shape or not numpy.abs(got - model).max() <= 1e-12 * scale_d:
                chk.broke("correspondence", "%s(order=%d) on %dx%d -> (%d,%d): real code differs from model glue around the kernel "
                          "(shape %s vs %s)" % (entry, order, nx, ny, xs, ys, got.shape, model.shape))
        contract(chk, re, order, nprng)
    ans = common.run_driver(lines, "C16")
    for (fn, desc), line, a in zip(checks, lines, ans):
        if a == "bad-op":
            chk.broke("correspondence", "driver rejected op %s" % (line[:80],))
            continue
        what = fn(a)
        if what:
            chk.broke("correspondence", "%s: %s" % (desc, what), line[:3000])
    chk.notes.append("encircled-energy curves bit-identical to the model in %d of %d correspondence cases (the rest within %g)"
                     % (nexact[0], nexact[1], RT))


def contract(chk, data, order, nprng):
    """numerical check of the spline-kernel contract (Props: SplineContract) on this instance"""
    nx, ny = data.shape
    s = _rbs(data, order)
    gx, gy = numpy.arange(nx, dtype=float), numpy.arange(ny, dtype=float)
    scale = float(numpy.abs(data).max())
    chk.count("contract:order%d" % order)
    if not numpy.abs(s(gx, gy) - data).max() <= ZT * scale:
        chk.broke("contract", "RectBivariateSpline(order %d, %dx%d) does not interpolate its nodes" % (order, nx, ny))
    px, py = nprng.uniform(0, nx - 1, 5), nprng.uniform(0, ny - 1, 5)
    p, q = int(nprng.integers(0, order + 1)), int(nprng.integers(0, order + 1))
    mono = numpy.outer(gx ** p, gy ** q)
    exp = numpy.outer(px ** p, py ** q)
    got = _rbs(mono, order)(numpy.sort(px), numpy.sort(py))
    exp = numpy.outer(numpy.sort(px) ** p, numpy.sort(py) ** q)
    if not numpy.abs(got - exp).max() <= ZT * max(1.0, float(numpy.abs(mono).max())):
        chk.broke("contract", "RectBivariateSpline(order %d, %dx%d) does not reproduce x^%d y^%d" % (order, nx, ny, p, q))
    d2 = nprng.uniform(-1, 1, data.shape)
    a = float(nprng.uniform(-2, 2))
    lhs = _rbs(a * data + d2, order)(numpy.sort(px), numpy.sort(py))
    rhs = a * s(numpy.sort(px), numpy.sort(py)) + _rbs(d2, order)(numpy.sort(px), numpy.sort(py))
    if not numpy.abs(lhs - rhs).max() <= ZT * (abs(a) * scale + 1.0):
        chk.broke("contract", "RectBivariateSpline(order %d, %dx%d) is not linear in the data" % (order, nx, ny))


# ------------------------------------------------------------------------------------------------ oracle
# Each check_* evaluates the property clauses on ONE explicit input of the real code (used by the generators below and by
# `replay`); the replay dict it records is exactly its own argument list.

def _exact_blocks(a, n):
    """the n x n block sums of the last two axes and the per-image totals as exact Python numbers (int / Fraction): no
    accumulation order, no dtype involved"""
    from fractions import Fraction
    lead = a.shape[:-2]
    R, C = a.shape[-2] // n, a.shape[-1] // n
    conv = int if a.dtype.kind in "iu" else (lambda v: Fraction(float(v)))
    obj = numpy.empty(a.shape, dtype=object)
    for idx in numpy.ndindex(*a.shape):
        obj[idx] = conv(a[idx])
    blocks = obj.reshape(lead + (R, n, C, n)).sum(axis=(-3, -1)) if obj.size else obj.reshape(lead + (R, C))
    return numpy.asarray(blocks, dtype=object).reshape(lead + (R, C)), obj


def check_bin(chk, data, n, generic=False):
    """generic=False: every block sum is representable in data.dtype and every partial sum is exact, so the result must equal
    the exact block sums whatever the accumulation order; generic=True (ordinary floats): each output must be the block sum to
    the rounding of a sum of n*n terms, |got - exact| <= n*n * eps(dtype) * sum|block| (the a-priori bound of ANY summation
    order is (n*n-1) * eps/2 * sum|block|)"""
    from fractions import Fraction
    ip, _, _ = _lib()
    lead = data.shape[:-2]
    R, C = data.shape[-2] // n, data.shape[-1] // n
    path = "2d" if not lead else "nd"
    rep = {"case": "bin", "function": "binImgs", "shape": list(data.shape), "n": n, "dtype": str(data.dtype),
           "data": data.tolist(), "generic": bool(generic),
           "layout": "C" if data.flags.c_contiguous else ("F" if data.flags.f_contiguous else "strided")}
    snapshot = numpy.array(data, copy=True, order="K")
    got, err = _call(ip.binImgs, data, n)
    if err:
        chk.fail("bin:%s:raises" % path, "binImgs(shape %s %s, n=%d) raised %s" % (data.shape, data.dtype, n, err), rep)
        return
    blocks, obj = _exact_blocks(snapshot, n)
    if got.shape != blocks.shape:
        chk.fail("bin:%s:shape" % path, "binImgs(shape %s, n=%d) has shape %s, expected %s" % (data.shape, n, got.shape, blocks.shape), rep)
        return
    if got.dtype != data.dtype:
        chk.broke("correspondence", "binImgs(%s data) returns dtype %s (the model keeps the input dtype)" % (data.dtype, got.dtype))
    conv = int if got.dtype.kind in "iu" else (lambda v: Fraction(float(v)))
    gobj = numpy.empty(got.shape, dtype=object)
    finite = True
    for idx in numpy.ndindex(*got.shape):
        v = got[idx]
        if got.dtype.kind == "f" and not numpy.isfinite(v):
            finite = False
            break
        gobj[idx] = conv(v)
    if not finite:
        chk.fail("bin:%s:block-sum" % path, "binImgs(shape %s %s, n=%d) is not finite" % (data.shape, data.dtype, n), rep)
        return
    if not generic:
        if not numpy.all(gobj == blocks):
            bad = numpy.argwhere(gobj != blocks)[0].tolist()
            chk.fail("bin:%s:block-sum" % path, "binImgs(shape %s %s, n=%d)%s = %r but the %dx%d block sums to %r"
                     % (data.shape, data.dtype, n, bad, got[tuple(bad)].item(), n, n, float(blocks[tuple(bad)])
                        if data.dtype.kind == "f" else int(blocks[tuple(bad)])), rep)
        tot_got = gobj.reshape(lead + (-1,)).sum(axis=-1) if gobj.size else 0
        tot_in = obj.reshape(lead + (-1,)).sum(axis=-1) if obj.size else 0
        if not numpy.all(tot_got == tot_in):
            chk.fail("bin:%s:total" % path, "binImgs(shape %s %s, n=%d) does not preserve the total flux per image"
                     % (data.shape, data.dtype, n), rep)
    else:
        eps = float(numpy.finfo(data.dtype).eps)
        absblocks = numpy.abs(snapshot.astype(float)).reshape(lead + (R, n, C, n)).sum(axis=(-3, -1))
        worst = 0.0
        for idx in numpy.ndindex(*got.shape):
            bound = n * n * eps * float(absblocks[idx])
            e = abs(gobj[idx] - blocks[idx])
            if bound > 0:
                worst = max(worst, float(e) / bound)
            if e > bound:
                chk.fail("bin:%s:block-sum:float" % path, "binImgs(shape %s %s, n=%d)%s = %r but the %dx%d block sums to %r (error "
                         "%.3g, a sum of %d terms of this size is accurate to %.3g)"
                         % (data.shape, data.dtype, n, list(idx), got[idx].item(), n, n, float(blocks[idx]), float(e), n * n, bound), rep)
                break
        chk.generic_worst = max(getattr(chk, "generic_worst", 0.0), worst)
    if lead:
        for idx in numpy.ndindex(*lead):
            one, err1 = _call(ip.binImgs, snapshot[idx].copy(), n)
            same = (not err1) and one.shape == got[idx].shape and \
                (numpy.array_equal(one, got[idx]) if not generic else
                 bool(numpy.all(numpy.abs(one.astype(float) - got[idx].astype(float))
                                <= n * n * float(numpy.finfo(data.dtype).eps) * absblocks[idx])))
            if not same:
                chk.fail("bin:stack", "binImgs(stack)[%s] differs from binImgs(stack[%s]) for shape %s %s, n=%d"
                         % (idx, idx, data.shape, data.dtype, n), rep)
                break
    if not numpy.array_equal(snapshot, data):
        chk.fail("bin:%s:mutates-input" % path, "binImgs modified its input (shape %s, n=%d)" % (data.shape, n), rep)


def _hdr_image(rng, shape, n, dtype):
    """float image with a large dynamic range whose block sums are nevertheless EXACT in `dtype` in every accumulation order:
    one hot pixel 2^k (k beyond the mantissa) per image, the other pixels of its block multiples of 4 ulp(2^k) (or zero), every
    other block small integers (sums < 2^20).  The hot pixel sits in the first block (at [0,0] half of the time) so that
    ordinary pixels follow it along both axes."""
    p = 24 if dtype == "float32" else 53
    lead = shape[:-2]
    a = _ints(rng, shape, 0, 4000).astype(dtype)
    for idx in numpy.ndindex(*lead):
        k = rng.randint(p + 2, p + 8)
        hy, hx = (0, 0) if rng.random() < 0.5 else (rng.randrange(n), rng.randrange(n))
        q = 2.0 ** (k - p + 3)
        for y in range(n):
            for x in range(n):
                a[idx + (y, x)] = q * rng.randint(0, 7) if rng.random() < 0.5 else 0.0
        a[idx + (hy, hx)] = 2.0 ** k
    return a


def _layout(rng, data):
    """the same values as a C-contiguous array, a Fortran-ordered array, a strided view or a negative-stride view"""
    kind = rng.choice(["C", "C", "F", "strided", "reversed"])
    if kind == "F":
        return numpy.asfortranarray(data), kind
    if kind == "strided":
        big = numpy.zeros(data.shape[:-2] + (2 * data.shape[-2], 3 * data.shape[-1]), dtype=data.dtype)
        big[..., ::2, 1::3] = data
        return big[..., ::2, 1::3], kind
    if kind == "reversed":
        return numpy.ascontiguousarray(data[..., ::-1, ::-1])[..., ::-1, ::-1], kind
    return data, kind


def oracle_bin(chk, n_cases):
    rng = chk.rng
    kinds = ["int64", "int32", "float64", "float64-dyadic", "uint8", "int16", "uint16", "float32",
             "hdr-float64", "hdr-float64", "hdr-float32", "generic-float64", "generic-float32"]
    for it in range(n_cases):
        chk.oracle_cases += 1
        n = rng.choice([1, 2, 2, 3, 4, 5, 6, 8])
        R, C = rng.randint(1, 6), rng.randint(1, 6)
        lead = () if rng.random() < 0.5 else tuple(rng.randint(1, 3) for _ in range(rng.choice([1, 1, 2])))
        kind = kinds[it % len(kinds)]
        shape = lead + (R * n, C * n)
        generic = False
        if kind.startswith("hdr-"):
            if C == 1 and R == 1:
                C = 2
                shape = lead + (R * n, C * n)
            data = _hdr_image(rng, shape, n, kind[4:])
        elif kind.startswith("generic-"):
            # ordinary floats over 12 decades (a PSF with a bright core and faint wings), both signs
            nprng = numpy.random.default_rng(rng.getrandbits(32))
            data = (10.0 ** nprng.uniform(-6, 6, shape) * nprng.choice([-1.0, 1.0, 1.0], shape)).astype(kind[8:])
            generic = True
        elif kind == "float64-dyadic":
            data = _ints(rng, shape, 0, 4000) / 8.0
        elif kind == "uint8":
            data = _ints(rng, shape, 0, 255 // (n * n)).astype(kind)      # block sums fit the dtype (stated assumption)
        elif kind in ("int16", "uint16"):
            data = _ints(rng, shape, 0, 32767 // (n * n)).astype(kind)
        else:
            data = _ints(rng, shape, 0, 4000).astype(kind)
        data, layout = _layout(rng, data)
        path = "2d" if not lead else "nd"
        chk.case(("oracle", "bin", path, lead, R * n, C * n, n, kind, layout, it),
                 sample={"oracle": "bin", "shape": list(data.shape), "n": n, "kind": kind, "layout": layout} if it == 0 else None)
        chk.count("oracle:bin:%s:n=%d" % (path, n))
        chk.count("oracle:bin:kind:" + kind)
        chk.count("oracle:bin:layout:" + layout)
        check_bin(chk, data, n, generic)


def _poly(nprng, order):
    """coefficients c[p][q], p,q ≤ order, of a tensor polynomial without x↔y symmetry"""
    c = nprng.uniform(-1, 1, (order + 1, order + 1))
    # degree exactly = order along each axis and jointly: the leading coefficients are bounded away from zero, so a kernel of
    # lower order than requested cannot reproduce the polynomial
    for p, q in ((order, order), (order, 0), (0, order)):
        c[p, q] = nprng.choice([-1.0, 1.0]) * nprng.uniform(0.5, 1.0)
    return c


def _polyval(c, x, y, norm):
    x, y = numpy.asarray(x, dtype=float) / norm, numpy.asarray(y, dtype=float) / norm
    return sum(c[p, q] * numpy.outer(x ** p, y ** q) for p in range(c.shape[0]) for q in range(c.shape[1]))


def check_zoom(chk, entry, order, a, b, mx, my, c, psize, csize):
    """a, b: n×n real arrays; (mx, my): refinement factors for the node clause; c: polynomial coefficients, psize its target
    size; csize: target size of the complex clause"""
    ip, _, _ = _lib()
    fn = getattr(ip, entry)
    n = a.shape[0]
    rep = {"case": "zoom", "function": entry, "order": order, "a": a.tolist(), "b": b.tolist(), "mx": mx, "my": my,
           "c": numpy.asarray(c).tolist(), "psize": list(psize), "csize": list(csize)}
    key = "zoom:%s:" % entry

    def run(arr, size, what):
        got, err = _call(fn, arr, size, order)
        if err:
            chk.fail(key + "raises", "%s(%dx%d array, %r, order=%d) raised %s [%s]"
                     % (entry, arr.shape[0], arr.shape[1], size, order, err, what), dict(rep, clause=what))
            return None
        shape = tuple(size) if isinstance(size, tuple) else (size, size)
        if got.shape != shape:
            chk.fail(key + "shape", "%s(%dx%d array, %r, order=%d) has shape %s [%s]"
                     % (entry, arr.shape[0], arr.shape[1], size, order, got.shape, what), dict(rep, clause=what))
            return None
        return got
    # unchanged size returns the input (tuple and integer size)
    for size in ((n, n), n):
        got = run(a, size, "same size")
        if got is not None and not _near(got, a, ZT):
            chk.fail(key + "same-size" + ("" if isinstance(size, tuple) else ":int-size"),
                     "%s(a, %r, order=%d) differs from a by %.3g for a %dx%d array"
                     % (entry, size, order, numpy.abs(got - a).max(), n, n), rep)
    # the new grid contains the old nodes (independent factors per axis, so shapes are non-square)
    size = (mx * (n - 1) + 1, my * (n - 1) + 1)
    got = run(a, size, "nodes")
    if got is not None and not _near(got[::mx, ::my], a, ZT):
        chk.fail(key + "nodes", "%s(a, %r, order=%d)[::%d, ::%d] differs from a by %.3g for a %dx%d array"
                 % (entry, size, order, mx, my, numpy.abs(got[::mx, ::my] - a).max(), n, n), rep)
    # exact on tensor polynomials of degree ≤ order, arbitrary target size
    c = numpy.asarray(c, dtype=float)
    size = tuple(psize)
    grid = numpy.arange(n)
    pa = _polyval(c, grid, grid, n - 1)
    got = run(pa, size, "polynomial")
    if got is not None:
        exp = _polyval(c, numpy.linspace(0, n - 1, size[0]), numpy.linspace(0, n - 1, size[1]), n - 1)
        if not _near(got, exp, ZT, scale=max(1.0, float(numpy.abs(pa).max()))):
            chk.fail(key + "polynomial", "%s of a degree-(%d,%d) polynomial sampled on %dx%d to %r differs from the "
                     "polynomial by %.3g" % (entry, order, order, n, n, size, numpy.abs(got - exp).max()), rep)
    # complex data are real + i*imag
    size = tuple(csize)
    gz = run(a + 1j * b, size, "complex")
    ga, gb = run(a, size, "complex/real part"), run(b, size, "complex/imag part")
    if gz is not None and ga is not None and gb is not None:
        if not numpy.iscomplexobj(gz) or not _near(gz.real, ga, ZT) or not _near(gz.imag, gb, ZT):
            chk.fail(key + "complex", "%s(a+ib) != %s(a) + i %s(b) for %dx%d -> %r, order=%d"
                     % (entry, entry, entry, n, n, size, order), rep)
    # … for every complex dtype a caller may hold (single-precision complex included; tolerance of float32 data)
    a32, b32 = a.astype("float32"), b.astype("float32")
    gz = run((a32 + 1j * b32).astype("complex64"), size, "complex64")
    ga, gb = run(a32.astype(float), size, "complex64/real part"), run(b32.astype(float), size, "complex64/imag part")
    if gz is not None and ga is not None and gb is not None:
        if not numpy.iscomplexobj(gz) or not _near(gz.real, ga, 1e-5) or not _near(gz.imag, gb, 1e-5):
            chk.fail(key + "complex:complex64", "%s(a+ib) != %s(a) + i %s(b) for complex64 data, %dx%d -> %r, order=%d"
                     % (entry, entry, entry, n, n, size, order), dict(rep, dtype="complex64"))


def check_zoom_int(chk, entry, order, a, mx, my):
    ip, _, _ = _lib()
    fn = getattr(ip, entry)
    n = a.shape[0]
    af = a.astype(float)
    sc = max(1.0, float(numpy.abs(af).max()))
    rep = {"case": "zoom-int", "function": entry, "order": order, "a": a.tolist(), "dtype": str(a.dtype), "mx": mx, "my": my}
    for size, sl, what in (((n, n), (slice(None), slice(None)), "same-size"),
                           ((mx * (n - 1) + 1, my * (n - 1) + 1), (slice(None, None, mx), slice(None, None, my)), "nodes")):
        got, err = _call(fn, a.copy(), size, order)
        if err:
            chk.fail("zoom:%s:raises" % entry, "%s(%dx%d %s array, %r, order=%d) raised %s" % (entry, n, n, a.dtype, size, order, err), rep)
            continue
        got = numpy.asarray(got)
        if got.shape != tuple(size) or not _near(numpy.asarray(got, dtype=float)[sl], af, ZT, scale=sc):
            chk.fail("zoom:%s:%s:integer-image" % (entry, what), "%s(a, %r, order=%d)%s differs from a by %.3g for a %dx%d %s image "
                     "(values up to %d)" % (entry, size, order, "" if what == "same-size" else "[::%d, ::%d]" % (mx, my),
                                            float(numpy.abs(numpy.asarray(got, dtype=float)[sl] - af).max()) if got.shape == tuple(size) else float("nan"),
                                            n, n, a.dtype, int(sc)), rep)


def oracle_zoom(chk, n_cases):
    rng = chk.rng
    for it in range(n_cases):
        for entry in ("zoom", "zoom_rbs"):
            chk.oracle_cases += 1
            order = (1, 3, 5)[it % 3]            # every order on BOTH entry points, whatever the seed
            n = rng.randint(order + 1, 12)
            nprng = numpy.random.default_rng(rng.getrandbits(32))
            a = nprng.uniform(-1, 1, (n, n))
            b = nprng.uniform(-1, 1, (n, n))
            chk.case(("oracle", "zoom", entry, order, n, it),
                     sample={"oracle": "zoom", "entry": entry, "order": order, "n": n} if it == 0 else None)
            chk.count("oracle:zoom:%s:order%d" % (entry, order))
            mx, my = rng.randint(1, 3), rng.randint(1, 3)
            c = _poly(nprng, order)
            psize = (rng.randint(max(2, n + 1), 25), rng.randint(max(2, n + 1), 25)) if it % 2 == 0 else \
                (rng.randint(2, 25), rng.randint(2, 25))      # finer than the input: samples strictly between the nodes
            csize = (rng.randint(2, 20), rng.randint(2, 20))
            check_zoom(chk, entry, order, a, b, mx, my, c, psize, csize)
            # integer images (detector counts, index maps): the same-size and node clauses hold for them as for float data
            ai = nprng.integers(-3000, 3000, (n, n)).astype(["int64", "int32", "int16", "uint16"][it % 4] if it % 4 < 3 else "int64")
            if it % 4 == 3:
                ai = numpy.abs(ai).astype("uint16")
            chk.count("oracle:zoom:%s:integer-image:%s" % (entry, ai.dtype))
            check_zoom_int(chk, entry, order, ai, mx, my)


def check_azavg_const(chk, size, c):
    _, psf, _ = _lib()
    got, err = _call(psf.azimuthal_average, numpy.full((size, size), c))
    rep = {"case": "azavg-const", "function": "azimuthal_average", "size": size, "constant": c}
    if err:
        chk.fail("azavg:raises", "azimuthal_average(constant %dx%d) raised %s" % (size, size, err), rep)
    elif got.shape != (size // 2,):
        chk.fail("azavg:length", "azimuthal_average(%dx%d) has shape %s" % (size, size, got.shape), rep)
    elif not _near(got, numpy.full(size // 2, c), 1e-13, scale=abs(c)):
        chk.fail("azavg:constant", "azimuthal_average of the constant %r on %dx%d is %s" % (c, size, size, got.tolist()), rep)


def check_azavg_bounds(chk, data, kind=""):
    _, psf, _ = _lib()
    size = data.shape[0]
    got, err = _call(psf.azimuthal_average, data)
    rep = {"case": "azavg-bounds", "function": "azimuthal_average", "size": size, "dtype": str(data.dtype), "data": data.tolist()}
    if err:
        chk.fail("azavg:raises", "azimuthal_average(%dx%d %s image) raised %s" % (size, size, kind, err), rep)
        return
    lo, hi = float(data.min()), float(data.max())
    tol = 1e-12 * max(abs(lo), abs(hi))
    if got.shape != (size // 2,):
        chk.fail("azavg:length", "azimuthal_average(%dx%d) has shape %s" % (size, size, got.shape), rep)
    elif not numpy.all(numpy.isfinite(got)):
        chk.fail("azavg:empty-ring", "azimuthal_average(%dx%d) is not finite: %s" % (size, size, got.tolist()), rep)
    elif got.min() < lo - tol or got.max() > hi + tol:
        chk.fail("azavg:bounds", "azimuthal_average(%dx%d %s image) = %s leaves [min, max] = [%r, %r]"
                 % (size, size, kind, got.tolist(), lo, hi), rep)


def oracle_azavg(chk, n_cases):
    rng = chk.rng
    for it in range(n_cases):
        chk.oracle_cases += 1
        size = rng.randint(2, 33)
        chk.count("oracle:azavg:" + ("even" if size % 2 == 0 else "odd"))
        c = rng.choice([float(rng.randint(-5, 9)), common.dyadic(rng, -4, 4, 6), rng.uniform(-3, 3)])
        chk.case(("oracle", "azavg", size, c, it), sample={"oracle": "azavg", "size": size, "constant": c} if it == 0 else None)
        check_azavg_const(chk, size, c)
        data, kind = (_ints(rng, (size, size), -1000, 1000), "int") if rng.random() < 0.6 else \
            (numpy.random.default_rng(rng.getrandbits(32)).normal(0, 1, (size, size)), "float")
        if rng.random() < 0.3:       # one outlier: a ring that misses or double-counts it moves outside [min,max] of the rest
            data = numpy.zeros((size, size), dtype=data.dtype) + data.flat[0]
            data[rng.randrange(size), rng.randrange(size)] += 7
            kind += "+outlier"
        check_azavg_bounds(chk, data, kind)


def check_ee(chk, data, fr, kind="", centre=None):
    """centre: None (the default centre), or [xc, yc] passed as `center`"""
    _, psf, _ = _lib()
    size = data.shape[0]
    rep = {"case": "ee", "function": "encircled_energy", "size": size, "fraction": fr, "dtype": str(data.dtype), "data": data.tolist(),
           "centre": None if centre is None else [float(centre[0]), float(centre[1])]}
    kw = {} if centre is None else {"center": list(centre)}
    if centre is not None:
        kind = (kind + " centre=%r" % (list(centre),)).strip()
    curve, err = _call(psf.encircled_energy, data, fraction=fr, eeDiameter=False, **kw)
    d, err2 = _call(psf.encircled_energy, data, fraction=fr, **kw)
    if err or err2:
        chk.fail("ee:raises", "encircled_energy(%dx%d %s image, fraction=%r) raised %s" % (size, size, kind, fr, err or err2), rep)
        return
    if centre is not None and list(centre) == [size // 2, size // 2]:
        # the documented default centre is the image centre: passing it explicitly must give the same curve
        c0, e0 = _call(psf.encircled_energy, data, fraction=fr, eeDiameter=False)
        if e0 or not (numpy.array_equal(c0[0], curve[0]) and numpy.array_equal(c0[1], curve[1])):
            chk.broke("correspondence", "encircled_energy(%dx%d image) with center=[%d, %d] differs from the default centre "
                      "(the model's default is [dim, dim])" % (size, size, size // 2, size // 2))
    x, y = numpy.asarray(curve[0], dtype=float), numpy.asarray(curve[1], dtype=float)
    if x.shape != y.shape or x.ndim != 1 or len(x) < 1:
        chk.fail("ee:shape", "encircled_energy curve malformed: shapes %s %s" % (x.shape, y.shape), rep)
        return
    if not numpy.all(numpy.isfinite(y)):
        chk.fail("ee:non-finite", "encircled-energy curve of a %dx%d %s image (total %r) is not finite: %s"
                 % (size, size, kind, float(data.sum()), y.tolist()[:8]), rep)
        return
    d = float(d)
    if y[0] != 0 or x[0] != 0:
        chk.fail("ee:starts-zero", "encircled-energy curve of a %dx%d %s image starts at (%r, %r)" % (size, size, kind, float(x[0]), float(y[0])), rep)
    if numpy.any(numpy.diff(y) < -1e-13):
        k = int(numpy.argmin(numpy.diff(y)))
        chk.fail("ee:monotone", "encircled-energy curve of a %dx%d %s image decreases from %r to %r at sample %d"
                 % (size, size, kind, float(y[k]), float(y[k + 1]), k), rep)
    if y.max() > 1 + 1e-13 or y.min() < 0:
        chk.fail("ee:range", "encircled-energy curve of a %dx%d %s image leaves [0,1]: min %r max %r"
                 % (size, size, kind, float(y.min()), float(y.max())), rep)
    if numpy.any(numpy.diff(x) <= 0):
        chk.fail("ee:abscissa", "encircled-energy diameters are not increasing", rep)
    # the reported diameter is a tabulated diameter, no sample is closer to the fraction, and when the curve crosses the
    # fraction inside the table it is within half a curve step of it
    hit = numpy.nonzero(x == d)[0]
    if len(hit) != 1:
        chk.fail("ee:diameter-not-tabulated", "encircled_energy(fraction=%r) = %r is not one of the tabulated diameters" % (fr, d), rep)
        return
    k = int(hit[0])
    dist = numpy.abs(y - fr)
    if dist[k] > dist.min() + 1e-13:
        chk.fail("ee:diameter-not-nearest", "encircled_energy(%dx%d %s, fraction=%r) = %r where the curve is %r, but it is %r at %r"
                 % (size, size, kind, fr, d, float(y[k]), float(y[int(numpy.argmin(dist))]), float(x[int(numpy.argmin(dist))])), rep)
    if y[0] <= fr <= y[-1]:
        chk.count("oracle:ee:crossing-inside")
        a = int(numpy.nonzero(y <= fr)[0].max())
        if a + 1 < len(y) and not dist[k] <= (y[a + 1] - y[a]) / 2 + 1e-13:
            chk.fail("ee:diameter-crossing", "encircled_energy(fraction=%r) = %r (curve %r) is farther from the crossing between "
                     "samples %d and %d than half the step" % (fr, d, float(y[k]), a, a + 1), rep)
        # first minimiser (numpy.argmin): the smallest diameter among ties
        if numpy.any(dist[:k] <= dist[k] - 1e-13):
            chk.fail("ee:diameter-not-first", "a smaller diameter is strictly closer to the fraction", rep)


def oracle_ee(chk, n_cases):
    _, psf, _ = _lib()
    rng = chk.rng
    for it in range(n_cases):
        chk.oracle_cases += 1
        dim = rng.randint(1, 16)
        size = 2 * dim
        if rng.random() < 0.6:
            data, kind = _image(rng, size)
        else:
            data, kind = numpy.random.default_rng(rng.getrandbits(32)).uniform(0, 1, (size, size)) ** 4, "float"
        fr = rng.uniform(0.001, 0.999)
        if rng.random() < 0.6:       # the tabulated diameters stop at dim: put the fraction inside the tabulated curve
            probe, perr = _call(psf.encircled_energy, data, eeDiameter=False)
            if not perr and numpy.all(numpy.isfinite(probe[1])) and 0 < probe[1][-1] <= 1:
                fr = min(0.999, max(1e-6, rng.uniform(0, float(probe[1][-1]))))
        # centre: default / the image centre given explicitly / anywhere on the image (float) / a pixel corner
        cm = ("default", "explicit-default", "float", "integer", "default", "pixel-centre")[it % 6]
        centre = None
        if cm == "explicit-default":
            centre = [dim, dim]
        elif cm == "float":
            centre = [rng.uniform(0, size), rng.uniform(0, size)]
        elif cm == "integer":
            centre = [rng.randint(0, size), rng.randint(0, size)]
        elif cm == "pixel-centre":           # exactly on a pixel centre (the peak pixel of an FFT-made PSF): the radius-0 disc holds a pixel
            centre = [rng.randint(0, size - 1) + 0.5, rng.randint(0, size - 1) + 0.5]
            if rng.random() < 0.5:
                centre = [dim + 0.5, dim + 0.5]
            data = numpy.array(data, dtype=float, copy=True)
            data[int(centre[1]), int(centre[0])] += float(data.max()) + 1.0     # … and it is a bright one, on either index convention
            data[int(centre[0]), int(centre[1])] += float(data.max()) + 1.0
        if centre is not None and rng.random() < 0.6:     # fraction inside the curve of THIS centre
            probe, perr = _call(psf.encircled_energy, data, center=centre, eeDiameter=False)
            if not perr and numpy.all(numpy.isfinite(probe[1])) and 0 < probe[1][-1] <= 1:
                fr = min(0.999, max(1e-6, rng.uniform(0, float(probe[1][-1]))))
        chk.case(("oracle", "ee", size, kind, fr, cm, it),
                 sample={"oracle": "ee", "size": size, "kind": kind, "fraction": fr, "centre": centre} if it == 0 else None)
        chk.count("oracle:ee:" + kind)
        chk.count("oracle:ee:centre:" + cm)
        check_ee(chk, data, fr, kind, centre)


# ------------------------------------------------------------------------------------------------ round 5: generator audit
def _r5_layout(rng, data, kinds=("F", "strided", "reversed", "readonly", "broadcast")):
    kind = rng.choice(list(kinds))
    if kind == "F":
        return numpy.asfortranarray(data), kind
    if kind == "strided":
        big = numpy.zeros(data.shape[:-2] + (2 * data.shape[-2], 3 * data.shape[-1]), dtype=data.dtype)
        big[..., ::2, 1::3] = data
        return big[..., ::2, 1::3], kind
    if kind == "reversed":
        return numpy.ascontiguousarray(data[..., ::-1, ::-1])[..., ::-1, ::-1], kind
    if kind == "broadcast":                          # the same frame three times: a zero-stride, read-only stack
        return numpy.broadcast_to(data, (3,) + data.shape), kind
    out = numpy.array(data, copy=True)
    out.setflags(write=False)
    return out, kind


def oracle_round5_bin(chk, quick):
    """binImgs on input classes oracle_bin never draws: bin factors up to the whole frame and given as float / NumPy scalars, integers
    beyond 2^53 (a float accumulator loses them), complex fields, big-endian arrays, read-only and broadcast arrays, frames of 2^16 …
    2^20 pixels, stacks deeper than 2^8 frames, rank-5 stacks"""
    ip, _, _ = _lib()
    rng = chk.rng
    for it in range(36 if quick else 600):
        chk.oracle_cases += 1
        kind = ["int64-big", "uint64-big", "big-endian-f8", "big-endian-i4", "readonly", "broadcast", "large-n", "whole-frame", "rank5"][it % 9]
        n = rng.choice([1, 2, 2, 3, 4, 5])
        R, C = rng.randint(1, 5), rng.randint(1, 5)
        lead = () if rng.random() < 0.5 else (rng.randint(1, 3),)
        if kind == "large-n":
            n = rng.choice([7, 10, 16, 32])
            R, C = rng.randint(1, 3), rng.randint(1, 3)
        elif kind == "whole-frame":                  # one output pixel per image: n = the frame size
            n = rng.choice([2, 3, 8, 13, 32])
            R = C = 1
        elif kind == "rank5":
            lead = (rng.randint(1, 2), rng.randint(1, 3), rng.randint(1, 2))
        shape = lead + (R * n, C * n)
        if kind == "int64-big":                      # every block sum < 2^62, every pixel beyond the 53 bits of a double, odd
            data = numpy.array([rng.randrange(2 ** 53, 2 ** 62 // (n * n)) | 1 for _ in range(int(numpy.prod(shape)))], dtype=numpy.int64).reshape(shape)
        elif kind == "uint64-big":
            data = numpy.array([rng.randrange(2 ** 53, 2 ** 64 // (n * n)) | 1 for _ in range(int(numpy.prod(shape)))], dtype=numpy.uint64).reshape(shape)
        elif kind == "big-endian-f8":
            data = (_ints(rng, shape, 0, 4000) / 8.0).astype(">f8")
        elif kind == "big-endian-i4":
            data = _ints(rng, shape, -4000, 4000).astype(">i4")
        else:
            data = _ints(rng, shape, 0, 4000).astype(rng.choice(["int64", "float64", "int32", "float32"]))
        layout = "C"
        if kind in ("readonly", "broadcast"):
            if kind == "broadcast" and data.ndim > 2:
                data = data[0]
            data, layout = _r5_layout(rng, data, (kind,))
        chk.case(("oracle", "bin5", kind, data.shape, n, str(data.dtype), it))
        chk.count("oracle:bin:kind:" + kind)
        check_bin(chk, data, n)
        # the same bin factor written as a float or a NumPy scalar is the same binning
        if it % 3 == 0:
            base, err0 = _call(ip.binImgs, data, n)
            for nm, nv in (("float", float(n)), ("numpy.int64", numpy.int64(n)), ("numpy.float64", numpy.float64(n)), ("numpy.int32", numpy.int32(n)),
                           ("numpy.uint8", numpy.uint8(n)), ("0-d array", numpy.array(n))):
                got, err = _call(ip.binImgs, data, nv)
                if err0 is None and (err or got.shape != base.shape or got.dtype != base.dtype or not numpy.array_equal(got, base)):
                    chk.fail("bin:argform:n-" + nm, "binImgs(shape %s %s, n=%s(%d)) %s; with the Python int %d it is the block sums"
                             % (data.shape, data.dtype, nm, n, ("raised " + err) if err else "differs (shape %s dtype %s)" % (got.shape, got.dtype), n),
                             {"case": "bin-argform", "function": "binImgs", "shape": list(data.shape), "n": n, "n_type": nm, "dtype": str(data.dtype), "data": data.tolist()})
    # complex fields (integer-valued real and imaginary parts: every partial sum is exact)
    for it in range(8 if quick else 100):
        chk.oracle_cases += 1
        n = rng.choice([1, 2, 3, 4])
        R, C = rng.randint(1, 4), rng.randint(1, 4)
        lead = () if it % 2 else (rng.randint(1, 3),)
        shape = lead + (R * n, C * n)
        re, im = _ints(rng, shape, -4000, 4000), _ints(rng, shape, -4000, 4000)
        cdt = ["complex128", "complex64"][it % 4 == 3]
        data = (re + 1j * im).astype(cdt)
        chk.case(("oracle", "bin5", "complex", shape, n, cdt, it))
        chk.count("oracle:bin:kind:" + cdt)
        want = re.reshape(lead + (R, n, C, n)).sum(axis=(-3, -1)) + 1j * im.reshape(lead + (R, n, C, n)).sum(axis=(-3, -1))
        keep = data.copy()
        got, err = _call(ip.binImgs, data, n)
        rep = {"case": "bin-complex", "function": "binImgs", "shape": list(shape), "n": n, "dtype": cdt, "re": re.tolist(), "im": im.tolist()}
        path = "2d" if not lead else "nd"
        if err or got.shape != want.shape or not numpy.iscomplexobj(got) or not numpy.array_equal(got, want):
            chk.fail("bin:%s:block-sum:complex" % path, "binImgs(%s field of shape %s, n=%d) %s" % (
                cdt, shape, n, ("raised " + err) if err else "is not the %dx%d block sums of real and imaginary part (first: %r, block sum %r)"
                % (n, n, got.ravel()[0].item() if got.size else None, want.ravel()[0].item() if want.size else None)), rep)
        if not numpy.array_equal(keep, data):
            chk.fail("bin:%s:mutates-input" % path, "binImgs modified its (complex) input (shape %s, n=%d)" % (shape, n), rep)
    # frames of 2^16 … 2^20 pixels, deep stacks: integer-valued data, reference = reshape-and-sum in int64 (exact)
    big = [((512, 512), 2), ((256, 256), 4), ((513, 129), 3), ((300, 260), 20), ((1024, 256), 8), ((300, 4, 6), 2), ((1030, 3, 3), 3), ((2, 258, 258), 3)] if quick else \
        [((512, 512), 2), ((256, 256), 4), ((257 * 3, 255 * 3), 3), ((300, 260), 20), ((1024, 1024), 2), ((2048, 512), 8), ((300, 4, 6), 2),
         ((1030, 3, 3), 3), ((70000, 2, 2), 2), ((2, 258, 258), 3), ((3, 2, 512, 128), 4), ((65, 65, 4, 4), 2)]
    for shape, n in big:
        for dt in (["int64", "float64", "uint16", "float32"] if not quick else [rng.choice(["int64", "int32"]), rng.choice(["float64", "float32", "uint16"])]):
            chk.oracle_cases += 1
            hi = {"uint16": 65535 // (n * n), "float32": 2 ** 24 // (n * n)}.get(dt, 10 ** 6)
            nprng = numpy.random.default_rng(rng.getrandbits(32))
            vals = nprng.integers(0, hi, size=shape, endpoint=True)
            data = vals.astype(dt)
            lead = shape[:-2]
            R, C = shape[-2] // n, shape[-1] // n
            want = vals.reshape(lead + (R, n, C, n)).sum(axis=(-3, -1))
            chk.case(("oracle", "bin5", "large", shape, n, dt))
            chk.count("oracle:bin:large:" + ("deep-stack" if len(shape) > 2 and shape[0] > 256 else "frame>=2^16" if shape[-1] * shape[-2] >= 2 ** 16 else "other"))
            keep = data.copy()
            got, err = _call(ip.binImgs, data, n)
            rep = {"case": "bin-large", "function": "binImgs", "shape": list(shape), "n": n, "dtype": dt,
                   "data": "numpy.random.default_rng(seed).integers(0, %d, size=shape, endpoint=True).astype(dtype)" % hi}
            path = "2d" if not lead else "nd"
            if err or got.shape != want.shape or not numpy.array_equal(got.astype(numpy.int64), want) or not numpy.array_equal(got, want):
                w = None if (err or got.shape != want.shape) else numpy.argwhere(got != want)[0].tolist()
                chk.fail("bin:%s:block-sum:large" % path, "binImgs(%s array of shape %s, n=%d) %s" % (
                    dt, shape, n, ("raised " + err) if err else ("has shape %s, expected %s" % (got.shape, want.shape)) if w is None else
                    "%s = %r but the %dx%d block sums to %d (%d of %d outputs wrong)" % (w, got[tuple(w)].item(), n, n, int(want[tuple(w)]), int((got != want).sum()), want.size)), rep)
            elif not numpy.array_equal(keep, data):
                chk.fail("bin:%s:mutates-input" % path, "binImgs modified its input (shape %s, n=%d)" % (shape, n), rep)


ZT_BIG = 1e-9        # zoom of 40…200-sample arrays: observed <= 8.9e-15 (nodes), 3.2e-15·scale (polynomial), quick seeds 0-15 and thorough seed 0


def oracle_round5_zoom(chk, quick):
    """zoom / zoom_rbs on input classes oracle_zoom never draws: the target size as list / array / NumPy integer, the default and the
    keyword spelling of the order, float32 and non-C-contiguous / read-only arrays, arrays of 40 … 100 samples, target grids that
    are a SUBSET of the old nodes (decimation, down to 2 and 1 samples), and the input array left unchanged"""
    ip, _, _ = _lib()
    rng = chk.rng
    for it in range(24 if quick else 600):
        for entry in ("zoom", "zoom_rbs"):
            fn = getattr(ip, entry)
            chk.oracle_cases += 1
            order = (1, 3, 5)[it % 3]
            n = rng.randint(order + 1, 12)
            nprng = numpy.random.default_rng(rng.getrandbits(32))
            a = nprng.uniform(-1, 1, (n, n))
            chk.case(("oracle", "zoom5", entry, order, n, it))
            chk.count("oracle:zoom5:%s:order%d" % (entry, order))
            key = "zoom:%s:" % entry
            rep = {"case": "zoom5", "function": entry, "order": order, "a": a.tolist()}
            keep = a.copy()
            # --- the target size in the spellings a caller holds it
            sx, sy = rng.randint(2, 20), rng.randint(2, 20)
            base, err0 = _call(fn, a, (sx, sy), order)
            if err0:
                chk.fail(key + "raises", "%s(%dx%d array, %r, order=%d) raised %s" % (entry, n, n, (sx, sy), order, err0), dict(rep, size=[sx, sy]))
                continue
            forms = [("list", [sx, sy]), ("ndarray", numpy.array([sx, sy])), ("numpy-int64-tuple", (numpy.int64(sx), numpy.int64(sy))),
                     ("numpy-int32-tuple", (numpy.int32(sx), numpy.int32(sy)))]
            for nm, size in forms:
                got, err = _call(fn, a, size, order)
                if err or got.shape != (sx, sy) or not numpy.array_equal(got, base):
                    chk.fail(key + "argform:size-" + nm, "%s(a, %s %r, order=%d) %s; with the tuple %r it has shape %s" % (
                        entry, nm, [sx, sy], order, ("raised " + err) if err else "has shape %s / other values" % (got.shape,), (sx, sy), base.shape),
                        dict(rep, size=[sx, sy], size_form=nm))
            sq, errq = _call(fn, a, (sx, sx), order)
            for nm, size in (("int", sx), ("numpy-int64", numpy.int64(sx)), ("numpy-int32", numpy.int32(sx)), ("0-d array", numpy.array(sx))):
                got, err = _call(fn, a, size, order)
                if errq is None and (err or got.shape != (sx, sx) or not numpy.array_equal(got, sq)):
                    chk.fail(key + "argform:size-" + nm, "%s(a, %s(%d), order=%d) %s; with the tuple %r it has shape %s" % (
                        entry, nm, sx, order, ("raised " + err) if err else "has shape %s / other values" % (got.shape,), (sx, sx), sq.shape),
                        dict(rep, size=sx, size_form=nm))
            # --- the order as keyword / NumPy integer; the documented default order is 3
            for nm, kw in (("keyword", dict(order=order)), ("numpy-int64", dict(order=numpy.int64(order)))):
                got, err = _call(fn, a, (sx, sy), **kw)
                if err or not numpy.array_equal(got, base):
                    chk.fail(key + "argform:order-" + nm, "%s(a, %r, order=%d given as %s) %s" % (
                        entry, (sx, sy), order, nm, ("raised " + err) if err else "differs from the positional call"), dict(rep, size=[sx, sy], order_form=nm))
            if n >= 4:
                c = _poly(nprng, 3)
                grid = numpy.arange(n)
                pa = _polyval(c, grid, grid, n - 1)
                psize = (rng.randint(n + 1, 25), rng.randint(n + 1, 25))
                got, err = _call(fn, pa, psize)
                exp = _polyval(c, numpy.linspace(0, n - 1, psize[0]), numpy.linspace(0, n - 1, psize[1]), n - 1)
                if err or got.shape != psize or not _near(got, exp, ZT, scale=max(1.0, float(numpy.abs(pa).max()))):
                    chk.fail(key + "polynomial:default-order", "%s(p, %r) with the order left to its default (documented: 3) %s" % (
                        entry, psize, ("raised " + err) if err else "differs from the degree-(3,3) polynomial p by %.3g"
                        % (numpy.abs(got - exp).max() if got.shape == psize else float("nan"))), dict(rep, c=c.tolist(), psize=list(psize)))
                else:
                    g3, _ = _call(fn, pa, psize, 3)
                    if g3 is not None and not numpy.array_equal(g3, got):
                        chk.broke("correspondence", "%s(a, size) differs from %s(a, size, 3): the default order is not 3 (the model's default is 3)" % (entry, entry))
            # --- float32 / other memory layouts: same-size and node clauses, and the same answer as for the C-ordered float64 copy
            mx, my = rng.randint(1, 3), rng.randint(1, 3)
            a32 = a.astype("float32")
            for nm, arr in (("float32", a32), ) + tuple((k, _r5_layout(rng, a, (k,))[0]) for k in ("F", "strided", "reversed", "readonly")) + \
                    (("float32:F", numpy.asfortranarray(a32)), ("big-endian", a.astype(">f8"))):
                ref = numpy.array(arr, dtype=float)
                tol = ZT
                for size, sl, what in (((n, n), (slice(None), slice(None)), "same-size"),
                                       ((mx * (n - 1) + 1, my * (n - 1) + 1), (slice(None, None, mx), slice(None, None, my)), "nodes")):
                    got, err = _call(fn, arr, size, order)
                    cc, errc = _call(fn, ref.copy(), size, order)
                    if err or got.shape != size or not _near(numpy.asarray(got, dtype=float)[sl], ref, tol) or (errc is None and not _near(got, cc, tol)):
                        chk.fail(key + what + ":" + nm, "%s(a, %r, order=%d) for a %dx%d %s array %s" % (
                            entry, size, order, n, n, nm, ("raised " + err) if err else "differs from a at the old nodes by %.3g, from the result for the C-ordered float64 copy by %.3g"
                            % (numpy.abs(numpy.asarray(got, dtype=float)[sl] - ref).max() if got.shape == size else float("nan"),
                               numpy.abs(got - cc).max() if (errc is None and got.shape == cc.shape) else float("nan"))), dict(rep, layout=nm, size=list(size)))
                        break
            # --- decimation: a new grid that is a subset of the old nodes returns those samples (down to the corners / one sample)
            ks = [k for k in range(1, n) if (n - 1) % k == 0]
            kx, ky = rng.choice(ks), rng.choice(ks)
            for size, sl in ((((n - 1) // kx + 1, (n - 1) // ky + 1), (slice(None, None, kx), slice(None, None, ky))), ((2, 2), (slice(None, None, n - 1), slice(None, None, n - 1))),
                             ((1, 1), (slice(0, 1), slice(0, 1))), ((1, n), (slice(0, 1), slice(None)))):
                got, err = _call(fn, a, size, order)
                if err or got.shape != size or not _near(got, keep[sl], ZT):
                    chk.fail(key + "nodes:decimated", "%s(a, %r, order=%d) for a %dx%d array (the new grid is a subset of the old nodes) %s" % (
                        entry, size, order, n, n, ("raised " + err) if err else "has shape %s" % (got.shape,) if got.shape != size else
                        "differs from the samples of a at those nodes by %.3g" % numpy.abs(got - keep[sl]).max()), dict(rep, size=list(size)))
            if not numpy.array_equal(a, keep):
                chk.fail(key + "mutates-input", "%s(a, size, order=%d) modified its input array (%dx%d)" % (entry, order, n, n), rep)
    # --- arrays of 40 … 100 samples (phase screens are zoomed from 64 … 128 samples): nodes and polynomial clauses
    worst = getattr(chk, "zoom_big_worst", {})
    for it in range(6 if quick else 60):
        for entry in ("zoom", "zoom_rbs"):
            fn = getattr(ip, entry)
            chk.oracle_cases += 1
            order = (1, 3, 5)[it % 3]
            n = rng.choice([40, 64, 65, 100]) if quick else rng.choice([40, 64, 65, 100, 128, 200])
            nprng = numpy.random.default_rng(rng.getrandbits(32))
            a = nprng.uniform(-1, 1, (n, n))
            keep = a.copy()
            mx, my = rng.randint(1, 3), rng.randint(1, 3)
            chk.case(("oracle", "zoom5-big", entry, order, n, it))
            chk.count("oracle:zoom5:big:%s:order%d" % (entry, order))
            rep = {"case": "zoom5-big", "function": entry, "order": order, "n": n, "a": "numpy.random.default_rng(seed).uniform(-1, 1, (n, n))", "mx": mx, "my": my}
            size = (mx * (n - 1) + 1, my * (n - 1) + 1)
            got, err = _call(fn, a, size, order)
            if err or got.shape != size or not _near(got[::mx, ::my], keep, ZT_BIG):
                chk.fail("zoom:%s:nodes:big" % entry, "%s(a, %r, order=%d)[::%d, ::%d] for a %dx%d array %s" % (
                    entry, size, order, mx, my, n, n, ("raised " + err) if err else "differs from a by %.3g" % (numpy.abs(got[::mx, ::my] - keep).max() if got.shape == size else float("nan"))), rep)
            elif got.shape == size:
                worst["nodes"] = max(worst.get("nodes", 0.0), float(numpy.abs(got[::mx, ::my] - keep).max()))
            c = _poly(nprng, order)
            grid = numpy.arange(n)
            pa = _polyval(c, grid, grid, n - 1)
            psize = (rng.randint(n + 1, 2 * n + 40), rng.randint(n // 2, 2 * n + 40))
            got, err = _call(fn, pa, psize, order)
            exp = _polyval(c, numpy.linspace(0, n - 1, psize[0]), numpy.linspace(0, n - 1, psize[1]), n - 1)
            sc = max(1.0, float(numpy.abs(pa).max()))
            if err or got.shape != psize or not _near(got, exp, ZT_BIG, scale=sc):
                chk.fail("zoom:%s:polynomial:big" % entry, "%s of a degree-(%d,%d) polynomial sampled on %dx%d to %r %s" % (
                    entry, order, order, n, n, psize, ("raised " + err) if err else "differs from the polynomial by %.3g"
                    % (numpy.abs(got - exp).max() if got.shape == psize else float("nan"))), dict(rep, c=c.tolist(), psize=list(psize)))
            else:
                worst["polynomial"] = max(worst.get("polynomial", 0.0), float(numpy.abs(got - exp).max()) / sc)
    chk.zoom_big_worst = worst
    if worst:
        chk.notes.append("zoom of 40…200-sample arrays: largest deviation at the old nodes %.3g, from the polynomial %.3g (tolerance %g)"
                         % (worst.get("nodes", 0.0), worst.get("polynomial", 0.0), ZT_BIG))


def oracle_round5_radial(chk, quick):
    """azimuthal_average / encircled_energy on input classes the earlier sections never draw: image dtypes other than int64 / float64,
    images in physical units (1e-200 … 1e300 for the average, 1e-30 … 1e30 for the encircled energy), sizes 64 … 257, other memory
    layouts, the centre as tuple / array / NumPy scalars and on the image border, positional spelling; arguments left unchanged"""
    _, psf, _ = _lib()
    rng = chk.rng
    # ---- azimuthal average
    for it in range(40 if quick else 800):
        chk.oracle_cases += 1
        size = rng.randint(2, 33) if it % 8 else rng.choice([64, 128, 200, 255, 256, 257] if quick else [64, 128, 200, 255, 256, 257, 300, 512])
        kind = ["float32", "uint8", "uint16", "int32", "big-endian", "huge", "tiny", "layout", "bool"][it % 9]
        nprng = numpy.random.default_rng(rng.getrandbits(32))
        if kind == "float32":
            data, c = nprng.normal(0, 1, (size, size)).astype("float32"), float(numpy.float32(rng.uniform(-3, 3)))
        elif kind in ("uint8", "uint16", "int32"):
            hi = {"uint8": 255, "uint16": 65535, "int32": 2 ** 31 - 1}[kind]
            data, c = nprng.integers(0, hi, (size, size), endpoint=True).astype(kind), float(rng.choice([1, 7, hi]))
        elif kind == "big-endian":
            data, c = nprng.normal(0, 1, (size, size)).astype(">f8"), rng.uniform(-3, 3)
        elif kind == "huge":
            m = rng.choice([1e100, 1e200, 1e300])
            data, c = nprng.uniform(-1, 1, (size, size)) * m, m * rng.choice([-1.0, 1.0, 0.37])
        elif kind == "tiny":
            m = rng.choice([1e-100, 1e-200, 1e-290])
            data, c = nprng.uniform(-1, 1, (size, size)) * m, m * rng.choice([-1.0, 1.0, 0.37])
        elif kind == "bool":
            data, c = nprng.random((size, size)) < 0.5, 1.0
        else:
            data, c = nprng.normal(0, 1, (size, size)), rng.uniform(-3, 3)
        const = numpy.full((size, size), c).astype(data.dtype)
        layout = "C"
        if kind == "layout" or it % 5 == 0:
            data, layout = _r5_layout(rng, data, ("F", "strided", "reversed", "readonly"))
            const = _r5_layout(rng, const, (layout,))[0]
        chk.case(("oracle", "azavg5", size, kind, layout, it))
        chk.count("oracle:azavg5:" + kind)
        chk.count("oracle:azavg5:layout:" + layout)
        keep = numpy.array(data, copy=True)
        check_azavg_bounds(chk, data, kind + ("/" + layout if layout != "C" else ""))
        if not numpy.array_equal(keep, data):
            chk.fail("azavg:mutates-input", "azimuthal_average modified its input (%dx%d %s, %s layout)" % (size, size, data.dtype, layout),
                     {"case": "azavg-bounds", "function": "azimuthal_average", "size": size, "dtype": str(data.dtype), "data": keep.tolist()})
        got, err = _call(psf.azimuthal_average, const)
        rep = {"case": "azavg-const5", "function": "azimuthal_average", "size": size, "constant": c, "dtype": str(const.dtype), "layout": layout}
        if err:
            chk.fail("azavg:raises", "azimuthal_average(constant %r, %dx%d %s array) raised %s" % (c, size, size, const.dtype, err), rep)
        elif got.shape != (size // 2,) or not _near(got, numpy.full(size // 2, float(c)), 1e-13, scale=abs(c)):
            chk.fail("azavg:constant", "azimuthal_average of the constant %r on a %dx%d %s array (%s layout) is %s"
                     % (c, size, size, const.dtype, layout, got.tolist()[:8]), rep)
    # ---- azimuthal average, sizes the correspondence never reaches (it stops at 14 / 20 pixels): value i is the mean of the pixels
    # whose centre lies in (i, i+1] of the array middle — integer images, integer geometry (4·d² = (2x+1-n)² + (2y+1-n)²), so
    # each value is ONE correctly rounded division of two exact integers
    for size in ([33, 64, 129, 200, 256, 257] if quick else [33, 47, 64, 96, 129, 200, 255, 256, 257, 300, 400, 512]):
        for dt in ("int64", "float64", "uint16"):
            chk.oracle_cases += 1
            nprng = numpy.random.default_rng(rng.getrandbits(32))
            vals = nprng.integers(0, 60000, (size, size), endpoint=True) if dt != "int64" else nprng.integers(-10 ** 6, 10 ** 6, (size, size))
            data = vals.astype(dt)
            k = 2 * numpy.arange(size, dtype=numpy.int64) + 1 - size
            d2 = k[None, :] ** 2 + k[:, None] ** 2
            want = numpy.empty(size // 2)
            for i in range(size // 2):
                ring = (d2 > (2 * i) ** 2) & (d2 <= (2 * i + 2) ** 2)
                want[i] = float(int(vals[ring].sum())) / float(int(ring.sum()))
            chk.case(("oracle", "azavg5-rings", size, dt))
            chk.count("oracle:azavg5:ring-mean:" + ("large" if size > 33 else "small"))
            got, err = _call(psf.azimuthal_average, data)
            if err or got.shape != want.shape or not numpy.array_equal(got, want):
                w = None if (err or got.shape != want.shape) else int(numpy.argwhere(got != want)[0][0])
                chk.fail("azavg:ring-mean:large", "azimuthal_average(%dx%d %s image) %s" % (
                    size, size, dt, ("raised " + err) if err else ("has shape %s" % (got.shape,)) if w is None else
                    "[%d] = %r but the mean of the pixels with %d < distance <= %d from the middle is %r (%d of %d values differ)"
                    % (w, float(got[w]), w, w + 1, float(want[w]), int((got != want).sum()), len(want))),
                    {"case": "azavg-rings", "function": "azimuthal_average", "size": size, "dtype": dt,
                     "data": "numpy.random.default_rng(seed).integers(...)" if size > 33 else data.tolist()})
    # ---- encircled energy
    for it in range(40 if quick else 800):
        chk.oracle_cases += 1
        dim = rng.randint(1, 16) if it % 8 else rng.choice([32, 64, 100, 128])
        size = 2 * dim
        kind = ["uint8", "uint16", "int32", "bright", "faint", "layout", "big-endian", "float-hdr", "float32"][it % 9]
        nprng = numpy.random.default_rng(rng.getrandbits(32))
        if kind in ("uint8", "uint16", "int32"):
            hi = {"uint8": 255, "uint16": 65535, "int32": 2 ** 31 - 1}[kind]
            data = nprng.integers(0, hi, (size, size), endpoint=True).astype(kind)
            data[dim - 1, dim - 1] = hi
        elif kind in ("bright", "faint"):             # physical units: the unit-scale image times 2^±40 … 2^±332 (1e±12 … 1e±100), exactly
            unit = nprng.uniform(0, 1, (size, size)) ** 4
            pw = rng.choice([40, 67, 100, 332]) * (1 if kind == "bright" else -1)
            data = unit * 2.0 ** pw
        elif kind == "big-endian":
            data = (nprng.uniform(0, 1, (size, size)) ** 4).astype(">f8")
        elif kind == "float32":                       # single-precision frames; all the flux inside the largest aperture in half of them
            data = (nprng.uniform(0, 1, (size, size)) ** 4).astype("float32")
            if it % 2:
                if dim < 4:
                    dim = rng.randint(4, 16)
                    size = 2 * dim
                    data = numpy.zeros((size, size), dtype="float32")
                data[:] = 0
                data[dim - 1, dim - 1] = 1
                data[min(dim, size - 1), min(dim, size - 1)] = numpy.float32(1e-8)
        elif kind == "float-hdr":                     # a star core 1e12 times the wings
            data = nprng.uniform(0, 1, (size, size))
            data[rng.randrange(size), rng.randrange(size)] = 1e12
        else:
            data = nprng.uniform(0, 1, (size, size)) ** 4
        # float32 images: finding ee:range:float32 (the total was summed in single precision: curve up to 1.00000001), fixed by c007241
        layout = "C"
        if kind == "layout" or it % 5 == 0:
            data, layout = _r5_layout(rng, data, ("F", "strided", "reversed", "readonly"))
        fr = rng.uniform(0.001, 0.999)
        cm = ["default", "tuple", "ndarray", "numpy-scalars", "border", "int-ndarray"][it % 6]
        if kind == "float32" and it % 2:
            cm = "default"                             # all the flux inside the largest aperture of the default centre
        centre = None
        if cm in ("tuple", "ndarray", "numpy-scalars"):
            centre = [rng.uniform(0, size), rng.uniform(0, size)] if rng.random() < 0.5 else [float(rng.randint(0, size)), float(rng.randint(0, size))]
        elif cm == "border":                           # the centre on the border / in a corner of the image
            centre = [rng.choice([0, size, dim]), rng.choice([0, size])]
        elif cm == "int-ndarray":
            centre = [rng.randint(0, size), rng.randint(0, size)]
        chk.case(("oracle", "ee5", size, kind, layout, cm, fr, it))
        chk.count("oracle:ee5:" + kind)
        chk.count("oracle:ee5:centre:" + cm)
        keep = numpy.array(data, copy=True)
        check_ee(chk, data, fr, kind + ("/" + layout if layout != "C" else ""), centre)
        rep = {"case": "ee5", "function": "encircled_energy", "size": size, "fraction": fr, "dtype": str(data.dtype), "layout": layout,
               "centre": centre, "centre_form": cm, "data": keep.tolist() if size <= 32 else "omitted (size %d)" % size}
        if not numpy.array_equal(keep, data):
            chk.fail("ee:mutates-input", "encircled_energy modified its input image (%dx%d %s, %s layout)" % (size, size, data.dtype, layout), rep)
        # the same call in other spellings gives the same curve and diameter
        kw = {} if centre is None else {"center": list(centre)}
        c0, e0 = _call(psf.encircled_energy, data, fraction=fr, eeDiameter=False, **kw)
        d0, e1 = _call(psf.encircled_energy, data, fraction=fr, **kw)
        if e0 or e1:
            continue
        if kind in ("bright", "faint"):
            # a fraction of the total energy does not depend on the unit of the image: times a power of two every sum scales
            # exactly, so the curve and the diameter are the same numbers (observed: bit-identical, quick seeds 0-15, thorough 0)
            ulay = _r5_layout(rng, unit, (layout,))[0] if layout != "C" else unit
            cu, eu = _call(psf.encircled_energy, ulay, fraction=fr, eeDiameter=False, **kw)
            du, eu2 = _call(psf.encircled_energy, ulay, fraction=fr, **kw)
            if eu or eu2 or not (numpy.array_equal(cu[0], c0[0]) and _near(c0[1], cu[1], 1e-12)) or float(du) != float(d0):
                chk.fail("ee:scale:" + kind, "encircled_energy(2^%d * image) %s (%dx%d image, fraction %r, centre %r)" % (
                    pw, "raised " + (eu or eu2) if (eu or eu2) else "differs from encircled_energy(image): curves differ by %.3g, diameters %r vs %r"
                    % (float(numpy.abs(numpy.asarray(c0[1]) - numpy.asarray(cu[1])).max()) if numpy.asarray(c0[1]).shape == numpy.asarray(cu[1]).shape else float("nan"), d0, du),
                    size, size, fr, centre), dict(rep, power_of_two=pw, data=unit.tolist() if size <= 32 else rep["data"], note="image = data * 2**power_of_two"))
            else:
                chk.ee_scale_worst = max(getattr(chk, "ee_scale_worst", 0.0), float(numpy.abs(numpy.asarray(c0[1]) - numpy.asarray(cu[1])).max()))
        spell = [("eeDiameter=True", (data,), dict(fraction=fr, eeDiameter=True, **kw), "d"),
                 ("positional", (data, fr, None if centre is None else list(centre), False), {}, "c"),
                 ("numpy.float64 fraction", (data,), dict(fraction=numpy.float64(fr), **kw), "d")]
        if centre is not None:
            cobj = {"tuple": tuple(centre), "ndarray": numpy.array(centre, dtype=float), "numpy-scalars": [numpy.float64(centre[0]), numpy.float64(centre[1])],
                    "border": tuple(centre), "int-ndarray": numpy.array(centre)}[cm]
            ckeep = numpy.array(cobj, copy=True)
            spell += [("center as " + cm, (data,), dict(fraction=fr, center=cobj, eeDiameter=False), "c"),
                      ("center as " + cm, (data,), dict(fraction=fr, center=cobj), "d")]
        else:
            spell.append(("center=None", (data,), dict(fraction=fr, center=None, eeDiameter=False), "c"))
        for nm, args, kws, what in spell:
            got, err = _call(psf.encircled_energy, *args, **kws)
            ok = not err and ((float(got) == float(d0)) if what == "d" else
                              (isinstance(got, tuple) and len(got) == 2 and numpy.array_equal(got[0], c0[0]) and numpy.array_equal(got[1], c0[1])))
            if not ok:
                chk.fail("ee:argform:" + nm.split(" as ")[0].replace(" ", "-") + (":" + cm if " as " in nm else ""),
                         "encircled_energy(%dx%d %s image, fraction=%r, centre %r) written with [%s] %s" % (
                             size, size, kind, fr, centre, nm, ("raised " + err) if err else "gives another %s than the keyword / list spelling"
                             % ("diameter (%r vs %r)" % (got, d0) if what == "d" else "curve")), dict(rep, spelling=nm))
        if centre is not None and not numpy.array_equal(numpy.array(cobj), ckeep):
            chk.fail("ee:mutates-input", "encircled_energy modified its center argument %r -> %r" % (ckeep.tolist(), numpy.array(cobj).tolist()), rep)


def oracle_round5(chk, quick):
    oracle_round5_bin(chk, quick)
    oracle_round5_zoom(chk, quick)
    oracle_round5_radial(chk, quick)
    chk.notes.append("encircled energy of an image times 2^±40…2^±332 against the unit-scale image: largest curve difference %.3g "
                     "(tolerance 1e-12)" % getattr(chk, "ee_scale_worst", 0.0))


def replay(rec):
    """./check C16 --replay file : re-evaluate the recorded failing input on the real code (exit 1 while it still fails);
    a record without a concrete input (broken proof / correspondence) re-runs the recorded run"""
    f = rec.get("failure")
    if not f or "case" not in f.get("replay", {}):
        chk = common.Check("C16", rec.get("tier", "quick"), int(rec.get("seed", 0)))
        run(chk)
        return chk.finish()
    r = f["replay"]
    chk = common.Check("C16", "replay", int(rec.get("seed", 0)))
    if r["case"] == "bin":
        check_bin(chk, numpy.array(r["data"], dtype=r["dtype"]).reshape(r["shape"]), int(r["n"]), bool(r.get("generic", False)))
    elif r["case"] == "zoom":
        check_zoom(chk, r["function"], int(r["order"]), numpy.array(r["a"], dtype=float), numpy.array(r["b"], dtype=float),
                   int(r["mx"]), int(r["my"]), numpy.array(r["c"], dtype=float), tuple(r["psize"]), tuple(r["csize"]))
    elif r["case"] == "azavg-const":
        check_azavg_const(chk, int(r["size"]), float(r["constant"]))
    elif r["case"] == "azavg-bounds":
        check_azavg_bounds(chk, numpy.array(r["data"], dtype=r["dtype"]))
    elif r["case"] == "ee":
        data = numpy.ones((r["size"], r["size"])) if r["data"] == "ones" else numpy.array(r["data"], dtype=r["dtype"])
        check_ee(chk, data, float(r["fraction"]), "", r.get("centre"))
    else:
        raise ValueError("unknown replay case %r" % (r["case"],))
    same = [g for g in chk.failures if g["key"] == f["key"]]
    for g in chk.failures:
        print("  still failing [%s]: %s" % (g["key"], g["what"]))
    if not chk.failures:
        print("REPLAY-OK property=C16 the recorded input no longer violates the property (recorded key %s)" % f["key"])
        return 0
    print("REPLAY-FAILS property=C16 key=%s%s" % (f["key"], "" if same else " (recorded key no longer fails, others do)"))
    return 1


def exhaustive(chk):
    """thorough tier: the finite families in full"""
    # every (n, R, C) with n ≤ 6, R, C ≤ 4, 2-D and 3-D path, on a fixed pseudo-random integer image
    for n in range(1, 7):
        for R in range(1, 5):
            for C in range(1, 5):
                for lead in ((), (2,)):
                    chk.oracle_cases += 1
                    chk.count("oracle:bin:exhaustive")
                    chk.case(("oracle", "bin-exh", n, R, C, lead))
                    shape = lead + (R * n, C * n)
                    check_bin(chk, ((numpy.arange(int(numpy.prod(shape))) * 7919) % 1009).reshape(shape), n)
    # every size up to 96: no empty ring, constant image reproduced
    for size in range(2, 97):
        chk.oracle_cases += 1
        chk.count("oracle:azavg:exhaustive")
        chk.case(("oracle", "azavg-exh", size))
        check_azavg_const(chk, size, 3.0)
    # every even size up to 64: flat image, curve starts at 0, is monotone and ≤ 1
    for dim in range(1, 33):
        chk.oracle_cases += 1
        chk.count("oracle:ee:exhaustive")
        chk.case(("oracle", "ee-exh", dim))
        check_ee(chk, numpy.ones((2 * dim, 2 * dim)), 0.5 if dim % 2 else 0.05, "flat")


def run(chk):
    quick = chk.tier == "quick"
    chk.rule = ("correspondence: Lean model (Int / Float instantiation of Model/ImageReduce.lean) vs the real functions — exact for "
                "binImgs, pupil.circle, azimuthal_average (bit-identical), linspace, xi; |Δ| ≤ 1e-12 for the encircled-energy curve, "
                "1e-11·scale for order-1 zoom with the bilinear kernel run in Lean, 1e-12·scale for orders 3/5 with scipy's kernel at "
                "the model's coordinates; oracle: the property clauses evaluated on the real code (exact for binning wherever the block sums "
                "are representable, n*n*eps*sum|block| for ordinary floats, 1e-9·scale for "
                "spline clauses, 1e-13 slack for monotonicity / range); distinct = distinct (op, shape, parameters, draw)")
    chk.assumptions = [
        "the model Model/ImageReduce.lean is hand-written; its tie to the source is the correspondence (sampled, not proved)",
        "RectBivariateSpline is an external kernel: the theorems hold for every kernel meeting SplineContract (interpolation of the "
        "nodes, reproduction of tensor monomials of degree ≤ order inside the grid, linearity); the contract is checked numerically "
        "on the instances used, not proved",
        "integer overflow of narrow dtypes in binImgs (uint8/int16 accumulators inherit data.dtype) is not modelled: block sums are "
        "assumed to fit the dtype",
        "IEEE rounding: theorems are over exact real arithmetic; monotonicity / ≤ 1 of the encircled-energy curve in binary64 is "
        "sampled by the oracle with 1e-13 slack",
        "encircled_energy: images with zero total (division 0/0) are outside the domain (hypothesis 0 < total); the real code "
        "returns an all-NaN curve for them without raising (observed each run, recorded in the notes, not judged)",
        "binImgs on ordinary (non-dyadic) floats: 'exactly the block sums' is read as 'to the rounding of a sum of n*n terms' "
        "(|error| <= n*n*eps*sum|block|, an a-priori bound valid for every summation order); images whose block sums are exactly "
        "representable (integers, dyadics, narrow / unsigned dtypes with sums that fit, float images with a 2^k hot pixel) are "
        "compared exactly against Fraction / integer block sums",
        "zoom: arrays need more than `order` samples per axis (precondition of the spline kernel; smaller arrays make scipy raise) "
        "— theorem hypothesis order < nx, ny; the oracle draws n ≥ order + 1",
        "encircled_energy with a pixel-centred (half-integer) centre: the outermost mask then depends on the last ulp of libm's pow "
        "(radius dim**(1/1.9)**1.9 vs a pixel at distance exactly dim); the correspondence uses integer / quarter-offset centres, "
        "the theorems hold for every centre",
    ]
    chk.build_and_audit("AoVerif.Props.C16", "AoVerif.Props.C16", REQUIRED)
    try:
        correspondence(chk, 3 if quick else 100)
    except common.LeanError as ex:
        chk.broke("correspondence", "Lean driver for C16 does not build / run", str(ex))
    oracle_bin(chk, 130 if quick else 6500)
    chk.notes.append("binning of ordinary floats (12 decades, float64 and float32): worst |binImgs - exact block sum| was %.3g of the "
                     "allowed n*n*eps*sum|block| (exact expectations by Fraction; integer, dyadic, narrow / unsigned dtypes and "
                     "high-dynamic-range images with a 2^k hot pixel are compared exactly)" % getattr(chk, "generic_worst", 0.0))
    _, psf_, _ = _lib()
    with numpy.errstate(all="ignore"):
        z, zerr = _call(psf_.encircled_energy, numpy.zeros((4, 4)), eeDiameter=False)
    chk.notes.append("zero-total image (outside the domain, hypothesis 0 < total): encircled_energy(zeros((4,4))) %s"
                     % ("raised " + zerr if zerr else "returns a curve with %d NaN of %d samples (0/0), no exception"
                        % (int(numpy.isnan(z[1]).sum()), len(z[1]))))
    oracle_zoom(chk, 40 if quick else 4000)
    oracle_azavg(chk, 80 if quick else 10000)
    oracle_ee(chk, 80 if quick else 6000)
    oracle_round5(chk, quick)
    if not quick:
        exhaustive(chk)
