"""C07 — FFT phase screens have exactly the discretised von Karman statistics."""
import math

import numpy

from .. import common, t1check

MANIFEST = {
    "text": "Lean 4 theorems for EVERY even N>0, all parameters, all pixel pairs and all draws, about a model of "
            "phasescreen.ft_phase_screen / ft_sh_phase_screen (frequency grid, T1-regenerated PSD expression, DC removal, complex "
            "coefficients, the module's own shift-ifft2-shift wrapper, real part; three 3x3 sub-harmonic grids, mean removal; the order "
            "in which the generator stream is consumed): the screen equals an explicit real-linear map of the draws "
            "(screen_eq_lin, screen_linear, screen_expansion); summed over the whole draw basis the covariance is exactly the inverse "
            "discrete Fourier sum of 0.023 r0^(-5/3) exp(-(f/fm)^2)(f^2+1/L0^2)^(-11/6) on the grid (k-N/2)/(N delta) with the zero "
            "frequency removed (ensemble_cov, psd_is_stated, fgrid_is_stated); hence stationarity, N-periodicity, constant variance, "
            "zero ensemble and spatial mean, structure function 2(C(0)-C(d)), exact r0^(-5/6) amplitude scaling for fixed draws "
            "(also of the sub-harmonic screen); with separate sub-harmonic draws D_sh - D_hi is a sum of squares (sh_adds_power, "
            "sh_sf_ge) given in closed form; the Generator stream pattern leaves all draws free (generator_draws_free). The model is "
            "tied to the code by running the same Lean definitions at binary64 against the real functions (injected Generator "
            "subclass returning prescribed draws; int-seed path included; both branches of phasescreen.ift2, the FFT-object one "
            "proved equal to the default one for even N: fft_branch_eq); the oracle extracts the full linear map L of the real code "
            "with respect to the STREAM of Gaussian draws (unit stream positions, whatever calls consume the stream) and compares "
            "L L^T with the PSD-cosine sum, plus linearity, means, scaling, sub-harmonic clauses, int / NumPy-scalar parameters.",
    "note": "Trusted: Lean kernel + standard axioms; numpy.fft.ifft2 = nested naive inverse DFT sums (checked numerically each run); "
            "the linear-Gaussian bridge 'L g with g i.i.d. N(0,1) has covariance L L^T'; binary64 rounding not modelled. Unproven "
            "(numeric only, fixed configurations): convergence of the structure function to the analytic von Karman one under grid "
            "refinement and 'closer at large separations'. Finding (fixed by fixes/C07-sh-seed-reuse.diff): with seed=<int> the pinned "
            "ft_sh_phase_screen re-seeded the high-frequency screen, so the 54 sub-harmonic draws equalled the first 54 high-frequency "
            "draws and structure-function values decreased for small L0.",
    "technique": "Lean 4 proof (roots of unity / cos-sin orthogonality over Finset sums, real powers) about a hand-written model with a "
                 "translator-regenerated spectrum + differential correspondence with the real code + exact linear-map oracle",
}
REQUIRED = ["psd_is_stated", "psd_sh_is_stated", "fgrid_is_stated", "fabs_sq", "screen_eq_lin", "screen_linear",
            "screen_expansion", "ensemble_cov", "stationary", "covSum_periodic", "variance_const", "zero_mean_ensemble",
            "zero_mean_spatial", "r0_scaling", "sfHi_eq", "sh_split", "lo_eq_lin", "lo_zero_mean_spatial",
            "sh_zero_mean_spatial", "sh_adds_power", "sh_sf_ge", "sfLo_closed_form", "fgridSh_is_stated", "sh_r0_scaling",
            "generator_draws_free", "sh_stream_eq", "hi_stream_eq", "lo_linear", "sh_linear", "pinned_seed_reuse",
            "fft_branch_eq", "sh_fft_branch_eq", "fft_branch_screen_eq_lin", "domain_no_division_by_zero", "psd_pos"]
T1_NAMES = ["psd_ft_phase_screen", "psd_ft_sh_phase_screen"]
TOL = 1e-9


class FakeGen(numpy.random.Generator):
    """a numpy Generator whose Gaussian draws (normal / standard_normal, any size / broadcasting / dtype / out=) are handed out
    from a prescribed STREAM, in the order numpy fills them (C order) — numpy.random.default_rng passes a Generator through
    unchanged, so the real code draws from it exactly as from a real one.  Only stream positions matter to the oracle, never
    the pattern of calls; `calls` is kept for messages.  Any other sampling method falls through to the underlying PCG64,
    whose state change is detected (`foreign`)."""

    def __init__(self, g):
        super().__init__(numpy.random.PCG64(0))
        self.g = numpy.asarray(g, dtype=float)
        self.pos = 0
        self.overrun = False
        self.calls = []
        self._state0 = repr(self.bit_generator.state)

    @property
    def foreign(self):
        """numbers were drawn by some method other than normal / standard_normal"""
        return repr(self.bit_generator.state) != self._state0

    def _take(self, shape):
        n = int(numpy.prod(shape)) if shape else 1
        out = numpy.zeros(n)
        avail = self.g[self.pos:self.pos + n]
        out[:avail.size] = avail
        if avail.size < n:
            self.overrun = True
        self.pos += n
        return out.reshape(shape)

    @staticmethod
    def _shape(size, *bc):
        if size is None:
            return numpy.broadcast(*bc).shape if bc else ()
        return tuple(int(x) for x in size) if hasattr(size, "__len__") else (int(size),)

    def normal(self, loc=0.0, scale=1.0, size=None):
        shape = self._shape(size, numpy.asarray(loc), numpy.asarray(scale))
        self.calls.append(("normal", shape))
        z = self._take(shape)
        out = loc + scale * z
        return float(out) if shape == () and numpy.ndim(out) == 0 else out

    def standard_normal(self, size=None, dtype=numpy.float64, out=None):
        shape = out.shape if out is not None and size is None else self._shape(size)
        self.calls.append(("standard_normal", shape))
        z = self._take(shape).astype(dtype)
        if out is not None:
            out[...] = z
            return out
        return float(z) if shape == () else z


class ReentrantGen(FakeGen):
    """a FakeGen that, inside its k-th sampling call, has ANOTHER screen of the same size built by the library (other r0, other seed) before
    it returns its own numbers: the schedule of two threads making layers of one size at once, made deterministic"""

    def __init__(self, g, k, hook):
        super().__init__(g)
        self._k, self._hook, self._n = k, hook, 0

    def _take(self, shape):
        self._n += 1
        if self._n == self._k:
            hook, self._hook = self._hook, None
            if hook is not None:
                hook()
        return super()._take(shape)


def overlapping_construction(chk, ps, quick):
    """SCHEDULES (round 6): a screen whose construction overlaps that of another screen of the same size is the screen its own draws give —
    i.e. what the same call returns when nothing else runs.  (Seeded change C07-K kept the N x N coefficient array in a module-level work
    array per N, filled in three steps: sequential use is bit-identical, two overlapping constructions mix their coefficients.)"""
    rng = chk.rng
    for it in range(6 if quick else 40):
        N = rng.choice([4, 6, 8, 16, 32])
        c = config(rng, N)
        sh = it % 2 == 1
        fn = ps.ft_sh_phase_screen if sh else ps.ft_phase_screen
        name = "ft_sh_phase_screen" if sh else "ft_phase_screen"
        nd = 2 * N * N + (54 if sh else 0)
        g = numpy.random.default_rng(rng.getrandbits(32)).standard_normal(nd + 64)
        other = dict(config(rng, N), delta=c["delta"])
        k = rng.choice([1, 2, 2, 3])
        chk.oracle_cases += 1
        chk.count("oracle:overlapping-construction")
        chk.case(("overlap", name, N, c["r0"], c["delta"], c["L0"], c["l0"], k))
        rep = dict(c, function=name, other=other, inside_sampling_call=k, clause="overlapping-construction")
        alone = numpy.asarray(fn(*_args(c), seed=FakeGen(g)), dtype=float)
        inner = []
        gen = ReentrantGen(g, k, lambda: inner.append(numpy.asarray(rng.choice([ps.ft_phase_screen, ps.ft_sh_phase_screen])(*_args(other), seed=12345), dtype=float)))
        got = numpy.asarray(fn(*_args(c), seed=gen), dtype=float)
        if not inner:
            continue                                  # fewer sampling calls than k: nothing overlapped
        scale = float(numpy.max(numpy.abs(alone))) or 1.0
        if got.shape != alone.shape or not numpy.all(numpy.abs(got - alone) <= 1e-12 * scale):
            chk.fail("overlap:%s" % name, "%s(r0=%r, N=%d, delta=%r, L0=%r, l0=%r) while another screen of the same size (r0=%r, L0=%r) is built "
                     "inside its sampling call number %d: differs from the same call made alone by %.3g of its largest value"
                     % (name, c["r0"], N, c["delta"], c["L0"], c["l0"], other["r0"], other["L0"], k,
                        float(numpy.max(numpy.abs(got - alone))) / scale if got.shape == alone.shape else float("nan")), rep)


class seeded_stream:
    """While active, numpy.random.default_rng(<anything that is not a Generator>) returns a FRESH FakeGen positioned at the
    start of the prescribed stream — which is what seeding with an int means (every generator built from the same seed
    replays the same stream); Generators pass through as numpy does.  This lets unit draws probe the int-seed path."""

    def __init__(self, g):
        self.g, self.gens = g, []

    def __enter__(self):
        self.orig = numpy.random.default_rng

        def fake(seed=None):
            if isinstance(seed, numpy.random.Generator):
                return seed
            gen = FakeGen(self.g)
            self.gens.append(gen)
            return gen
        numpy.random.default_rng = fake
        return self

    def __exit__(self, *a):
        numpy.random.default_rng = self.orig
        return False


def logu(rng, lo, hi):
    return math.exp(rng.uniform(math.log(lo), math.log(hi)))


def config(rng, N):
    return dict(N=N, r0=logu(rng, 0.05, 0.5), delta=logu(rng, 0.005, 0.5), L0=logu(rng, 1.0, 100.0), l0=logu(rng, 0.001, 0.05))


def _args(c, r0=None):
    return (c["r0"] if r0 is None else r0, c["N"], c["delta"], c["L0"], c["l0"])


def hi_screen(ps, c, g, r0=None, **kw):
    gen = FakeGen(g)
    s = ps.ft_phase_screen(*_args(c, r0), seed=gen, **kw)
    return numpy.asarray(s), gen


def sh_screen(ps, c, g, r0=None, **kw):
    gen = FakeGen(g)
    s = ps.ft_sh_phase_screen(*_args(c, r0), seed=gen, **kw)
    return numpy.asarray(s), gen


def sh_screen_intseed(ps, c, g, r0=None, seed_value=12345, **kw):
    """ft_sh_phase_screen called with an int seed (any non-Generator seed value) whose stream is g"""
    with seeded_stream(g) as ctx:
        s = ps.ft_sh_phase_screen(*_args(c, r0), seed=seed_value, **kw)
    gen = FakeGen(g)
    gen.pos = max([x.pos for x in ctx.gens] + [0])
    gen.overrun = any(x.overrun for x in ctx.gens)
    gen.calls = [x.calls for x in ctx.gens]
    gen._state0 = repr(gen.bit_generator.state) if not any(x.foreign for x in ctx.gens) else None
    return numpy.asarray(s), gen


def stream_length(fn, ps, c):
    """how many positions of the generator stream the real code reads (for an int seed: the furthest position read by any
    generator built from it) — found by running it on an empty stream (positions past the end read as 0), NOT assumed.
    Returns (length, generator)"""
    _, gen = fn(ps, c, numpy.zeros(0))
    return gen.pos, gen


def columns(fn, ps, c, nd, rows=None):
    """the linear map of the REAL code with respect to the STREAM of Gaussian draws, whatever the pattern of calls that
    consumes it: column e = screen when stream position e is 1 and all others 0 (only pixel rows `rows` of the flattened
    screen are kept if given); also the set of (positions consumed, overrun, foreign draws) seen"""
    N = c["N"]
    L = numpy.empty((N * N if rows is None else len(rows), nd))
    used = set()
    for e in range(nd):
        g = numpy.zeros(nd)
        g[e] = 1.0
        s, gen = fn(ps, c, g)
        L[:, e] = s.ravel() if rows is None else s.ravel()[rows]
        used.add((gen.pos, gen.overrun, gen.foreign))
    return L, used


def psd_text(f2, r0, L0, l0):
    """the spectrum as the property states it (f2 = f^2)"""
    fm = 5.92 / l0 / (2 * math.pi)
    return 0.023 * r0 ** (-5.0 / 3.0) * numpy.exp(-f2 / fm ** 2) * (f2 + 1.0 / L0 ** 2) ** (-11.0 / 6.0)


def cov_reference(c):
    """C[(p1,p2),(q1,q2)] = Σ_{k≠DC} PSD_k Δf² cos(2π k·(p−q)/N): the inverse discrete Fourier sum, by explicit sums"""
    N = c["N"]
    df = 1.0 / (N * c["delta"])
    k = numpy.arange(N) - N // 2
    f2 = (k[:, None] * df) ** 2 + (k[None, :] * df) ** 2
    P = psd_text(f2, c["r0"], c["L0"], c["l0"]) * df * df
    P[N // 2, N // 2] = 0.0
    d = numpy.arange(N)
    E = numpy.exp(2j * numpy.pi * numpy.outer(d, k) / N)          # E[d,i] = e^{2πi k_i d/N}
    T = (E @ P @ E.T).real                                        # T[d1,d2], periodic in d
    p = numpy.arange(N)
    D = (p[:, None] - p[None, :]) % N
    C = T[D[:, None, :, None], D[None, :, None, :]]               # [p1,p2,q1,q2]
    return C.reshape(N * N, N * N), P


def lo_cov_reference(c):
    """covariance of the mean-removed sub-harmonic part: P C_raw P, C_raw = Σ_p Σ_{ij≠centre} PSD Δf_p² cos(2π f·(r−r'))"""
    N = c["N"]
    D = N * c["delta"]
    x = (numpy.arange(N) - N / 2.0) * c["delta"]
    X, Y = numpy.meshgrid(x, x)                                   # X[u,v] = x[v], Y[u,v] = x[u]
    X, Y = X.ravel(), Y.ravel()
    C = numpy.zeros((N * N, N * N))
    for p in (1, 2, 3):
        df = 1.0 / (3 ** p * D)
        for i in (-1, 0, 1):
            for j in (-1, 0, 1):
                if i == 0 and j == 0:
                    continue
                fx, fy = j * df, i * df
                w = psd_text(fx * fx + fy * fy, c["r0"], c["L0"], c["l0"]) * df * df
                ph = 2 * numpy.pi * (fx * X + fy * Y)
                C += w * numpy.cos(ph[:, None] - ph[None, :])
    Pm = numpy.eye(N * N) - numpy.full((N * N, N * N), 1.0 / (N * N))
    return Pm @ C @ Pm


def sf(C):
    d = numpy.diag(C)
    return d[:, None] + d[None, :] - 2 * C


def wire(op, c, g, extra=""):
    return "C07 %s %s%d %s %s" % (op, extra, c["N"], " ".join(common.f2h(c[k]) for k in ("r0", "delta", "L0", "l0")),
                                   " ".join(common.f2h(x) for x in g))


def parse_grid(ans, N):
    return numpy.array([common.h2f(h) for h in ans.split()]).reshape(N, N)


# ---------------------------------------------------------------------------------------------------------------- checks
def kernel_contract(chk):
    """numpy.fft.ifft2 / fftshift / ifftshift are what Model/Fourier assumes (nested naive inverse DFT sums, rotations)"""
    nprng = numpy.random.default_rng(11)
    for n in (2, 3, 4, 5, 8):
        x = nprng.normal(size=(n, n)) + 1j * nprng.normal(size=(n, n))
        j = numpy.arange(n)
        Wi = numpy.exp(2j * numpy.pi * numpy.outer(j, j) / n) / n
        if numpy.abs(numpy.fft.ifft2(x) - Wi @ x @ Wi).max() > 1e-12 * n * n or \
                not numpy.array_equal(numpy.fft.fftshift(x), numpy.roll(x, (n // 2, n // 2), (0, 1))) or \
                not numpy.array_equal(numpy.fft.ifftshift(x), numpy.roll(x, (-(n // 2), -(n // 2)), (0, 1))):
            chk.broke("correspondence", "numpy.fft does not meet the inverse-DFT / shift contract at n=%d" % n)


def correspondence(chk, ps, quick):
    nprng = numpy.random.default_rng(chk.rng.getrandbits(32))
    lines, expect, desc, scales = [], [], [], []
    sizes = [2, 3, 4, 5, 6, 8] + ([] if quick else [7, 10, 12, 16])
    for N in sizes:
        reps = (2 if N <= 5 else 1) if quick else (1 if N > 8 else 3)
        for _ in range(reps):
            c = config(chk.rng, N)
            par = "even" if N % 2 == 0 else "odd"
            nh = 2 * N * N
            # high-frequency screen: dense random draws and two unit draws
            draws = [("dense", nprng.normal(size=nh))]
            for part in ("re", "im"):
                e = chk.rng.randrange(N * N) + (0 if part == "re" else N * N)
                u = numpy.zeros(nh)
                u[e] = 1.0
                draws.append(("unit-" + part, u))
            for kind, g in draws:
                s, gen = hi_screen(ps, c, g)
                # comparison scale: a unit column may vanish identically (sin θ ≡ 0 at Nyquist/DC samples) while the model has
                # rounding residue amp·1e-16; the amplitude of the partner column (other part of the same sample) is the scale
                sc = numpy.abs(s).max()
                if kind != "dense":
                    sc = max(sc, numpy.abs(hi_screen(ps, c, numpy.roll(g, N * N))[0]).max())
                scales.append(sc); 
                if gen.pos != nh or gen.overrun or gen.foreign:
                    chk.broke("correspondence", "ft_phase_screen reads %d positions of the Gaussian stream%s, the model 2N²=%d (calls %s) at N=%d"
                              % (gen.pos, " and draws by other means" if gen.foreign else "", nh, gen.calls[:4], N))
                lines.append(wire("hi", c, g)); expect.append(s); desc.append(("hi", par, N, kind, c))
                if N % 2 == 0 and (kind == "dense" or N <= 6):
                    scales.append(sc)
                    lines.append(wire("hilin", c, g)); expect.append(s); desc.append(("hilin", par, N, kind, c))
                if kind == "dense" or N <= 5:
                    # the FFT-object branch of phasescreen.ift2 (fftshift∘FFT∘fftshift: differs from the default for odd N)
                    sf_ = hi_screen(ps, c, g, FFT=numpy.fft.ifft2)[0]
                    scales.append(sc)
                    lines.append(wire("hifft", c, g)); expect.append(sf_); desc.append(("hifft", par, N, kind, c))
            if N > 8 and N not in (10, 12, 16):
                continue
            # sub-harmonic screen, injected Generator: 2N² + 54 separate draws, high part first
            g = nprng.normal(size=nh + 54)
            s, gen = sh_screen(ps, c, g)
            if gen.pos != nh + 54 or gen.overrun or gen.foreign:
                chk.broke("correspondence", "ft_sh_phase_screen with an injected Generator reads %d positions of the Gaussian stream%s, the "
                          "model 2N²+54=%d (calls %s) at N=%d" % (gen.pos, " and draws by other means" if gen.foreign else "", nh + 54,
                                                                 gen.calls[:10], N))
            scales.append(None); lines.append(wire("sh", c, g, "0 ")); expect.append(s); desc.append(("sh-generator", par, N, "dense", c))
            hi_part, _ = hi_screen(ps, c, g[:nh])
            scales.append(numpy.abs(s).max()); lines.append(wire("lolin", c, g[nh:])); expect.append(s - hi_part); desc.append(("lolin", par, N, "dense", c))
            if N > 8:                 # the interpreted model needs N⁴·27 complex exponentials per sub-harmonic screen
                continue
            sf_ = sh_screen(ps, c, g, FFT=numpy.fft.ifft2)[0]
            scales.append(None); lines.append(wire("shfft", c, g)); expect.append(sf_); desc.append(("shfft", par, N, "dense", c))
            # int seed: one generator built from the seed serves both parts
            seed = chk.rng.randrange(1, 2 ** 31)
            g = numpy.random.default_rng(seed).normal(size=nh + 54)
            s = numpy.asarray(ps.ft_sh_phase_screen(c["r0"], N, c["delta"], c["L0"], c["l0"], seed=seed))
            scales.append(None); lines.append(wire("sh", c, g, "0 ")); expect.append(s); desc.append(("sh-intseed", par, N, "seed", c))
            # PSD·Δf² of the model against the power of the columns of the real code: Σ_pixels (colA² + colB²) = N² PSD Δf²
            if N % 2 == 0 and N <= 6:
                L, _ = columns(hi_screen, ps, c, nh)
                pw = ((L[:, :N * N] ** 2).sum(0) + (L[:, N * N:] ** 2).sum(0)).reshape(N, N) / (N * N)
                scales.append(None); lines.append(wire("psd", c, [])); expect.append(pw); desc.append(("psd", par, N, "columns", c))
    ans = common.run_driver(lines, "C07")
    nbad = 0
    assert len(scales) == len(lines)
    for a, e, ds, sc0 in zip(ans, expect, desc, scales):
        chk.corr_cases += 1
        op, par, N, kind, c = ds
        chk.count("corr:%s:%s" % (op, par))
        chk.case(("corr", op, N, kind, repr(sorted(c.items()))), sample={"op": op, "draws": kind, **c})
        if a == "bad-op":
            chk.broke("correspondence", "driver rejected %s N=%d" % (op, N))
            continue
        m = parse_grid(a, N)
        scale = (numpy.abs(e).max() if sc0 is None else sc0) + 1e-300
        err = float(numpy.abs(m - e).max())
        if not err <= TOL * scale:
            nbad += 1
            if nbad <= 4:
                chk.broke("correspondence", "model %s differs from the real code at N=%d %s (max err %.3g, scale %.3g, draws %s)"
                          % (op, N, {k: c[k] for k in ("r0", "delta", "L0", "l0")}, err, scale, kind))


def probe(chk, fn, ps, c, what, model_nd, tag):
    """length of the Gaussian stream the real code reads.  HOW the code draws (which Generator method, in how many calls of
    what shape, how many numbers) is not part of the property: a difference from the model is reported as broken
    correspondence, never as a violation, and the oracle goes on with the length found."""
    nd, gen = stream_length(fn, ps, c)
    if gen.foreign:
        chk.broke("correspondence", "%s draws random numbers by other means than Generator.normal / standard_normal at %s (calls %s): "
                  "it cannot be probed with unit draws" % (what, tag, gen.calls[:6]))
        return None
    if nd != model_nd:
        chk.broke("correspondence", "%s reads %d positions of the Gaussian stream, the model %d (calls %s) at %s"
                  % (what, nd, model_nd, gen.calls[:8], tag))
    if nd > 4 * model_nd + 64:
        return None
    return nd


def naive_ifft2(x):
    """an 'FFT object' that is not numpy's: inverse DFT by matrix products"""
    n = x.shape[0]
    j = numpy.arange(n)
    Wi = numpy.exp(2j * numpy.pi * numpy.outer(j, j) / n) / n
    return Wi @ x @ Wi


class PlannedIFFT2:
    """an inverse 2-D FFT 'plan' in the style of pyfftw.FFTW / AOFFT: it owns one output buffer, fills it on every call and returns it"""
    def __init__(self):
        self.out = None

    def __call__(self, a):
        a = numpy.asarray(a)
        if self.out is None or self.out.shape != a.shape:
            self.out = numpy.empty(a.shape, dtype=complex)
        self.out[...] = numpy.fft.ifft2(a)
        return self.out


def fft_objects():
    import scipy.fft
    return [("numpy.fft.ifft2", numpy.fft.ifft2), ("scipy.fft.ifft2", scipy.fft.ifft2), ("naive-inverse-DFT", naive_ifft2)]


def oracle_config(chk, ps, c, nprng, do_sh=True):
    """all clauses of the property on the REAL code for one configuration (even N).  The screen is probed as a function of
    the STREAM of Gaussian draws its generator hands out (unit stream positions), whatever calls consume that stream."""
    N = c["N"]
    nh = 2 * N * N
    rep = dict(c)
    tag = "N=%d r0=%.6g delta=%.6g L0=%.6g l0=%.6g" % (N, c["r0"], c["delta"], c["L0"], c["l0"])

    def bad(key, what, **more):
        chk.fail(key, what + " at " + tag, dict(rep, **more))

    chk.oracle_cases += 1
    chk.count("oracle:N=%d" % N)
    chk.case(("oracle", repr(sorted(c.items()))), sample=dict(c) if N in (8, 16) else None)
    nd = probe(chk, hi_screen, ps, c, "ft_phase_screen", nh, tag)
    if nd is None:
        return
    L, used = columns(hi_screen, ps, c, nd)
    if used != {(nd, False, False)}:
        chk.broke("correspondence", "ft_phase_screen: the number of draws depends on the values drawn (%s) at %s" % (sorted(used)[:3], tag))
    if not numpy.all(numpy.isfinite(L)):
        bad("finite:hi", "screen of a unit draw is not finite")
        return
    scale = numpy.abs(L).max() + 1e-300
    # linear function of the draws
    g1, g2 = nprng.normal(size=nd), nprng.normal(size=nd)
    al, be = chk.rng.uniform(-2, 2), chk.rng.uniform(-2, 2)
    s1, s2, s12 = hi_screen(ps, c, g1)[0], hi_screen(ps, c, g2)[0], hi_screen(ps, c, al * g1 + be * g2)[0]
    lin_scale = scale * max(nd, 1)
    if numpy.abs(s12 - (al * s1 + be * s2)).max() > TOL * lin_scale:
        bad("linear:hi", "screen(αg+βg') ≠ α screen(g) + β screen(g') (err %.3g)" % numpy.abs(s12 - (al * s1 + be * s2)).max(),
            alpha=al, beta=be)
    if numpy.abs(L @ g1 - s1.ravel()).max() > TOL * lin_scale:
        bad("linear:hi:columns", "screen(g) ≠ Σ_e g_e·screen(unit e) (err %.3g)" % numpy.abs(L @ g1 - s1.ravel()).max())
    # the optional FFT-object branch of phasescreen.ift2 (another shift pair; theorem fft_branch_eq: the same function for
    # even N) with several objects that compute the inverse transform
    for oname, obj in fft_objects():
        sf_ = hi_screen(ps, c, g1, FFT=obj)[0]
        chk.count("oracle:fft-object")
        if sf_.shape != s1.shape or not numpy.abs(sf_ - s1).max() <= TOL * lin_scale:
            bad("fft-object:hi", "ft_phase_screen(FFT=%s) differs from the default path (err %.3g)"
                % (oname, numpy.abs(sf_ - s1).max() if sf_.shape == s1.shape else float("nan")), fft=oname)
    # a PLANNED inverse-FFT object (pyfftw / AOFFT style): it owns one output buffer and hands it back on every call.  Two screens made
    # with the same object must be two screens: the first is kept by the caller (not copied) while the second is made
    plan = PlannedIFFT2()
    held = hi_screen(ps, c, g1, FFT=plan)[0]
    held_copy = numpy.array(held, copy=True)
    other = hi_screen(ps, c, g2, FFT=plan)[0]
    chk.count("oracle:fft-object:planned")
    if held.shape != s1.shape or not numpy.abs(held_copy - s1).max() <= TOL * lin_scale:
        bad("fft-object:hi", "ft_phase_screen(FFT=<planned object with its own output buffer>) differs from the default path (err %.3g)"
            % (numpy.abs(held_copy - s1).max() if held.shape == s1.shape else float("nan")), fft="planned")
    elif not numpy.array_equal(held, held_copy) or (other.shape == s2.shape and not numpy.abs(other - s2).max() <= TOL * lin_scale):
        bad("fft-object:hi:buffer-reuse", "two screens made with ONE planned FFT object (which returns its own output buffer every time): the screen "
            "kept from the first call changed by %.3g when the second was made — the returned screen is a view of the object's buffer"
            % float(numpy.abs(held - held_copy).max()), fft="planned")
    z = hi_screen(ps, c, numpy.zeros(nd))[0]
    if numpy.abs(z).max() > 1e-12 * scale:
        bad("zero-mean:ensemble:hi", "screen of the zero draw is not zero (max %.3g): the ensemble mean is not zero" % numpy.abs(z).max())
    # exact ensemble covariance
    C = L @ L.T
    Cref, P = cov_reference(c)
    cs = numpy.abs(Cref).max() + 1e-300
    err = numpy.abs(C - Cref)
    if err.max() > TOL * cs:
        w = numpy.unravel_index(err.argmax(), err.shape)
        bad("cov:hi", "ensemble covariance L·Lᵀ ≠ Σ_{k≠DC} PSD_k Δf² cos(2πk·(p−q)/N): pixels %s,%s got %.9g expected %.9g"
            % (divmod(int(w[0]), N), divmod(int(w[1]), N), C[w], Cref[w]), p=divmod(int(w[0]), N), q=divmod(int(w[1]), N))
    # corollaries, each evaluated on the real code's own L (independent of the reference)
    dg = numpy.diag(C)
    if numpy.ptp(dg) > TOL * dg.max():
        bad("variance-const:hi", "variance depends on position: min %.9g max %.9g" % (dg.min(), dg.max()))
    C4 = C.reshape(N, N, N, N)
    s_1, s_2 = chk.rng.randrange(N), chk.rng.randrange(N)
    if numpy.abs(numpy.roll(C4, (s_1, s_2, s_1, s_2), (0, 1, 2, 3)) - C4).max() > TOL * cs:
        bad("stationary:hi", "covariance is not a function of the separation (shift %d,%d)" % (s_1, s_2), shift=(s_1, s_2))
    colsum = numpy.abs(L.sum(0)).max() if nd else 0.0
    if colsum > TOL * scale * N * N:
        bad("zero-mean:spatial:hi", "a screen does not sum to zero over the grid (DC not removed?): |Σ| = %.3g" % colsum)
    # r0 scaling for a fixed stream
    cc = logu(chk.rng, 0.3, 3.0)
    sc = hi_screen(ps, c, g1, r0=cc * c["r0"])[0]
    if numpy.abs(sc - cc ** (-5.0 / 6.0) * s1).max() > TOL * numpy.abs(s1).max():
        bad("r0-scaling:hi", "screen(c·r0) ≠ c^(-5/6)·screen(r0) for fixed draws, c=%.6g (ratio %.9g, expected %.9g)"
            % (cc, float(numpy.abs(sc).max() / numpy.abs(s1).max()), cc ** (-5.0 / 6.0)), c=cc)
    # int seed: the screen is the same linear map applied to numpy's normal stream of that seed
    seed = chk.rng.randrange(1, 2 ** 31)
    si = numpy.asarray(ps.ft_phase_screen(*_args(c), seed=seed))
    if numpy.abs(L @ numpy.random.default_rng(seed).normal(size=nd) - si.ravel()).max() > TOL * lin_scale:
        chk.broke("correspondence", "ft_phase_screen(seed=<int>) is not reproduced by replaying numpy's normal stream of that seed "
                  "through the probed linear map at %s" % tag)
    if not do_sh:
        return
    # ---- sub-harmonic variant, injected Generator
    nds = probe(chk, sh_screen, ps, c, "ft_sh_phase_screen (injected Generator)", nh + 54, tag)
    if nds is None:
        return
    Ls, used = columns(sh_screen, ps, c, nds)
    if used != {(nds, False, False)}:
        chk.broke("correspondence", "ft_sh_phase_screen: the number of draws depends on the values drawn (%s) at %s" % (sorted(used)[:3], tag))
    if not numpy.all(numpy.isfinite(Ls)):
        bad("finite:sh", "sub-harmonic screen of a unit draw is not finite")
        return
    # which stream positions feed which part is HOW, not WHAT (correspondence): the model says high-frequency part first
    if nds < nd or numpy.abs(Ls[:, :nd] - L).max() > TOL * scale:
        chk.broke("correspondence", "with an injected Generator the first %d stream positions of ft_sh_phase_screen do not give the "
                  "ft_phase_screen screen (model: high-frequency draws first, then 54 sub-harmonic ones) at %s" % (nd, tag))
    sscale = numpy.abs(Ls).max() + 1e-300
    g3 = nprng.normal(size=nds)
    s3 = sh_screen(ps, c, g3)[0]
    if numpy.abs(Ls @ g3 - s3.ravel()).max() > TOL * sscale * nds:
        bad("linear:sh", "sh screen(g) ≠ Σ_e g_e·screen(unit e) (err %.3g)" % numpy.abs(Ls @ g3 - s3.ravel()).max())
    for oname, obj in fft_objects():
        sf_ = sh_screen(ps, c, g3, FFT=obj)[0]
        if sf_.shape != s3.shape or not numpy.abs(sf_ - s3).max() <= TOL * sscale * nds:
            bad("fft-object:sh", "ft_sh_phase_screen(FFT=%s) differs from the default path (err %.3g)"
                % (oname, numpy.abs(sf_ - s3).max() if sf_.shape == s3.shape else float("nan")), fft=oname)
    if numpy.abs(Ls.sum(0)).max() > TOL * sscale * N * N:
        bad("zero-mean:spatial:sh", "a sub-harmonic screen does not sum to zero over the grid: |Σ| = %.3g" % numpy.abs(Ls.sum(0)).max())
    Cs = Ls @ Ls.T
    Dh, Ds = sf(C), sf(Cs)
    dscale = numpy.abs(Ds).max() + 1e-300
    if (Ds - Dh).min() < -TOL * dscale:
        w = numpy.unravel_index((Ds - Dh).argmin(), Ds.shape)
        bad("sh:sf-decrease", "a structure-function value decreases when sub-harmonics are added: pixels %s,%s D_sh=%.9g D_hi=%.9g"
            % (divmod(int(w[0]), N), divmod(int(w[1]), N), Ds[w], Dh[w]))
    # what is added: covariance of the sub-harmonic screen minus that of the plain screen, against the 24 sub-harmonic
    # frequencies with the von Kármán spectrum (no partition of the stream into 'high' and 'low' draws is assumed)
    Cloref = lo_cov_reference(c)
    csscale = numpy.abs(Cs).max() + 1e-300
    if numpy.abs((Cs - C) - Cloref).max() > TOL * csscale:
        bad("sh:lo-cov", "what the sub-harmonic variant adds to the covariance is not the von Kármán spectrum on the three 3×3 grids "
            "1/(3^p N δ), mean removed (max err %.3g, added part %.3g, total %.3g)"
            % (numpy.abs((Cs - C) - Cloref).max(), numpy.abs(Cloref).max(), csscale))
    s3c = sh_screen(ps, c, g3, r0=cc * c["r0"])[0]
    if numpy.abs(s3c - cc ** (-5.0 / 6.0) * s3).max() > TOL * numpy.abs(s3).max():
        bad("r0-scaling:sh", "sh screen(c·r0) ≠ c^(-5/6)·screen(r0) for fixed draws, c=%.6g" % cc, c=cc)
    Dlo = sf(Cloref)
    if numpy.abs((Ds - Dh) - Dlo).max() > TOL * dscale:
        bad("sh:adds-power", "D_sh − D_hi is not the structure function of the low-frequency part alone (max err %.3g)"
            % numpy.abs((Ds - Dh) - Dlo).max())
    # ---- int seed: probed with unit draws through a patched default_rng (fresh generator per default_rng(seed) call)
    G = probe(chk, sh_screen_intseed, ps, c, "ft_sh_phase_screen (seed=<int>)", nh + 54, tag)
    if G is None:
        return C, Ls
    M, used = columns(sh_screen_intseed, ps, c, G)
    seed = chk.rng.randrange(1, 2 ** 31)
    g = numpy.random.default_rng(seed).normal(size=G)
    si = numpy.asarray(ps.ft_sh_phase_screen(*_args(c), seed=seed))
    if numpy.abs(M @ g - si.ravel()).max() > TOL * sscale * max(G, 1):
        chk.broke("correspondence", "the int-seed path of ft_sh_phase_screen is not reproduced by replaying numpy's normal stream of that "
                  "seed through the probed linear map at %s (numpy stream not chunk-invariant, or the seed is used otherwise)" % tag)
        return C, Ls
    chk.count("oracle:intseed")
    Dm = sf(M @ M.T)
    if (Dm - Dh).min() < -TOL * dscale:
        w = numpy.unravel_index((Dm - Dh).argmin(), Dm.shape)
        bad("sh-intseed:sf-decrease", "seed=<int>: a structure-function value decreases when sub-harmonics are added: pixels %s,%s "
            "D_sh=%.9g < D_hi=%.9g" % (divmod(int(w[0]), N), divmod(int(w[1]), N), Dm[w], Dh[w]),
            p=divmod(int(w[0]), N), q=divmod(int(w[1]), N), D_sh=float(Dm[w]), D_hi=float(Dh[w]), seed_kind="int")
    if numpy.abs((Dm - Dh) - Dlo).max() > TOL * dscale:
        w = numpy.unravel_index(numpy.abs((Dm - Dh) - Dlo).argmax(), Dm.shape)
        bad("sh-intseed:cross-power", "seed=<int>: the sub-harmonics do not only add low-frequency power — D_sh − D_hi differs from the "
            "structure function of the low-frequency part (cross terms with high-frequency coefficients): pixels %s,%s got %.9g expected %.9g"
            % (divmod(int(w[0]), N), divmod(int(w[1]), N), (Dm - Dh)[w], Dlo[w]), seed_kind="int")
    return C, Ls


PARAM_TYPES = [("int", int, TOL), ("numpy.int64", numpy.int64, TOL), ("numpy.int32", numpy.int32, TOL),
               ("numpy.float64", numpy.float64, TOL), ("0-d array", numpy.array, TOL),
               # small integer types: 3**p·N·delta overflowed in an 8-bit pixel size (finding param-type:ft_sh_phase_screen:numpy.uint8,
               # fixed by 23d5043: both functions convert their parameters to Python numbers first)
               ("numpy.uint8", lambda v: numpy.uint8(min(int(v), 200)), TOL), ("numpy.int8", lambda v: numpy.int8(min(int(v), 100)), TOL),
               ("numpy.uint16", numpy.uint16, TOL),
               # single-precision scalars give the double-precision screen of the value they hold (since 23d5043 in the sub-harmonic
               # function too; observed: bit-identical)
               ("numpy.float32", numpy.float32, TOL)]


def grid_scan(chk, ps, quick):
    """two cheap clauses over MANY grids (the full linear map above is affordable for a few dozen configurations only):
    (a) zero spatial mean — for any draws the mean of the screen over the grid is the zero-frequency coefficient, which the
        property removes: with every draw equal to 1 the screen must sum to 0 for every even N and every pixel size (decimal pixel
        sizes such as 0.3 or 0.7 included: a frequency axis whose centre sample is 1e-17 instead of 0 is a grid too);
    (b) amplitude ∝ r0^(-5/6) for fixed draws also when the inner scale spans many pixels, where exp(-(f/fm)²) underflows on part
        of the grid (which frequencies carry power then must still not depend on r0)."""
    rng = chk.rng
    deltas = [0.3, 0.7, 0.01, 0.1, 1.0, 0.07, 1. / 3, 0.6, 0.05, 0.9, 1.1, 0.013] + [logu(rng, 0.003, 2.0) for _ in range(8)]
    sizes = list(range(2, 42, 2)) + [64, 98, 100, 128] + ([] if quick else list(range(42, 128, 2)))
    for N in sizes:
        for delta in (deltas if N <= 40 else deltas[:6]):
            c = dict(N=N, r0=logu(rng, 0.05, 0.5), delta=delta, L0=logu(rng, 1.0, 100.0), l0=logu(rng, 0.001, 0.05))
            chk.oracle_cases += 1
            chk.count("oracle:grid-scan:zero-mean")
            chk.case(("grid-scan", N, delta))
            for fn, name in ((hi_screen, "hi"), (sh_screen, "sh")):
                if name == "sh" and N > 40:
                    continue
                scr = numpy.asarray(fn(ps, c, numpy.ones(2 * N * N + 54))[0], dtype=float)
                m, top = abs(float(scr.mean())), float(numpy.abs(scr).max())
                if not m <= 1e-9 * max(top, 1e-300):
                    chk.fail("zero-mean:spatial:%s:grid" % name, "ft_%sphase_screen(N=%d, delta=%r, r0=%.4g, L0=%.4g, l0=%.4g) with every draw "
                             "equal to 1 has spatial mean %.6g (largest |value| %.6g): the zero frequency is not removed on this grid"
                             % ("sh_" if name == "sh" else "", N, delta, c["r0"], c["L0"], c["l0"], m, top), dict(c, clause="zero-mean"))
                    break
    # (c) the sub-harmonic screen is linear in its draws for EVERY outer scale, huge and infinite ones included (the Kolmogorov limit
    #     users ask for with L0 = 1e6 … inf): superposition with dense draws, finiteness, and the sub-harmonics still add power.  The
    #     zero-frequency coefficient of each sub-grid grows like L0^(11/6); if it is not removed before the waves are summed, the
    #     low-frequency part is rounded away against it.
    nprng = numpy.random.default_rng(rng.getrandbits(32))
    for L0 in (1e3, 1e6, 1e9, 1e12, float("inf")):
        for N in ((8,) if quick else (8, 16)):
            c = dict(N=N, r0=logu(rng, 0.05, 0.5), delta=logu(rng, 0.02, 0.3), L0=L0, l0=logu(rng, 0.001, 0.02))
            nd = 2 * N * N + 54
            g1, g2 = nprng.normal(size=nd), nprng.normal(size=nd)
            a, b = rng.uniform(-2, 2), rng.uniform(-2, 2)
            chk.oracle_cases += 1
            chk.count("oracle:grid-scan:sh-linear:L0=%g" % L0)
            chk.case(("grid-scan-sh-L0", N, L0))
            with numpy.errstate(all="ignore"):
                s1 = numpy.asarray(sh_screen(ps, c, g1)[0], dtype=float)
                s2 = numpy.asarray(sh_screen(ps, c, g2)[0], dtype=float)
                s12 = numpy.asarray(sh_screen(ps, c, a * g1 + b * g2)[0], dtype=float)
                h1 = numpy.asarray(hi_screen(ps, c, g1[:2 * N * N])[0], dtype=float)
            top = float(max(numpy.abs(s1).max(), numpy.abs(s2).max())) if numpy.isfinite(s1).all() and numpy.isfinite(s2).all() else float("nan")
            tag = "ft_sh_phase_screen(r0=%.4g, N=%d, delta=%.4g, L0=%g, l0=%.4g)" % (c["r0"], N, c["delta"], L0, c["l0"])
            if not (numpy.isfinite(s1).all() and numpy.isfinite(s12).all()):
                chk.fail("finite:sh:large-L0", "%s is not finite" % tag, dict(c, clause="finite"))
            elif not float(numpy.abs(s12 - (a * s1 + b * s2)).max()) <= 1e-7 * (abs(a) + abs(b)) * top:
                chk.fail("linear:sh:large-L0", "%s: screen(a·g+b·h) ≠ a·screen(g)+b·screen(h) for dense draws: error %.3g of amplitude %.3g"
                         % (tag, float(numpy.abs(s12 - (a * s1 + b * s2)).max()), top), dict(c, a=a, b=b, clause="superposition"))
            elif not float(numpy.abs(s1 - h1).max()) > 1e-6 * float(numpy.abs(h1).max()):
                chk.fail("sh:adds-power:large-L0", "%s equals the plain FFT screen for the same draws: the sub-harmonic part vanished" % tag,
                         dict(c, clause="adds-power"))
    for N, delta, l0px in ((64, 0.1, 50.0), (32, 0.1, 50.0), (128, 0.05, 50.0), (48, 0.02, 70.0), (64, 0.1, 45.0), (40, 0.3, 60.0)):
        if quick and N > 64:
            continue
        g = nprng.normal(size=2 * N * N + 54)
        for ra, rb in ((0.05, 0.2), (0.02, 0.5), (0.11, 0.37)):
            c = dict(N=N, r0=ra, delta=delta, L0=logu(rng, 5.0, 50.0), l0=l0px * delta)
            chk.oracle_cases += 1
            chk.count("oracle:grid-scan:r0-scaling:large-l0")
            chk.case(("grid-scan-l0", N, delta, l0px, ra, rb))
            for fn, name in ((hi_screen, "hi"), (sh_screen, "sh")):
                sa = numpy.asarray(fn(ps, c, g)[0], dtype=float)
                sb = numpy.asarray(fn(ps, c, g, r0=rb)[0], dtype=float)
                err = float(numpy.abs(sb - (rb / ra) ** (-5.0 / 6.0) * sa).max())
                if not err <= TOL * float(numpy.abs(sb).max()):
                    chk.fail("r0-scaling:%s:large-l0" % name, "N=%d delta=%g l0=%g (%g pixels): screen(r0=%g) ≠ (%g/%g)^(-5/6)·screen(r0=%g) "
                             "for the same draws (max |Δ| = %.3g of %.3g)" % (N, delta, c["l0"], l0px, rb, rb, ra, ra, err,
                                                                             float(numpy.abs(sb).max())), dict(c, r0b=rb, clause="r0-scaling"))
                    break



# ------------------------------------------------------------------------------------------ round 5: generator audit
WORST = {}


def track(key, value, tol):
    """largest observed value of a toleranced quantity of the round-5 sections as a fraction of its tolerance (reported in the notes)"""
    if tol > 0 and value == value:
        WORST[key] = max(WORST.get(key, 0.0), float(value) / float(tol))

def psd_of_wave(c, kx, ky):
    """PSD·Δf² of the stated spectrum at the grid frequency (kx, ky)·Δf (integer wave numbers wrapped to [-N/2, N/2))"""
    N = c["N"]
    df = 1.0 / (N * c["delta"])
    kx, ky = ((kx + N // 2) % N) - N // 2, ((ky + N // 2) % N) - N // 2
    if kx == 0 and ky == 0:
        return 0.0
    with numpy.errstate(all="ignore"):
        return float(psd_text((kx * kx + ky * ky) * df * df, c["r0"], c["L0"], c["l0"]) * df * df)


def sparse_probe(chk, ps, c, npos, nprng, key, sh_rows=0):
    """clauses that are affordable on ANY grid (256², 512², sizes with large prime factors, …), where the full linear map
    (2N² unit draws) is not: the screens of a FEW unit stream positions.  Invariant under permutations / sign flips of the
    stream (which position feeds which coefficient is HOW): every such screen must be ONE real plane wave of the N-grid
    (2-D DFT supported on a pair ±k, k found from the screen itself), and its mean square must be PSD(|k|Δf)·Δf²/2 (PSD·Δf² for
    the four self-conjugate k; 0 is allowed only there and at the removed zero frequency).  Plus, with dense draws:
    superposition, zero draw, zero spatial mean, exact r0^(-5/6) scaling, FFT-object branch.
    sh_rows > 0: also the 54 sub-harmonic stream positions of ft_sh_phase_screen (model partition: the last 54; a different
    stream length is reported by `probe` as broken correspondence and the block is skipped): their covariance on sh_rows
    random pixels against the 24 sub-harmonic frequencies, mean removed."""
    N = c["N"]
    nh = 2 * N * N
    mid = N // 2
    tag = "N=%d r0=%.9g delta=%.9g L0=%.9g l0=%.9g" % (N, c["r0"], c["delta"], c["L0"], c["l0"])
    rep = dict(c, clause="sparse")

    def bad(fkey, what, **more):
        chk.fail("%s:%s" % (fkey, key), what + " at " + tag, dict(rep, **more))

    chk.oracle_cases += 1
    chk.count("oracle:sparse:%s" % key)
    chk.case(("sparse", key, repr(sorted(c.items()))))
    nd = probe(chk, hi_screen, ps, c, "ft_phase_screen", nh, tag)
    if nd is None or nd < 2:
        return
    # stream positions: the model's special samples (zero frequency, Nyquist row / column / corner, neighbours of the zero
    # frequency = lowest frequencies, last sample) in both halves of the stream, and random ones
    special = [(mid, mid), (0, 0), (0, mid), (mid, 0), (mid, mid + 1), (mid + 1, mid), (mid - 1, mid + 1), (N - 1, N - 1), (0, 1), (1, 0)]
    pos = []
    for (i, j) in special:
        if 0 <= i < N and 0 <= j < N:
            pos += [i * N + j, N * N + i * N + j]
    pos = [e for e in dict.fromkeys(pos) if e < nd][:4 * npos] + [chk.rng.randrange(nd) for _ in range(npos)]
    df2 = (1.0 / (N * c["delta"])) ** 2
    layout_ok, zero_cols, top = True, [], 0.0
    for e in dict.fromkeys(pos):
        g = numpy.zeros(nd)
        g[e] = 1.0
        with numpy.errstate(all="ignore"):
            s = numpy.asarray(hi_screen(ps, c, g)[0], dtype=float)
        if s.shape != (N, N) or not numpy.isfinite(s).all():
            bad("finite:hi", "screen of the unit draw at stream position %d is not a finite %dx%d array" % (e, N, N), position=e)
            return
        F = numpy.fft.fft2(s) / (N * N)
        P = (F * F.conj()).real
        tot = float(P.sum())                                    # = mean of s² (Parseval)
        top = max(top, tot)
        # the model's sample for this position (only used to decide whether the layout is the model's)
        i, j = divmod(e % (N * N), N)
        model_k = ((j - mid) % N, (i - mid) % N)                # (kx, ky) mod N: column index ↔ fx, row index ↔ fy
        if tot == 0.0:
            zero_cols.append((e, model_k))
            continue
        w = numpy.unravel_index(int(P.argmax()), P.shape)       # (ky, kx) mod N
        ky, kx = int(w[0]), int(w[1])
        pair = P[ky, kx] + (P[(-ky) % N, (-kx) % N] if ((-ky) % N, (-kx) % N) != (ky, kx) else 0.0)
        if not pair >= (1 - 1e-9) * tot and tot <= 1e-20 * max(psd_of_wave(c, *model_k), psd_of_wave(c, kx, ky)):
            # rounding residue of a draw that feeds nothing (imaginary part of a self-conjugate sample: sin(π·integer) is 1e-16, not 0,
            # in FFTs of sizes with a large prime factor): 1e-32 of the power of its sample — a zero column
            zero_cols.append((e, model_k))
            continue
        if not pair >= (1 - 1e-9) * tot:
            # more than one frequency pair in the screen of ONE draw: a valid implementation could mix draws orthogonally, so
            # this alone is not a violation of the covariance clause — broken correspondence (the model: one plane wave per draw)
            chk.broke("correspondence", "ft_phase_screen: the screen of the unit draw at stream position %d is not one plane wave of the "
                      "%d-grid (the strongest pair ±(%d,%d) holds %.12g of its power) at %s" % (e, N, kx, ky, pair / tot, tag))
            layout_ok = False
            continue
        if {(kx, ky), ((-kx) % N, (-ky) % N)} != {model_k, ((-model_k[0]) % N, (-model_k[1]) % N)}:
            layout_ok = False                                   # a permuted stream: HOW, not WHAT — go on with the k found
        selfconj = ((-ky) % N, (-kx) % N) == (ky, kx)
        want = psd_of_wave(c, kx, ky) * (1.0 if selfconj else 0.5)
        chk.count("oracle:sparse:column")
        if want < 1e-280:                                       # underflow range: no relative precision left, only 'negligible'
            ok = tot <= 1e-270
        else:
            ok = abs(tot - want) <= TOL * want
            track("sparse:column-power", abs(tot - want), TOL * want)
        if not ok:
            bad("cov:hi:sparse", "the unit draw at stream position %d gives a plane wave of wave number (%d,%d) with mean square %.12g; "
                "the spectrum PSD(|k|Δf)·Δf²%s gives %.12g (ratio %.12g)" % (e, ((kx + mid) % N) - mid, ((ky + mid) % N) - mid, tot,
                                                                         "" if selfconj else "/2", want, tot / want if want else float("inf")),
                position=e, k=(kx, ky))
            return
    for e, mk in zero_cols:
        selfc = ((-mk[0]) % N, (-mk[1]) % N) == mk
        if mk == (0, 0) or selfc or psd_of_wave(c, mk[0], mk[1]) <= 1e-290 * max(top, 1e-300):
            continue                                            # zero frequency, imaginary part of a self-conjugate sample, underflow
        if layout_ok:
            bad("cov:hi:sparse:missing-power", "the unit draw at stream position %d gives a screen that is identically zero, but it feeds wave "
                "number (%d,%d) whose PSD·Δf² is %.6g" % (e, ((mk[0] + mid) % N) - mid, ((mk[1] + mid) % N) - mid, psd_of_wave(c, mk[0], mk[1])),
                position=e)
            return
    # dense draws: superposition, zero draw, zero spatial mean, exact r0 scaling, FFT objects
    g1, g2 = nprng.normal(size=nd), nprng.normal(size=nd)
    al, be = chk.rng.uniform(-2, 2), chk.rng.uniform(-2, 2)
    s1, s2 = hi_screen(ps, c, g1)[0], hi_screen(ps, c, g2)[0]
    s12 = hi_screen(ps, c, al * g1 + be * g2)[0]
    amp = float(max(numpy.abs(s1).max(), numpy.abs(s2).max())) + 1e-300
    err = float(numpy.abs(s12 - (al * s1 + be * s2)).max())
    track("sparse:linear", err, TOL * amp * (abs(al) + abs(be) + 1))
    track("sparse:spatial-mean", abs(float(s1.mean())), TOL * amp)
    if not err <= TOL * amp * (abs(al) + abs(be) + 1):
        bad("linear:hi", "screen(αg+βg') ≠ α screen(g) + β screen(g') for dense draws (err %.3g of %.3g)" % (err, amp), alpha=al, beta=be)
    if not float(numpy.abs(hi_screen(ps, c, numpy.zeros(nd))[0]).max()) <= 1e-12 * amp:
        bad("zero-mean:ensemble:hi", "the screen of the zero draw is not zero")
    if not abs(float(s1.mean())) <= TOL * amp:
        bad("zero-mean:spatial:hi", "a screen of dense draws has spatial mean %.3g (amplitude %.3g)" % (float(s1.mean()), amp))
    for cc in (logu(chk.rng, 0.3, 3.0), 1.0 + 3e-6, 1e3):
        sc_ = hi_screen(ps, c, g1, r0=cc * c["r0"])[0]
        err = float(numpy.abs(sc_ - cc ** (-5.0 / 6.0) * s1).max())
        track("sparse:r0-scaling", err, TOL * cc ** (-5.0 / 6.0) * amp)
        if not err <= TOL * cc ** (-5.0 / 6.0) * amp:
            bad("r0-scaling:hi", "screen(c·r0) ≠ c^(-5/6)·screen(r0) for fixed draws, c=%.9g (err %.3g of %.3g)" % (cc, err, cc ** (-5.0 / 6.0) * amp), c=cc)
    for oname, obj in fft_objects()[:2]:
        sf_ = hi_screen(ps, c, g1, FFT=obj)[0]
        if sf_.shape != s1.shape or not float(numpy.abs(sf_ - s1).max()) <= TOL * amp:
            bad("fft-object:hi", "ft_phase_screen(FFT=%s) differs from the default path" % oname, fft=oname)
    # N handed over as a small NumPy integer type: N·N = 65536 … does not fit int16 — the screen must not depend on the type of N
    # (unsigned N and 8-bit pixel sizes: see PARAM_TYPES / param_types — findings fixed by 23d5043)
    for tname, conv in (("numpy.int16", numpy.int16), ("numpy.int32", numpy.int32)):
        if N < 2 ** 15 or conv is numpy.int32:
            st = numpy.asarray(ps.ft_phase_screen(c["r0"], conv(N), c["delta"], c["L0"], c["l0"], seed=FakeGen(g1)), dtype=float)
            if st.shape != s1.shape or not numpy.array_equal(st, s1):
                bad("param-type:ft_phase_screen:N-%s" % tname, "ft_phase_screen with N = %s(%d) differs from the call with a Python int" % (tname, N), n_type=tname)
    if not sh_rows:
        return
    nds = probe(chk, sh_screen, ps, c, "ft_sh_phase_screen (injected Generator)", nh + 54, tag)
    if nds != nh + 54:
        return
    g3, g4 = nprng.normal(size=nds), nprng.normal(size=nds)
    t1, t2 = sh_screen(ps, c, g3)[0], sh_screen(ps, c, g4)[0]
    t12 = sh_screen(ps, c, al * g3 + be * g4)[0]
    samp = float(max(numpy.abs(t1).max(), numpy.abs(t2).max())) + 1e-300
    if not float(numpy.abs(t12 - (al * t1 + be * t2)).max()) <= TOL * samp * (abs(al) + abs(be) + 1):
        bad("linear:sh", "sh screen(αg+βg') ≠ α screen(g) + β screen(g') for dense draws (err %.3g of %.3g)"
            % (float(numpy.abs(t12 - (al * t1 + be * t2)).max()), samp), alpha=al, beta=be)
    for tname, conv in (("numpy.int16", numpy.int16), ("numpy.int32", numpy.int32)):
        st = numpy.asarray(ps.ft_sh_phase_screen(c["r0"], conv(N), c["delta"], c["L0"], c["l0"], seed=FakeGen(g3)), dtype=float)
        if st.shape != t1.shape or not float(numpy.abs(st - t1).max()) <= TOL * samp:
            bad("param-type:ft_sh_phase_screen:N-%s" % tname, "ft_sh_phase_screen with N = %s(%d) differs from the call with a Python int (by %.3g of %.3g)"
                % (tname, N, float(numpy.abs(st - t1).max()) if st.shape == t1.shape else float("nan"), samp), n_type=tname)
    if not abs(float(t1.mean())) <= TOL * samp:
        bad("zero-mean:spatial:sh", "a sub-harmonic screen of dense draws has spatial mean %.3g (amplitude %.3g)" % (float(t1.mean()), samp))
    cc = logu(chk.rng, 0.3, 3.0)
    if not float(numpy.abs(sh_screen(ps, c, g3, r0=cc * c["r0"])[0] - cc ** (-5.0 / 6.0) * t1).max()) <= TOL * cc ** (-5.0 / 6.0) * samp:
        bad("r0-scaling:sh", "sh screen(c·r0) ≠ c^(-5/6)·screen(r0) for fixed draws, c=%.9g" % cc, c=cc)
    # the first 2N² stream positions give the plain screen (model partition; a difference is HOW)
    if not float(numpy.abs(sh_screen(ps, c, numpy.concatenate([g1, numpy.zeros(54)]))[0] - s1).max()) <= TOL * amp:
        chk.broke("correspondence", "with an injected Generator the first 2N² stream positions of ft_sh_phase_screen do not give the "
                  "ft_phase_screen screen at %s" % tag)
        return
    rows = numpy.array(sorted(set([0, N - 1, N * N - 1, mid * N + mid] + [chk.rng.randrange(N * N) for _ in range(sh_rows)])))
    Llo = numpy.empty((len(rows), 54))
    for e in range(54):
        g = numpy.zeros(nds)
        g[nh + e] = 1.0
        Llo[:, e] = numpy.asarray(sh_screen(ps, c, g)[0], dtype=float).ravel()[rows]
    if not numpy.isfinite(Llo).all():
        bad("finite:sh", "sub-harmonic screen of a unit draw is not finite")
        return
    x = (numpy.arange(N) - N / 2.0) * c["delta"]
    X, Y = numpy.meshgrid(x, x)
    X, Y = X.ravel(), Y.ravel()
    Cref = numpy.zeros((len(rows), len(rows)))
    for p in (1, 2, 3):
        dfp = 1.0 / (3 ** p * N * c["delta"])
        for i in (-1, 0, 1):
            for j in (-1, 0, 1):
                if i == 0 and j == 0:
                    continue
                fx, fy = j * dfp, i * dfp
                w = float(psd_text(fx * fx + fy * fy, c["r0"], c["L0"], c["l0"]) * dfp * dfp)
                ph = 2 * numpy.pi * (fx * X + fy * Y)
                co, si = numpy.cos(ph), numpy.sin(ph)
                co, si = (co - co.mean())[rows], (si - si.mean())[rows]
                Cref += w * (numpy.outer(co, co) + numpy.outer(si, si))
    Clo = Llo @ Llo.T
    err = float(numpy.abs(Clo - Cref).max())
    chk.count("oracle:sparse:sh-lo-cov")
    track("sparse:sh-lo-cov", err, TOL * (float(numpy.abs(Cref).max()) + 1e-300))
    if not err <= TOL * (float(numpy.abs(Cref).max()) + 1e-300):
        w = numpy.unravel_index(int(numpy.abs(Clo - Cref).argmax()), Clo.shape)
        bad("sh:lo-cov", "the covariance of the 54 sub-harmonic draws between pixels %s and %s is %.12g; the von Kármán spectrum on the three "
            "3×3 grids 1/(3^p N δ), mean removed, gives %.12g" % (divmod(int(rows[w[0]]), N), divmod(int(rows[w[1]]), N), Clo[w], Cref[w]),
            p=divmod(int(rows[w[0]]), N), q=divmod(int(rows[w[1]]), N))


def large_grids(chk, ps, quick, nprng):
    """sizes the full linear map cannot reach: 2^16 and 2^18 pixels (N = 256, 512; thorough 1024), sizes with a large prime factor
    beyond 38, 2 mod 4 sizes; the sub-harmonic block at N = 64 / 128 (thorough 256)"""
    rng = chk.rng
    big = [(256, 8, 0), (512, 6, 0), (128, 8, 16)] if quick else [(256, 24, 16), (512, 16, 0), (1024, 8, 0), (128, 24, 32), (384, 12, 0)]
    odd = [(rng.choice([46, 58, 62, 74, 82, 86, 94]), 8, 12), (rng.choice([106, 118, 122, 134, 146, 158, 178, 202, 254, 262]), 8, 0), (64, 8, 12)]
    if not quick:
        odd += [(n, 12, 12 if n <= 128 else 0) for n in (46, 58, 62, 74, 82, 86, 94, 106, 118, 122, 134, 146, 158, 178, 202, 254, 262, 514)]
    for N, npos, shr in big + odd:
        c = config(rng, N)
        u = rng.random()
        if u < 0.3:
            c["L0"] = rng.choice([1e6, float("inf"), 0.3 * N * c["delta"]])
        elif u < 0.5:
            c["l0"] = rng.choice([2.0, 5.0]) * c["delta"]
        sparse_probe(chk, ps, c, npos, nprng, "large-grid", sh_rows=shr)


def beyond_1024(chk, ps, quick):
    """Round 6 — grids beyond 1024 points across (1030, 1280, 1536; thorough also 2050, 2304), where even a few unit draws are
    expensive and rounds 1-5 never went: ONE seeded screen per size, its 2-D DFT F, and the ratio |F(k)|² / PSD(k) — for a real
    Gaussian screen with the stated spectrum an exponential variate with one common mean K for every k != 0.  K is estimated robustly
    (median / ln 2); the mean ratio over each frequency ROW and each COLUMN (N values, standard deviation N^-1/2 = 0.03) must lie within
    0.25 of 1 (8 sigma).  A block of frequencies that carries no power — coefficients drawn in blocks of 1024 rows with the remainder
    dropped, seeded change C07-I — halves the ratio on those rows and their mirror rows."""
    rng = chk.rng
    sizes = [rng.choice([1030, 1280, 1536])] if quick else [1030, 1280, 1536, 2050, 2304]
    for N in sizes:
        c = dict(N=N, r0=logu(rng, 0.05, 0.5), delta=logu(rng, 0.01, 0.1), L0=logu(rng, 5.0, 100.0), l0=logu(rng, 0.001, 0.01))
        seed = rng.randint(0, 2 ** 31)
        rep = dict(c, seed=seed, clause="beyond-1024")
        chk.oracle_cases += 1
        chk.count("oracle:beyond-1024")
        chk.case(("beyond-1024", N, c["r0"], c["delta"], c["L0"], c["l0"], seed))
        s = numpy.asarray(ps.ft_phase_screen(*_args(c), seed=seed), dtype=float)
        if s.shape != (N, N) or not numpy.all(numpy.isfinite(s)):
            chk.fail("beyond-1024:shape", "ft_phase_screen(r0=%r, N=%d, delta=%r, L0=%r, l0=%r, seed=%d): shape %s, all finite: %s"
                     % (c["r0"], N, c["delta"], c["L0"], c["l0"], seed, s.shape, bool(numpy.all(numpy.isfinite(s)))), rep)
            continue
        F = numpy.fft.fft2(s)
        k = numpy.fft.fftfreq(N) * N
        df = 1.0 / (N * c["delta"])
        f2 = (k[:, None] ** 2 + k[None, :] ** 2) * df * df
        with numpy.errstate(all="ignore"):
            P = psd_text(f2, c["r0"], c["L0"], c["l0"])
        P[0, 0] = numpy.inf                                   # the zero frequency is removed: no clause about it here
        ratio = (F.real ** 2 + F.imag ** 2) / P
        valid = numpy.isfinite(P) & (P > 0)
        K = float(numpy.median(ratio[valid])) / math.log(2.0)
        if not (K > 0 and math.isfinite(K)):
            chk.fail("beyond-1024:power", "ft_phase_screen(r0=%r, N=%d, delta=%r, L0=%r, l0=%r, seed=%d): the median of |DFT|²/PSD is %r"
                     % (c["r0"], N, c["delta"], c["L0"], c["l0"], seed, K), rep)
            continue
        ratio /= K
        for axis, name in ((1, "row"), (0, "column")):
            m = numpy.sum(numpy.where(valid, ratio, 0.0), axis=axis) / numpy.maximum(numpy.sum(valid, axis=axis), 1)
            i = int(numpy.argmax(numpy.abs(m - 1.0)))
            track("beyond-1024:" + name, abs(float(m[i]) - 1.0), 0.25)
            if not abs(float(m[i]) - 1.0) <= 0.25:
                nbad = int(numpy.sum(numpy.abs(m - 1.0) > 0.25))
                chk.fail("beyond-1024:%s-power" % name, "ft_phase_screen(r0=%r, N=%d, delta=%r, L0=%r, l0=%r, seed=%d): the frequency %s of wave "
                         "number %d carries %.3g times the power the stated spectrum gives it (mean of |DFT|²/PSD over its %d frequencies, relative "
                         "to the screen's own robust mean; 1 +- 0.03 expected; %d %ss are off by more than 0.25)"
                         % (c["r0"], N, c["delta"], c["L0"], c["l0"], seed, name, int(k[i]), float(m[i]), N, nbad, name), dict(rep, wave_number=int(k[i]), ratio=float(m[i])))


def extreme_parameters(chk, ps, quick, nprng):
    """the full linear-map oracle at the edges of the parameter domain: no / enormous / sub-pixel outer scale, vanishing and
    many-pixel inner scale, r0 and pixel sizes of 1e-4 … 1e4 (all > 0; L0 = inf is the customary 'no outer scale')"""
    inf = float("inf")
    base = dict(r0=0.15, delta=0.1, L0=10.0, l0=0.01)
    variants = [dict(L0=inf), dict(L0=1e9), dict(L0=0.005), dict(l0=1e-7), dict(l0=0.6), dict(l0=6.0), dict(r0=1e-4), dict(r0=1e3),
                dict(delta=1e-6, l0=1e-7), dict(delta=1e4, L0=1e5, l0=10.0), dict(delta=1e4), dict(L0=0.6, l0=0.2)]
    for k, v in enumerate(variants):
        N = [4, 6][k % 2] if quick else chk.rng.choice([4, 6, 8, 10])
        c = dict(base, N=N, **v)
        for name in ("r0", "delta"):                           # jitter what the variant does not pin
            if name not in v:
                c[name] = c[name] * logu(chk.rng, 0.5, 2.0)
        chk.count("oracle:extreme-parameters")
        oracle_config(chk, ps, c, nprng)


def near_equal_history(chk, ps, quick, nprng):
    """call histories a cache keyed on ROUNDED parameters would get wrong: the same grid size with parameters that differ in the
    4th significant digit / by 1e-5 relative, one parameter at a time, one call after the other in this process — each
    configuration gets the full linear-map oracle against the spectrum of ITS OWN parameters (outer scale ≈ screen size and
    inner scale ≈ 2 pixels, so that the covariance is sensitive to each parameter at the 1e-6 level, tolerance 1e-9)"""
    for N in ([4] if quick else [4, 6, 8]):
        base = dict(N=N, r0=0.15, delta=0.1, L0=1.0, l0=0.2)
        seq = [base]
        for name in ("r0", "L0", "l0", "delta"):
            seq.append(dict(base, **{name: round(base[name] * 1.0027, 4)}))      # 0.15 -> 0.1504, 1.0 -> 1.0027, …
            seq.append(dict(base, **{name: base[name] * (1 + 1e-5)}))
        seq.append(base)
        for c in seq:
            chk.count("oracle:near-equal-history")
            oracle_config(chk, ps, dict(c), nprng)


SEED_VALUES = [("0", 0), ("numpy.int64(0)", numpy.int64(0)), ("2^32+5", 2 ** 32 + 5), ("2^53+1", 2 ** 53 + 1), ("2^64+7", 2 ** 64 + 7),
               ("numpy.int64(7)", numpy.int64(7)), ("numpy.uint64(2^63+3)", numpy.uint64(2 ** 63 + 3)), ("numpy.uint32(9)", numpy.uint32(9)),
               ("7 (small)", 7)]


def seed_classes(chk, ps, quick):
    """seed VALUES (the generators above only used ints in [1, 2^31)): 0 — falsy —, NumPy integer scalars, seeds beyond 2^32,
    2^53 and 2^64, SeedSequence / BitGenerator objects, None; on the configuration where re-using the seed's stream for both
    parts of the sub-harmonic screen is visible (screen 0.8 m, L0 = 1 m).
      * unit-draw probe of the seed path (patched default_rng): no structure-function value decreases, D_sh − D_hi = D_lo;
      * the real seed path replays numpy's normal stream of THAT seed through the probed linear map (correspondence);
      * seed=None gives a non-degenerate ensemble: two calls differ."""
    c = dict(N=8, r0=0.1, delta=0.1, L0=1.0, l0=0.01)
    N, nh = 8, 128
    tag = "N=8 r0=0.1 delta=0.1 L0=1 l0=0.01"
    L, _ = columns(hi_screen, ps, c, nh)
    Ls, _ = columns(sh_screen, ps, c, nh + 54)
    scale = float(numpy.abs(Ls).max()) + 1e-300
    Dh = sf(L @ L.T)
    Dlo = sf(lo_cov_reference(c))
    for name, sv in SEED_VALUES:
        chk.oracle_cases += 1
        chk.count("oracle:seed-class")
        chk.case(("seed-class", name))
        G, gen = stream_length(lambda p, cc, g: sh_screen_intseed(p, cc, g, seed_value=sv), ps, c)
        if gen.foreign or G > 4 * (nh + 54):
            chk.broke("correspondence", "ft_sh_phase_screen(seed=%s) cannot be probed with unit draws at %s" % (name, tag))
            continue
        M, _ = columns(lambda p, cc, g: sh_screen_intseed(p, cc, g, seed_value=sv), ps, c, G)
        Dm = sf(M @ M.T)
        dscale = float(numpy.abs(Dm).max()) + 1e-300
        if (Dm - Dh).min() < -TOL * dscale:
            w = numpy.unravel_index((Dm - Dh).argmin(), Dm.shape)
            chk.fail("sh-intseed:sf-decrease:seed-class", "seed=%s: a structure-function value decreases when sub-harmonics are added: pixels "
                     "%s,%s D_sh=%.9g < D_hi=%.9g at %s" % (name, divmod(int(w[0]), N), divmod(int(w[1]), N), Dm[w], Dh[w], tag),
                     dict(c, seed=name, p=divmod(int(w[0]), N), q=divmod(int(w[1]), N)))
        elif numpy.abs((Dm - Dh) - Dlo).max() > TOL * dscale:
            chk.fail("sh-intseed:cross-power:seed-class", "seed=%s: D_sh − D_hi differs from the structure function of the low-frequency part "
                     "(max err %.3g of %.3g) at %s" % (name, float(numpy.abs((Dm - Dh) - Dlo).max()), dscale, tag), dict(c, seed=name))
        # the real path: numpy's stream of that seed through the probed maps
        for fname, mat in (("ft_phase_screen", L), ("ft_sh_phase_screen", Ls)):
            f = getattr(ps, fname)
            forms = [(name, sv)]
            if isinstance(sv, int):
                forms += [("SeedSequence(%s)" % name, numpy.random.SeedSequence(sv)), ("PCG64(%s)" % name, numpy.random.PCG64(sv))]
            for fn_, form in forms:
                want = mat @ numpy.random.default_rng(sv).normal(size=mat.shape[1])
                got = numpy.asarray(f(*_args(c), seed=form), dtype=float)
                chk.count("oracle:seed-class:replay")
                if got.shape == (N, N):
                    track("seed-class:replay", float(numpy.abs(got.ravel() - want).max()), TOL * scale * mat.shape[1])
                if got.shape != (N, N) or not float(numpy.abs(got.ravel() - want).max()) <= TOL * scale * mat.shape[1]:
                    chk.broke("correspondence", "%s(seed=%s) is not numpy's normal stream of that seed through the probed linear map at %s "
                              "(the seed is not handed to numpy.random.default_rng as given?)" % (fname, fn_, tag))
                # "for fixed draws": a seed fixes the draws — the same seed again gives the same screen, and with another r0 the
                # screen scaled by (r0'/r0)^(-5/6), whatever the seed's value (0 included) or form
                if not isinstance(form, numpy.random.BitGenerator):
                    cc = 1.7
                    again = numpy.asarray(f(*_args(c), seed=form), dtype=float)
                    scaled = numpy.asarray(f(*_args(c, r0=cc * c["r0"]), seed=form), dtype=float)
                    amp = float(numpy.abs(got).max()) + 1e-300
                    if again.shape != got.shape or not numpy.array_equal(again, got):
                        chk.fail("seed-class:not-fixed:%s" % fname, "%s(…, seed=%s) called twice gives two different screens (max |Δ| = %.3g of %.3g) "
                                 "at %s: the seed does not fix the draws" % (fname, fn_, float(numpy.abs(again - got).max()) if again.shape == got.shape
                                                                            else float("nan"), amp, tag), dict(c, fn=fname, seed=fn_))
                    elif scaled.shape != got.shape or not float(numpy.abs(scaled - cc ** (-5.0 / 6.0) * got).max()) <= TOL * amp:
                        chk.fail("r0-scaling:seed-class:%s" % fname, "%s(r0=%g·r0, seed=%s) ≠ %g^(-5/6)·%s(r0, seed=%s) at %s"
                                 % (fname, cc, fn_, cc, fname, fn_, tag), dict(c, fn=fname, seed=fn_, c=cc))
    for fname in ("ft_phase_screen", "ft_sh_phase_screen"):
        f = getattr(ps, fname)
        for form, kw in (("seed=None", dict(seed=None)), ("no seed argument", {})):
            a, b = numpy.asarray(f(*_args(c), **kw), dtype=float), numpy.asarray(f(*_args(c), **kw), dtype=float)
            chk.oracle_cases += 1
            chk.case(("seed-none", fname, form))
            if a.shape != (N, N) or not numpy.isfinite(a).all() or numpy.array_equal(a, b):
                chk.fail("seed-none:degenerate:%s" % fname, "%s with %s returns %s: the ensemble over the generator's draws is a single screen"
                         % (fname, form, "the same screen twice" if a.shape == (N, N) and numpy.isfinite(a).all() else "a non-finite / misshapen screen"),
                         dict(c, fn=fname, form=form))


def call_histories(chk, ps, quick, nprng):
    """what a caller does between two screens: ONE Generator object for several screens (each call continues the stream, plain and
    sub-harmonic interleaved), the same arguments again, FFT / seed passed positionally, parameter arrays (0-d, read-only) re-used
    after a call (and not modified by it)"""
    for it in range(2 if quick else 12):
        N = chk.rng.choice([4, 6, 8, 10, 12])
        c = config(chk.rng, N)
        nh, ns = 2 * N * N, 2 * N * N + 54
        tag = "N=%d r0=%.6g delta=%.6g L0=%.6g l0=%.6g" % (N, c["r0"], c["delta"], c["L0"], c["l0"])
        plan = [chk.rng.choice(["hi", "sh"]) for _ in range(4)] + ["hi", "sh"]
        g = nprng.normal(size=sum(nh if k == "hi" else ns for k in plan))
        gen = FakeGen(g)
        at = 0
        chk.oracle_cases += 1
        chk.count("oracle:history:generator-reuse")
        chk.case(("history", "generator-reuse", N, tuple(plan), repr(sorted(c.items()))))
        for step, k in enumerate(plan):
            n = nh if k == "hi" else ns
            f = ps.ft_phase_screen if k == "hi" else ps.ft_sh_phase_screen
            got = numpy.asarray(f(*_args(c), seed=gen), dtype=float)
            want = (hi_screen if k == "hi" else sh_screen)(ps, c, g[at:at + n])[0]
            if gen.pos != at + n:
                chk.broke("correspondence", "call %d (%s) on a shared Generator read %d stream positions, the model %d at %s"
                          % (step, k, gen.pos - at, n, tag))
                break
            at += n
            if got.shape == want.shape:
                track("history:generator-reuse", float(numpy.abs(got - want).max()), TOL * (float(numpy.abs(want).max()) + 1e-300))
            if got.shape != want.shape or not float(numpy.abs(got - want).max()) <= TOL * (float(numpy.abs(want).max()) + 1e-300):
                chk.fail("history:generator-reuse", "call %d of %s on ONE Generator object (%s) is not the screen of the next %d draws of its "
                         "stream: max difference %.3g of %.3g at %s" % (step, plan, "ft_phase_screen" if k == "hi" else "ft_sh_phase_screen", n,
                                                                      float(numpy.abs(got - want).max()) if got.shape == want.shape else float("nan"),
                                                                      float(numpy.abs(want).max()), tag), dict(c, plan=plan, step=step))
                break
        # positional FFT and seed, and the same arguments again
        g1 = nprng.normal(size=ns)
        for k, f, fn in (("hi", ps.ft_phase_screen, hi_screen), ("sh", ps.ft_sh_phase_screen, sh_screen)):
            want = fn(ps, c, g1)[0]
            again = fn(ps, c, g1)[0]
            posl = numpy.asarray(f(c["r0"], c["N"], c["delta"], c["L0"], c["l0"], None, FakeGen(g1)), dtype=float)
            posf = numpy.asarray(f(c["r0"], c["N"], c["delta"], c["L0"], c["l0"], numpy.fft.ifft2, FakeGen(g1)), dtype=float)
            chk.count("oracle:history:repeat")
            if not numpy.array_equal(want, again):
                chk.fail("history:repeat:%s" % k, "two calls with the same arguments and the same draws give different screens at %s" % tag, dict(c, fn=k))
            if not (numpy.array_equal(posl, want) and float(numpy.abs(posf - want).max()) <= TOL * float(numpy.abs(want).max())):
                chk.fail("history:positional:%s" % k, "FFT and seed passed positionally (6th and 7th argument) do not give the screen of the keyword "
                         "call at %s" % tag, dict(c, fn=k))
            # parameter arrays: 0-d float64 arrays (one writable set, one read-only), used for two calls in a row
            for ro in (False, True):
                arrs = {n_: numpy.array(float(c[n_])) for n_ in ("r0", "delta", "L0", "l0")}
                for a in arrs.values():
                    a.flags.writeable = not ro
                try:
                    o1 = numpy.asarray(f(arrs["r0"], N, arrs["delta"], arrs["L0"], arrs["l0"], seed=FakeGen(g1)), dtype=float)
                    o2 = numpy.asarray(f(arrs["r0"], N, arrs["delta"], arrs["L0"], arrs["l0"], seed=FakeGen(g1)), dtype=float)
                except Exception as ex:
                    chk.fail("history:param-array:%s:raises" % k, "%s with %s 0-d array parameters raises %r at %s"
                             % (f.__name__, "read-only" if ro else "writable", ex, tag), dict(c, fn=k, read_only=ro))
                    continue
                changed = [n_ for n_ in arrs if float(arrs[n_]) != float(c[n_])]
                if changed or not numpy.array_equal(o1, o2) or not float(numpy.abs(o1 - want).max()) <= TOL * float(numpy.abs(want).max()):
                    chk.fail("history:param-array:%s" % k, "%s with 0-d array parameters used for two calls in a row: %s at %s"
                             % (f.__name__, "the call changed the caller's %s" % changed if changed else
                                "the second call differs from the first" if not numpy.array_equal(o1, o2) else "differs from the call with floats", tag),
                             dict(c, fn=k, read_only=ro))


def entry_points(chk, ps, nprng):
    """every public name of the two functions is the function checked above (or at least gives its screens)"""
    import aotools
    import aotools.turbulence
    c = dict(N=6, r0=0.12, delta=0.07, L0=4.0, l0=0.02)
    g = nprng.normal(size=2 * 36 + 54)
    for name in ("ft_phase_screen", "ft_sh_phase_screen"):
        base = getattr(ps, name)
        want = numpy.asarray(base(*_args(c), seed=FakeGen(g)), dtype=float)
        for modname, mod in (("aotools", aotools), ("aotools.turbulence", aotools.turbulence)):
            chk.oracle_cases += 1
            chk.case(("entry-point", modname, name))
            f = getattr(mod, name, None)
            if f is None:
                chk.broke("correspondence", "%s.%s does not exist any more" % (modname, name))
            elif f is not base:
                got = numpy.asarray(f(*_args(c), seed=FakeGen(g)), dtype=float)
                if got.shape != want.shape or not numpy.array_equal(got, want):
                    chk.fail("entry-point:%s.%s" % (modname, name), "%s.%s is another function than aotools.turbulence.phasescreen.%s and gives "
                             "another screen for the same draws" % (modname, name, name), dict(c, fn=name, module=modname))


def param_types(chk, ps, quick):
    """r0, delta, L0, l0 given as Python ints / NumPy scalars (and N as a NumPy integer) denote the same real numbers: the
    screen must be the one obtained with Python floats"""
    for it in range(3 if quick else 12):
        N = chk.rng.choice([4, 6, 8, 10])
        vals = dict(r0=chk.rng.choice([1, 2]), delta=chk.rng.choice([1, 2]), L0=chk.rng.choice([5, 20, 300]), l0=chk.rng.choice([1, 2]))
        frac = config(chk.rng, N)
        for fname, nd, intseed in (("ft_phase_screen", 2 * N * N, False), ("ft_sh_phase_screen", 2 * N * N + 54, False),
                                   ("ft_sh_phase_screen", 0, True), ("ft_phase_screen", 0, True)):
            f = getattr(ps, fname)
            g = numpy.random.default_rng(chk.rng.getrandbits(32)).normal(size=nd)
            iseed = chk.rng.randrange(2 ** 31)

            def call(r0, n, delta, L0, l0):
                return numpy.asarray(f(r0, n, delta, L0, l0, seed=iseed if intseed else FakeGen(g)))
            for tname, conv, tol in PARAM_TYPES:
                # integer values in every type; fractional values only in the floating types (compared at the converted value)
                for src in ([vals] if "int" in tname else [vals, frac]):
                    a = {k: conv(src[k]) for k in ("r0", "delta", "L0", "l0")}
                    ref = call(*[float(a["r0"]), N] + [float(a[k]) for k in ("delta", "L0", "l0")])
                    chk.oracle_cases += 1
                    chk.count("oracle:param-type:" + tname)
                    chk.case(("param-type", fname, intseed, tname, N, repr(sorted((k, float(v)) for k, v in a.items()))),
                             sample={"fn": fname, "type": tname, "N": N, **{k: float(v) for k, v in a.items()}} if it == 0 and intseed else None)
                    rep = dict(fn=fname, type=tname, N=N, int_seed=intseed, **{k: float(v) for k, v in a.items()})
                    for what, nn in (("", N), (" and N a numpy.int64", numpy.int64(N)), (" and N a numpy.uint8", numpy.uint8(N)),
                                     (" and N a numpy.uint64", numpy.uint64(N))):
                        try:
                            s = call(a["r0"], nn, a["delta"], a["L0"], a["l0"])
                        except Exception as ex:
                            chk.fail("param-type:%s:%s:raises" % (fname, tname), "%s with r0, delta, L0, l0 of type %s%s raises %r (values %s, N=%d)"
                                     % (fname, tname, what, ex, {k: float(v) for k, v in a.items()}, N), rep)
                            continue
                        err = float(numpy.abs(s - ref).max()) if s.shape == ref.shape else float("inf")
                        # ft_phase_screen converts its parameters to Python floats first: a float32 scalar gives the double-precision
                        # screen of the value it holds (observed: bit-identical); only the sub-harmonic code computes with the scalars
                        # as given.  (A float32 parameter processed in single precision makes the covariance wrong by 1e-7.)
                        tol_ = TOL if (tname == "numpy.float32" and fname == "ft_phase_screen") else tol
                        if not err <= tol_ * numpy.abs(ref).max():
                            chk.fail("param-type:%s:%s" % (fname, tname), "%s with r0, delta, L0, l0 of type %s%s differs from the call with the "
                                     "same values as Python floats by %.3g (screen max %.3g; values %s, N=%d)"
                                     % (fname, tname, what, err, numpy.abs(ref).max(), {k: float(v) for k, v in a.items()}, N), rep)


def numeric_clauses(chk, ps, quick):
    """the clauses no theorem carries, on fixed configurations (deterministic), ensemble structure functions of the REAL code
    along the middle pixel row from unit draws:
      * closer to the analytic von Kármán structure function at large separations (N/4..N/2 pixels) with sub-harmonics;
      * refinement (a) larger grid, same pixel: the relative error at EACH of the separations 1, 2, 4 and N₀/4.. pixels
        shrinks every time N is doubled;  (b) finer AND larger grid ((N, δ) → (4N, δ/2): twice the extent, half the pixel):
        the relative error at the same physical separations δ₀, 2δ₀, 4δ₀ shrinks."""
    from scipy.special import gamma, kv

    def dvk(r, r0, L0):
        r = numpy.maximum(r, 1e-12)
        return 0.17253 * (L0 / r0) ** (5. / 3) * (1 - 2 * numpy.pi ** (5. / 6) / gamma(5. / 6) * (r / L0) ** (5. / 6) * kv(5. / 6, 2 * numpy.pi * r / L0))

    def row_sf(fn, c, nd):
        """D between pixel (N/2, 0) and (N/2, s), s = 0..N-1, summed over the whole draw basis"""
        N = c["N"]
        i0 = (N // 2) * N
        Lr, _ = columns(fn, ps, c, nd, rows=numpy.arange(i0, i0 + N))
        Cr = Lr @ Lr.T
        d = numpy.diag(Cr)
        return d[0] + d - 2 * Cr[0]

    def relerr(d, c, seps):
        an = dvk(numpy.asarray(seps, dtype=float) * c["delta"], c["r0"], c["L0"])
        return numpy.abs(d[list(seps)] - an) / an

    confs = [(0.15, 0.05, 20., 0.005)] + ([] if quick else [(0.1, 0.02, 10., 0.002), (0.2, 0.1, 50., 0.01)])
    worst = []
    for (r0, delta, L0, l0) in confs:
        prev, prev_sh = None, None
        seps = (1, 2, 4, 6, 8)
        e_first = None
        for N in (16, 32, 64):
            c = dict(N=N, r0=r0, delta=delta, L0=L0, l0=l0)
            chk.oracle_cases += 1
            chk.case(("numeric", N, r0, delta, L0, l0))
            dh = row_sf(hi_screen, c, 2 * N * N)
            an = dvk(numpy.arange(N) * delta, r0, L0)
            do_sh = N <= 32 or not quick
            if do_sh:
                ds = row_sf(sh_screen, c, 2 * N * N + 54)
                sel = slice(N // 4, N // 2 + 1)
                if not numpy.all(numpy.abs(ds - an)[sel] < numpy.abs(dh - an)[sel]):
                    chk.fail("numeric:sh-closer-large-sep", "with sub-harmonics the ensemble structure function is not closer to the analytic von "
                             "Kármán one at separations N/4..N/2 (N=%d r0=%g δ=%g L0=%g)" % (N, r0, delta, L0), c)
                e_sh = relerr(ds, c, seps)
                if prev_sh is not None and not numpy.all(e_sh < prev_sh):
                    chk.fail("numeric:refinement:sh", "sub-harmonic variant: the relative error of D at separations %s pixels does not shrink when N "
                             "is doubled to %d (%s -> %s)" % (seps, N, numpy.round(prev_sh, 4).tolist(), numpy.round(e_sh, 4).tolist()), c)
                if prev_sh is not None:
                    worst.append(float((e_sh / prev_sh).max()))
                prev_sh = e_sh
            e = relerr(dh, c, seps)
            if e_first is None:
                e_first = e
            if prev is not None and not numpy.all(e < prev):
                chk.fail("numeric:refinement", "the relative error of D at separations %s pixels does not shrink when N is doubled to %d "
                         "(%s -> %s)" % (seps, N, numpy.round(prev, 4).tolist(), numpy.round(e, 4).tolist()), c)
            if prev is not None:
                worst.append(float((e / prev).max()))
            prev = e
        # (b) twice the extent AND half the pixel: (16, δ) -> (64, δ/2), same physical separations δ, 2δ, 4δ
        c = dict(N=64, r0=r0, delta=delta / 2, L0=L0, l0=l0)
        chk.oracle_cases += 1
        chk.case(("numeric-joint", 64, r0, delta / 2, L0, l0))
        e_fine = relerr(row_sf(hi_screen, c, 2 * 64 * 64), c, (2, 4, 8))
        if not numpy.all(e_fine < e_first[:3]):
            chk.fail("numeric:refinement:joint", "the relative error of D at the physical separations δ, 2δ, 4δ (δ=%g) does not shrink from the grid "
                     "(16, δ) to (64, δ/2): %s -> %s" % (delta, numpy.round(e_first[:3], 4).tolist(), numpy.round(e_fine, 4).tolist()), c)
        worst.append(float((e_fine / e_first[:3]).max()))
    chk.notes.append("refinement: largest ratio of successive relative errors (must be < 1): %.3f" % max(worst))


def run(chk):
    quick = chk.tier == "quick"
    chk.rule = ("correspondence: the Lean model at binary64 (mirror of the code: grid, regenerated PSD, DC removal, shift-ifft2-shift, real part, "
                "sub-harmonic grids, mean removal, generator-stream order) vs ft_phase_screen / ft_sh_phase_screen with an injected Generator "
                "(dense and unit draws) and with an int seed, N in 2..8 incl. odd (thorough: to 16), max-norm tol 1e-9·scale; oracle: full linear "
                "map L of the real code from unit draws, L·Lᵀ vs the PSD-cosine sum (1e-9), linearity, zero draw, column sums, stationarity, "
                "variance, r0 scaling, FFT-object branch with three inverse-transform objects, sub-harmonic structure function and added "
                "covariance (C_sh − C_hi vs the 24 sub-harmonic frequencies), parameters as int / NumPy scalars (1e-9; float32 scalars 1e-5); "
                "L is taken with respect to the generator STREAM (normal and standard_normal, any call shapes): stream length / order / "
                "method differences from the model are reported as broken correspondence, never as violations; "
                "round 5: sparse unit-draw probe on grids the full map cannot reach (N = 256, 512, thorough 1024; sizes with prime factors "
                "23 … 257; sub-harmonic block at N = 64 … 128, thorough 256): each sampled stream position must give ONE plane wave of the grid "
                "whose mean square is PSD(|k|Δf)Δf²/2 (1e-9 relative; observed 1e-14), the 54 sub-harmonic draws the 24-frequency covariance on "
                "sampled pixels; full oracle at the edges of the parameter domain (L0 = inf / 1e9 / sub-pixel, l0 = 1e-7 … 60 pixels, r0 and "
                "pixel sizes 1e-4 … 1e4) and on sequences of configurations that differ in the 4th digit / by 1e-5 in one parameter; seed values "
                "0, NumPy integers, > 2^32, > 2^53, > 2^64, SeedSequence / BitGenerator, None; one Generator object for several screens; "
                "positional FFT / seed; parameter arrays re-used; N as numpy.int16 / int32; package-level names; "
                "distinct = distinct (op, N, draws, parameters)")
    chk.assumptions = [
        "linear-Gaussian bridge: for i.i.d. N(0,1) draws g the covariance of L·g is L·Lᵀ (ensemble covariance is read as Σ_e φ_e(p)φ_e(q))",
        "numpy.fft.ifft2 = nested naive inverse DFT sums, fftshift/ifftshift = rotations by n//2 (contract checked numerically each run)",
        "NOT PROVED (numeric, fixed configurations, real code): the structure function approaches the analytic von Kármán one as the grid is "
        "refined — tested as: relative error at each of the separations 1,2,4,6,8 pixels shrinks at every doubling N=16,32,64 (fixed pixel), "
        "and at the physical separations δ,2δ,4δ from grid (16,δ) to (64,δ/2); also for the sub-harmonic variant (N=16,32; thorough 64)",
        "NOT PROVED (numeric, fixed configurations): the sub-harmonic variant is closer to the analytic curve at large separations",
        "int seed = 'every default_rng(seed) call replays the same stream' (numpy's contract; the int-seed path is probed through a patched "
        "default_rng and re-validated against a real int seed on every configuration)",
        "IEEE rounding and numpy broadcasting are not modelled (model run at binary64 agrees with the code to 1e-9)",
        "the FFT= object of ft_phase_screen / ft_sh_phase_screen is contracted to compute numpy.fft.ifft2 (run with numpy.fft.ifft2, "
        "scipy.fft.ifft2 and a matrix-product inverse DFT); for even N the branch is PROVED equal to the default one (fft_branch_eq), for odd N "
        "it differs (outside the property) and is only tied to the model by the correspondence run",
        "psd_is_stated / fgrid_is_stated / … are equations between Lean's TOTAL operations (x/0 = 0, real powers of non-positive bases): they "
        "describe the Python code only for N>0, delta>0, r0>0, L0>0, l0>0 (domain_no_division_by_zero: on that domain no model division has a "
        "zero denominator); outside it Python raises / returns nan and nothing is claimed",
        "the screen is probed as a function of the stream returned by Generator.normal / Generator.standard_normal; code that drew Gaussians "
        "by another route (uniforms + Box-Muller, RandomState, …) is reported as broken correspondence (cannot be probed), not as a violation",
        "the sparse probe of large grids (round 5) is invariant under permutations and sign flips of the generator stream only: a screen of "
        "ONE unit draw that is not one plane wave of the grid is reported as broken correspondence (an implementation mixing its draws "
        "orthogonally would have the same covariance), a plane wave of the wrong power as a violation; an identically zero screen counts as a "
        "violation only when every other sampled position agreed with the model's stream layout",
        "seed=None must give two different screens on two calls (a non-degenerate ensemble); how an int seed is turned into a stream "
        "(numpy.random.default_rng(seed) as given) is correspondence, not property",
        "parameters of type numpy.float32 are only required to reproduce the double-precision screen to 1e-5 (ft_sh_phase_screen does not "
        "cast r0, L0, l0 to float as ft_phase_screen does: the sub-harmonic part is then evaluated partly in single precision, observed 3e-8)",
    ]
    from aotools.turbulence import phasescreen as ps
    meta = t1check.regenerate(chk)
    chk.build_and_audit("AoVerif.Props.C07", "AoVerif.Props.C07", REQUIRED)
    kernel_contract(chk)
    if meta is not None:
        def arggen(name, rng):
            return {"f": rng.choice([0.0, logu(rng, 1e-3, 1e3)]), "fm": logu(rng, 1.0, 1e3), "f0": logu(rng, 1e-3, 1.0),
                    "r0": logu(rng, 0.02, 1.0)}
        try:
            t1check.selfcheck(chk, meta, T1_NAMES, arggen, 6 if quick else 60, rtol=1e-11)
        except common.LeanError as ex:
            chk.broke("translator", "generated Lean does not compile / run", str(ex))
    try:
        correspondence(chk, ps, quick)
    except common.LeanError as ex:
        chk.broke("correspondence", "driver failed", str(ex))
    nprng = numpy.random.default_rng(chk.rng.getrandbits(32))
    sizes = [2, 4, 6, 8, 10, 12, 16] + ([] if quick else [14, 18, 20, 24, 32])
    # the recorded witness of finding C07-sh-seed-reuse (screen size 0.8 m, L0 = 1 m) and a large-L0 configuration, every run
    oracle_config(chk, ps, dict(N=8, r0=0.1, delta=0.1, L0=1.0, l0=0.01), nprng)
    oracle_config(chk, ps, dict(N=8, r0=0.15, delta=0.05, L0=100.0, l0=0.01), nprng)
    for N in sizes:
        for _ in range((2 if N <= 12 else 1) if quick else (2 if N > 16 else 8)):
            oracle_config(chk, ps, config(chk.rng, N), nprng)
    # call-history independence: the SAME grid (N, delta) with other outer/inner scales and r0, one after the other in this
    # process — anything remembered from an earlier call (a spectrum cached per grid, say) shows up as a wrong covariance
    for N in ([6, 10] if quick else [4, 6, 10, 12, 16]):
        base = config(chk.rng, N)
        for k in range(3):
            c = dict(base, L0=base["L0"] * [1.0, 7.3, 0.31][k], l0=base["l0"] * [1.0, 0.5, 3.0][k], r0=base["r0"] * [1.0, 1.7, 0.6][k])
            chk.count("oracle:same-grid-sequence")
            oracle_config(chk, ps, c, nprng, do_sh=(k == 2))
    # even sizes with a large prime factor (FFT implementations treat them differently from 2^a 3^b 5^c sizes)
    for N in ([26] if quick else [26, 34, 38]):
        oracle_config(chk, ps, config(chk.rng, N), nprng, do_sh=False)
    grid_scan(chk, ps, quick)
    param_types(chk, ps, quick)
    # round 5 (generator audit): input classes and call histories the sections above never produce
    WORST.clear()
    large_grids(chk, ps, quick, nprng)
    beyond_1024(chk, ps, quick)
    extreme_parameters(chk, ps, quick, nprng)
    near_equal_history(chk, ps, quick, nprng)
    seed_classes(chk, ps, quick)
    call_histories(chk, ps, quick, nprng)
    overlapping_construction(chk, ps, quick)
    entry_points(chk, ps, nprng)
    chk.notes.append("round-5 sections: worst observed value as a fraction of its tolerance: %s"
                     % {k: float("%.2e" % v) for k, v in sorted(WORST.items())})
    numeric_clauses(chk, ps, quick)
