"""C06 — seeded screens are reproducible and instances are isolated."""
import json
import os
import random as pyrandom

import numpy

from .. import common
from .. import translate_effects as T2

MANIFEST = {
    "text": "Lean 4 theorems over an arbitrary generator (uninterpreted seeding and stepping functions, outputs in a type with no "
            "laws, so equalities are bit-identities) and for ALL histories of create/add_row/read/finite-screen/global-seed/"
            "global-draw/other operations: noninterference (an instance's outputs depend only on the operations on it), "
            "seeded_repro (same seed + same operations => identical outputs whatever is interleaved), finite_repro, read_pure, "
            "global_untouched; and, on the effect terms regenerated from the current source by translator T2, "
            "screen_code_uses_no_global_rng. The table saying which generator each entry point uses is tied to the code by "
            "comparing, on generated interleavings run on the real library, the set of generators whose state changed at every "
            "operation with the model's; the oracle replays each instance's projection in isolation and compares bitwise.",
    "note": "Trusted: Lean kernel + standard axioms; T2; numpy.random.default_rng(seed) is a deterministic function of the seed and "
            "Generator.normal of the generator state (PCG64/SeedSequence). Not carried by proof: 'different seeds give different "
            "screens' and 'unseeded calls differ' (injectivity / OS entropy) — sampled by the oracle only.",
    "technique": "Lean 4 proof by induction over operation histories (state machine, noninterference) + effect-term obligation "
                 "regenerated from source + differential touch-set correspondence + bitwise isolated replay",
}
REQUIRED = ["inst_state_projection", "noninterference", "same_projection_same_outputs", "finite_repro", "alone_outputs",
            "seeded_repro", "read_pure", "global_untouched", "screen_code_present", "screen_code_uses_no_global_rng"]


SEED_TYPES = ["int", "int", "int64", "int32", "uint32", "uint64", "big"]


def mkseed(v, t):
    """the same seed VALUE presented as the different integer types a caller may hold (Python int, NumPy scalars,
    e.g. an element of numpy.arange or of rng.integers(...)); 'big' exercises seeds beyond 2**32"""
    if v is None:
        return None
    if t == "int64":
        return numpy.int64(v)
    if t == "int32":
        return numpy.int32(v)
    if t == "uint32":
        return numpy.uint32(v)
    if t == "uint64":
        return numpy.uint64(v)
    if t == "big":
        return int(v) + 2 ** 40
    return int(v)


def mk_screen(cfg):
    from aotools.turbulence import infinitephasescreen as ips
    cfg = dict(cfg, seed=mkseed(cfg["seed"], cfg.get("seed_type", "int")))
    if cfg["variant"] == "vk":
        return ips.PhaseScreenVonKarman(cfg["nx"], cfg["px"], cfg["r0"], cfg["L0"], random_seed=cfg["seed"], n_columns=cfg["ncol"])
    return ips.PhaseScreenKolmogorov(cfg["nx"], cfg["px"], cfg["r0"], cfg["L0"], random_seed=cfg["seed"],
                                     stencil_length_factor=cfg["slf"])


def gen_state(g):
    return json.dumps(g.bit_generator.state, sort_keys=True, default=str)


def global_state():
    s = numpy.random.get_state()
    return (s[0], s[1].tobytes(), s[2], s[3], s[4]), pyrandom.getstate()


def finite_call(op):
    from aotools.turbulence import phasescreen
    f = phasescreen.ft_sh_phase_screen if op["sh"] else phasescreen.ft_phase_screen
    return f(op["r0"], op["N"], op["delta"], op["L0"], op["l0"], seed=mkseed(op["seed"], op.get("seed_type", "int")))


def other_call(k):
    import aotools
    if k == 0:
        return aotools.circle(3, 8)
    if k == 1:
        return aotools.ft2(numpy.ones((4, 4)), 1.)
    if k == 2:
        return aotools.centre_of_gravity(numpy.arange(16.).reshape(4, 4) + 1)
    if k == 3:
        return aotools.zernikeArray(4, 8)
    return aotools.structure_function_vk(numpy.array([.1, .2]), .2, 20.)


def canon(cfg):
    """configuration up to the integer TYPE of the seed (the value is what matters; 'big' is a different value)"""
    d = dict(cfg)
    d["seed_type"] = "big" if d.get("seed_type") == "big" else "int"
    return d


def gen_history(rng, quick, force_twin=False):
    n_inst = rng.randint(2, 4)
    cfgs = []
    for i in range(n_inst):
        if i > 0 and rng.random() < 0.5 and not (force_twin and i == 1):
            c0 = rng.choice(cfgs)                          # a reproduction of an earlier instance (same seed & parameters),
            st = c0["seed_type"] if c0["seed_type"] == "big" else rng.choice([t for t in SEED_TYPES if t != "big"])
            cfgs.append(dict(c0, seed_type=st))            # the seed possibly held as another integer type
        elif i > 0 and (rng.random() < 0.4 or (force_twin and i == 1)):
            # same geometry and seed as an earlier instance but another r0 / L0: anything the library shares between
            # instances of one geometry (caches, class attributes) would leak from one into the other
            c0 = rng.choice(cfgs)
            cfgs.append(dict(c0, r0=rng.choice([0.12, 0.2, 0.31]), seed=rng.choice([c0["seed"], rng.randint(0, 5)])))
        else:
            cfgs.append({"variant": rng.choice(["vk", "vk", "fried"]), "nx": rng.choice([6, 8, 9, 12] if quick else [6, 8, 9, 12, 16, 17]),
                         "px": rng.choice([0.05, 0.1]), "r0": rng.choice([0.1, 0.16]), "L0": rng.choice([10., 25.]),
                         "seed": rng.randint(0, 5), "seed_type": rng.choice(SEED_TYPES), "ncol": 2, "slf": rng.choice([2, 4])})
    ops, created = [], set()
    length = rng.randint(8, 16 if quick else 40)
    for _ in range(length):
        r = rng.random()
        if len(created) < n_inst and (r < 0.3 or not created):
            i = min(set(range(n_inst)) - created)
            created.add(i)
            ops.append({"op": "create", "i": i})
        elif r < 0.6:
            ops.append({"op": "addRow", "i": rng.choice(sorted(created))})
        elif r < 0.7:
            ops.append({"op": "read", "i": rng.choice(sorted(created))})
        elif r < 0.8:
            ops.append({"op": "finite", "sh": rng.random() < 0.5, "seed": rng.randint(0, 3), "seed_type": rng.choice(SEED_TYPES),
                        "N": rng.choice([8, 16]),
                        "r0": 0.15, "delta": 0.05, "L0": 20., "l0": 0.01})
        elif r < 0.87:
            ops.append({"op": "globalSeed", "s": rng.randint(0, 100)})
        elif r < 0.94:
            ops.append({"op": "globalDraw", "n": rng.randint(1, 5), "via": rng.choice(["numpy", "optimal_grouping"])})
        else:
            ops.append({"op": "other", "k": rng.randrange(5)})
    for i in range(n_inst):          # make sure every instance exists and is stepped at least once
        if i not in created:
            ops.append({"op": "create", "i": i})
        ops.append({"op": "addRow", "i": i})
    return cfgs, ops


def execute(cfgs, ops, observe):
    """run a history on the real library; returns per-instance outputs, finite outputs, and the observed touch sets"""
    inst, outs, fin, touch = {}, {}, [], []
    for op in ops:
        before = {i: gen_state(s._R) for i, s in inst.items()} if observe else None
        gb = global_state() if observe else None
        kind = op["op"]
        if kind == "create":
            inst[op["i"]] = mk_screen(cfgs[op["i"]])
            outs.setdefault(op["i"], []).append(numpy.array(inst[op["i"]].scrn, copy=True))
        elif kind == "addRow":
            s = inst[op["i"]]
            s.add_row()
            outs[op["i"]].append(numpy.array(s.scrn, copy=True))
        elif kind == "read":
            s = inst[op["i"]]
            a = numpy.array(s.scrn, copy=True)
            repr(s)
            str(s)
            b = numpy.array(s.scrn, copy=True)
            outs[op["i"]].append(numpy.concatenate([a.ravel(), b.ravel()]))
        elif kind == "finite":
            fin.append((json.dumps(canon(op), sort_keys=True), finite_call(op)))
        elif kind == "globalSeed":
            numpy.random.seed(op["s"])
            pyrandom.seed(op["s"])
        elif kind == "globalDraw":
            if op["via"] == "numpy":
                numpy.random.normal(size=op["n"])
            else:
                from aotools.turbulence import profile_compression
                profile_compression.optimal_grouping(1, 3, numpy.linspace(0, 15000., 10), numpy.linspace(1, 2, 10) ** 3)
        else:
            other_call(op["k"])
        if observe:
            ch = []
            for i, s in sorted(inst.items()):
                if i not in before or gen_state(s._R) != before[i]:
                    ch.append("i%d" % i)
            if global_state() != gb:
                ch.append("g")
            touch.append(",".join(ch) or "-")
    return outs, fin, touch


def solo_in_fresh_interpreter(cfgs, proj, i):
    """outputs (as sha256 digests) of instance i's own operations run alone in a NEW Python process: nothing the library may
    have cached or kept from other instances of this process can be shared"""
    import hashlib
    import subprocess
    import sys
    code = ("import sys, json, hashlib, numpy\n"
            "sys.path[:0] = %r\n"
            "from harness.props import c06\n"
            "cfgs, proj, i = json.loads(sys.stdin.read())\n"
            "outs, _, _ = c06.execute(cfgs, proj, observe=False)\n"
            "print(json.dumps([hashlib.sha256(numpy.ascontiguousarray(a).tobytes()).hexdigest() for a in outs.get(i, [])]))\n"
            % ([common.REPO, common.VERIF],))
    p = subprocess.run([sys.executable, "-W", "ignore", "-c", code], input=json.dumps([cfgs, proj, i]), capture_output=True,
                       text=True, timeout=600, env=dict(os.environ, PYTHONPATH=common.REPO + ":" + common.VERIF))
    lines = [l for l in p.stdout.splitlines() if l.startswith("[")]
    if p.returncode != 0 or not lines:
        raise RuntimeError("fresh-interpreter replay failed: " + p.stderr[-500:])
    return json.loads(lines[-1])


def model_line(cfgs, ops):
    toks = []
    for op in ops:
        k = op["op"]
        if k == "create":
            toks.append("c:%d:%d:1" % (op["i"], cfgs[op["i"]]["seed"]))
        elif k == "addRow":
            toks.append("a:%d:1" % op["i"])
        elif k == "read":
            toks.append("r:%d" % op["i"])
        elif k == "finite":
            toks.append("f:%d:1" % op["seed"])
        elif k == "globalSeed":
            toks.append("gs:%d" % op["s"])
        elif k == "globalDraw":
            toks.append("gd:1")
        else:
            toks.append("o")
    return "C06 hist %d %s" % (len(cfgs), " ".join(toks))


def run(chk):
    quick = chk.tier == "quick"
    chk.rule = ("generated histories over 2-4 infinite screens (von Karman and Fried variants, some sharing seed and parameters), "
                "finite screens, numpy/stdlib global seeding, global draws (numpy.random and optimal_grouping) and unrelated calls; "
                "correspondence = touch set per operation (which generators changed state) model vs real; oracle = bitwise equality of "
                "each instance's outputs with its isolated replay, of reproductions with each other, of seeded finite screens; "
                "distinct = distinct (configuration, operation list)")
    chk.assumptions = ["'different seeds give different screens' and 'unseeded calls differ from each other' are sampled, not proved "
                       "(PCG64 / SeedSequence injectivity, OS entropy)",
                       "numpy.random.default_rng(seed) / Generator.normal are deterministic functions of seed / state"]
    try:
        src, meta = T2.translate(common.REPO)
        checks = meta.pop("__checks__")
        from ..translate_formulas import write_if_changed
        write_if_changed(os.path.join(common.LEAN_DIR, "AoVerif/Gen/Effects.lean"), src)
        write_if_changed(os.path.join(common.LEAN_DIR, "AoVerif/Gen/EffectsChecks.lean"), checks)
    except Exception as ex:
        chk.broke("translator", "T2 cannot translate the current source: %r" % (ex,))
    chk.build_and_audit("AoVerif.Props.C06", "AoVerif.Props.C06", REQUIRED)
    n_hist = 20 if quick else 200
    lines, observed, cases = [], [], []
    fresh_budget = [4 if quick else 40]
    for h in range(n_hist):
        cfgs, ops = gen_history(chk.rng, quick, force_twin=(h < 4))
        chk.case(("hist", json.dumps(cfgs, sort_keys=True), json.dumps(ops, sort_keys=True)),
                 sample={"configs": cfgs, "ops": ops[:8]} if h < 2 else None)
        for o in ops:
            chk.count("op:" + o["op"])
        gseed = chk.rng.randint(0, 10 ** 6)
        numpy.random.seed(gseed)
        try:
            outs, fin, touch = execute(cfgs, ops, observe=True)
        except Exception as ex:
            chk.fail("raises:%s" % type(ex).__name__, "history raised %r" % (ex,), {"configs": cfgs, "ops": ops})
            continue
        lines.append(model_line(cfgs, ops))
        observed.append(touch)
        cases.append((cfgs, ops))
        chk.oracle_cases += 1
        # isolation: each instance alone, in a differently perturbed world
        for i, cfg in enumerate(cfgs):
            proj = [o for o in ops if o.get("i") == i and o["op"] in ("create", "addRow", "read")]
            numpy.random.seed(gseed + 17 + i)
            numpy.random.normal(size=3)
            solo, _, _ = execute(cfgs, proj, observe=False)
            a, b = outs.get(i, []), solo.get(i, [])
            same = len(a) == len(b) and all(x.shape == y.shape and x.tobytes() == y.tobytes() for x, y in zip(a, b))
            if not same:
                chk.fail("isolation:%s" % cfg["variant"], "instance %d (%s, seed %d) produced different screens when other operations were "
                         "interleaved than when run alone" % (i, cfg["variant"], cfg["seed"]), {"configs": cfgs, "ops": ops, "instance": i})
            if any(not numpy.isfinite(x).all() for x in a):
                chk.fail("nonfinite:%s" % cfg["variant"], "instance %d produced non-finite values" % i, {"configs": cfgs, "ops": ops})
        # ... and, for a few instances per run, alone in a fresh interpreter (state kept by the library inside this process,
        # e.g. a cache shared between instances, is invisible to an in-process replay)
        if fresh_budget[0] > 0:
            import hashlib
            cand = [i for i in range(len(cfgs)) if any(j != i and {k: v for k, v in cfgs[j].items() if k not in ("r0", "seed", "seed_type")}
                                                        == {k: v for k, v in cfgs[i].items() if k not in ("r0", "seed", "seed_type")}
                                                        for j in range(i))] or list(range(len(cfgs)))
            i = cand[-1]
            fresh_budget[0] -= 1
            proj = [o for o in ops if o.get("i") == i and o["op"] in ("create", "addRow", "read")]
            dig = solo_in_fresh_interpreter(cfgs, proj, i)
            mine = [hashlib.sha256(numpy.ascontiguousarray(a).tobytes()).hexdigest() for a in outs.get(i, [])]
            chk.count("fresh-interpreter-replays")
            if dig != mine:
                chk.fail("isolation:fresh-process:%s" % cfgs[i]["variant"], "instance %d (%s, seed %d, r0 %g) produced different screens in this "
                         "history than when run alone in a fresh interpreter" % (i, cfgs[i]["variant"], cfgs[i]["seed"], cfgs[i]["r0"]),
                         {"configs": cfgs, "ops": ops, "instance": i})
        # reproductions: instances with identical configuration and identical own operation sequence
        for i in range(len(cfgs)):
            for j in range(i + 1, len(cfgs)):
                pi = [o["op"] for o in ops if o.get("i") == i and o["op"] in ("create", "addRow", "read")]
                pj = [o["op"] for o in ops if o.get("i") == j and o["op"] in ("create", "addRow", "read")]
                n = min(len(pi), len(pj))
                if canon(cfgs[i]) == canon(cfgs[j]) and pi[:n] == pj[:n]:
                    chk.count("reproduction-pairs")
                    for x, y in zip(outs[i][:n], outs[j][:n]):
                        if x.tobytes() != y.tobytes():
                            chk.fail("repro:infinite:%s" % cfgs[i]["variant"], "two %s screens with the same seed %d and parameters differ"
                                     % (cfgs[i]["variant"], cfgs[i]["seed"]), {"configs": cfgs, "ops": ops, "pair": [i, j]})
                            break
                elif cfgs[i]["seed"] != cfgs[j]["seed"] and {k: v for k, v in canon(cfgs[i]).items() if k != "seed"} == \
                        {k: v for k, v in canon(cfgs[j]).items() if k != "seed"}:
                    if outs[i][0].tobytes() == outs[j][0].tobytes():
                        chk.fail("seeds-differ:infinite", "different seeds gave identical infinite screens", {"configs": cfgs})
        # finite screens: same call => bit-identical, wherever it occurs
        seen = {}
        for key, val in fin:
            if key in seen and seen[key].tobytes() != val.tobytes():
                k = json.loads(key)
                chk.fail("repro:finite:%s" % ("sh" if k["sh"] else "plain"), "finite screen with seed %d differs between two calls in one history"
                         % k["seed"], {"call": k, "configs": cfgs, "ops": ops})
            seen[key] = val
        for key, val in fin:
            k = json.loads(key)
            numpy.random.seed(4242)
            ref = finite_call(k)
            if ref.tobytes() != val.tobytes():
                chk.fail("repro:finite:%s" % ("sh" if k["sh"] else "plain"), "finite screen with seed %d differs from the same call in a fresh "
                         "context" % k["seed"], {"call": k, "configs": cfgs, "ops": ops})
            for st in ("int", "int64", "uint32"):
                if k.get("seed_type") != "big" and finite_call(dict(k, seed_type=st)).tobytes() != val.tobytes():
                    chk.fail("repro:finite:seed-type", "finite screen with seed %d held as %s differs from the same seed value held as another "
                             "integer type" % (k["seed"], st), {"call": k, "seed_type": st})
            k2 = dict(k, seed=k["seed"] + 1)
            if finite_call(k2).tobytes() == val.tobytes():
                chk.fail("seeds-differ:finite", "finite screens with seeds %d and %d are identical" % (k["seed"], k["seed"] + 1), {"call": k})
    # unseeded calls differ from each other (sampled clause)
    for sh in (False, True):
        k = {"sh": sh, "seed": None, "N": 8, "r0": .15, "delta": .05, "L0": 20., "l0": .01}
        if finite_call(k).tobytes() == finite_call(k).tobytes():
            chk.fail("unseeded-equal:finite", "two unseeded finite screens are identical", {"call": k})
    # correspondence of the touch sets
    try:
        ans = common.run_driver(lines, "C06")
        for a, obs, (cfgs, ops) in zip(ans, observed, cases):
            chk.corr_cases += 1
            if a == "bad-op":
                chk.broke("correspondence", "driver rejected a history")
                continue
            model = [t.split("/")[0] for t in a.split()]
            if model != obs:
                bad = [(n, o["op"], m, r) for n, (o, m, r) in enumerate(zip(ops, model, obs)) if m != r]
                chk.broke("correspondence", "generators touched differ from the model at (index, op, model, real) %s" % bad[:4],
                          json.dumps({"configs": cfgs, "ops": ops}))
    except common.LeanError as ex:
        chk.broke("correspondence", "driver failed", str(ex))
