"""C06 — seeded screens are reproducible and instances are isolated."""
import json
import os
import random as pyrandom

import numpy

from .. import common
from .. import translate_effects as T2

MANIFEST = {
    "text": "Lean 4 theorems over an arbitrary generator (uninterpreted seeding and stepping functions, outputs in a type with no "
            "laws, so equalities are bit-identities) and for ALL histories of create/add_row/read/finite-screen/global-seed/"
            "global-draw/other operations: noninterference (an instance's outputs depend only on the operations on it), "
            "seeded_repro (same seed + same operations => identical outputs whatever is interleaved), finite_repro, read_pure, "
            "global_untouched; and, on the effect terms regenerated from the current source by translator T2, "
            "screen_code_uses_no_global_rng. The table saying which generator each entry point uses is tied to the code by "
            "comparing, on generated interleavings run on the real library, the set of generators whose state changed at every "
            "operation with the model's; the oracle replays each instance's projection in isolation and compares bitwise.",
    "note": "Trusted: Lean kernel + standard axioms; T2; numpy.random.default_rng(seed) is a deterministic function of the seed and "
            "Generator.normal of the generator state (PCG64/SeedSequence). Not carried by proof: 'different seeds give different "
            "screens' and 'unseeded calls differ' (injectivity / OS entropy) — sampled by the oracle only.",
    "technique": "Lean 4 proof by induction over operation histories (state machine, noninterference) + effect-term obligation "
                 "regenerated from source + differential touch-set correspondence + bitwise isolated replay",
}
REQUIRED = ["inst_state_projection", "noninterference", "same_projection_same_outputs", "finite_repro", "alone_outputs",
            "seeded_repro", "read_pure", "global_untouched", "screen_code_present", "screen_code_uses_no_global_rng",
            "reads_do_not_matter", "reads_do_not_matter_outputs", "same_up_to_reads", "lazy_init_is_read_sensitive"]


SEED_TYPES = ["int", "int", "int64", "int32", "uint32", "uint64", "big"]


def mkseed(v, t):
    """the same seed VALUE presented as the different integer types a caller may hold (Python int, NumPy scalars,
    e.g. an element of numpy.arange or of rng.integers(...)); 'big' exercises seeds beyond 2**32"""
    if v is None:
        return None
    if t == "int64":
        return numpy.int64(v)
    if t == "int32":
        return numpy.int32(v)
    if t == "uint32":
        return numpy.uint32(v)
    if t == "uint64":
        return numpy.uint64(v)
    if t == "big":
        return int(v) + 2 ** 40
    return int(v)


SEED_KINDS = ["int"] * 5 + ["none", "generator", "seedseq"]


def seed_object(d):
    """what the caller passes as the seed: an integer (held as some integer type), nothing at all ('none' = unseeded), a
    PRIVATE numpy Generator built from the integer, or a numpy SeedSequence of it.  The last two denote the same stream as
    the integer itself (numpy.random.default_rng passes a Generator through and seeds PCG64 from a SeedSequence)."""
    kind = d.get("seed_kind", "int")
    if kind == "none" or d["seed"] is None:
        return None
    v = mkseed(d["seed"], d.get("seed_type", "int"))
    if kind == "generator":
        return numpy.random.default_rng(v)
    if kind == "seedseq":
        return numpy.random.SeedSequence(int(v))
    return v


class GeneratorNotFound(Exception):
    pass


def inst_gen(s):
    """the per-instance generator, for OBSERVING which generators an operation touches.  Its attribute name (`_R`) is private to
    the library: if it is renamed, any single numpy Generator found among the instance attributes is used instead; if none can
    be found the touch sets cannot be observed — a correspondence matter, not a violation of the property"""
    g = getattr(s, "_R", None)
    if isinstance(g, numpy.random.Generator):
        return g
    found = {id(v): v for k, v in vars(s).items() if isinstance(v, numpy.random.Generator)}       # (random_seed may hold the same object)
    if len(found) == 1:
        return list(found.values())[0]
    raise GeneratorNotFound("no per-instance numpy Generator found on %s (attributes %s)" % (type(s).__name__, sorted(vars(s))[:30]))


def mk_screen(cfg):
    from aotools.turbulence import infinitephasescreen as ips
    cfg = dict(cfg, seed=seed_object(cfg))
    if cfg["variant"] == "vk":
        return ips.PhaseScreenVonKarman(cfg["nx"], cfg["px"], cfg["r0"], cfg["L0"], random_seed=cfg["seed"], n_columns=cfg["ncol"])
    return ips.PhaseScreenKolmogorov(cfg["nx"], cfg["px"], cfg["r0"], cfg["L0"], random_seed=cfg["seed"],
                                     stencil_length_factor=cfg["slf"])


def gen_state(g):
    return json.dumps(g.bit_generator.state, sort_keys=True, default=str)


def global_state():
    s = numpy.random.get_state()
    return (s[0], s[1].tobytes(), s[2], s[3], s[4]), pyrandom.getstate()


def finite_call(op):
    from aotools.turbulence import phasescreen
    f = phasescreen.ft_sh_phase_screen if op["sh"] else phasescreen.ft_phase_screen
    return f(op["r0"], op["N"], op["delta"], op["L0"], op["l0"], seed=seed_object(op))


def other_call(k):
    import aotools
    if k == 0:
        return aotools.circle(3, 8)
    if k == 1:
        return aotools.ft2(numpy.ones((4, 4)), 1.)
    if k == 2:
        return aotools.centre_of_gravity(numpy.arange(16.).reshape(4, 4) + 1)
    if k == 3:
        return aotools.zernikeArray(4, 8)
    return aotools.structure_function_vk(numpy.array([.1, .2]), .2, 20.)


def canon(cfg):
    """configuration up to the integer TYPE of the seed and the FORM it is passed in (int / private Generator / SeedSequence):
    the value is what matters ('big' is a different value; 'none' = unseeded is not a value at all)"""
    d = dict(cfg)
    d["seed_type"] = "big" if d.get("seed_type") == "big" else "int"
    d["seed_kind"] = "none" if d.get("seed_kind") == "none" else "int"
    return d


OWN_OPS = ("create", "addRow", "read", "reinit", "getRow")


def gen_history(rng, quick, force_twin=False, force_kind=None):
    n_inst = rng.randint(2, 4)
    cfgs = []
    for i in range(n_inst):
        if i > 0 and rng.random() < 0.5 and not (force_twin and i == 1):
            c0 = rng.choice(cfgs)                          # a reproduction of an earlier instance (same seed & parameters),
            st = c0["seed_type"] if c0["seed_type"] == "big" else rng.choice([t for t in SEED_TYPES if t != "big"])
            sk = "none" if c0["seed_kind"] == "none" else rng.choice(["int", "int", "generator", "seedseq"])
            cfgs.append(dict(c0, seed_type=st, seed_kind=sk))   # the seed possibly held as another integer type / passed in another form
        elif i > 0 and (rng.random() < 0.4 or (force_twin and i == 1)):
            # same geometry and seed as an earlier instance but another r0 / L0: anything the library shares between
            # instances of one geometry (caches, class attributes) would leak from one into the other
            c0 = rng.choice(cfgs)
            cfgs.append(dict(c0, r0=rng.choice([0.12, 0.2, 0.31]), seed=rng.choice([c0["seed"], rng.randint(0, 5)])))
        else:
            cfgs.append({"variant": rng.choice(["vk", "vk", "fried"]), "nx": rng.choice([6, 8, 9, 12] if quick else [6, 8, 9, 12, 16, 17]),
                         "px": rng.choice([0.05, 0.1]), "r0": rng.choice([0.1, 0.16]), "L0": rng.choice([10., 25.]),
                         "seed": rng.randint(0, 5), "seed_type": rng.choice(SEED_TYPES), "seed_kind": rng.choice(SEED_KINDS),
                         "ncol": 2, "slf": rng.choice([2, 4])})
    if force_kind is not None:
        cfgs[0]["seed_kind"] = force_kind              # every run exercises unseeded / Generator / SeedSequence instances
        if force_kind == "none" and len(cfgs) > 2:
            cfgs[2] = dict(cfgs[0])                    # ... and two unseeded instances with identical parameters in one history
    ops, created = [], set()
    length = rng.randint(8, 16 if quick else 40)
    for _ in range(length):
        r = rng.random()
        if len(created) < n_inst and (r < 0.3 or not created):
            i = min(set(range(n_inst)) - created)
            created.add(i)
            ops.append({"op": "create", "i": i})
        elif r < 0.52:
            ops.append({"op": "addRow", "i": rng.choice(sorted(created))})
        elif r < 0.56:
            # an instance id is created AGAIN (the caller rebuilds the screen object with the same arguments)
            ops.append({"op": "create", "i": rng.choice(sorted(created))})
        elif r < 0.60:
            # the public methods a caller may use directly: a second make_initial_screen(), a bare get_new_row()
            ops.append({"op": rng.choice(["reinit", "getRow"]), "i": rng.choice(sorted(created))})
        elif r < 0.7:
            ops.append({"op": "read", "i": rng.choice(sorted(created))})
        elif r < 0.8:
            ops.append({"op": "finite", "sh": rng.random() < 0.5, "seed": rng.randint(0, 3), "seed_type": rng.choice(SEED_TYPES),
                        "seed_kind": rng.choice(["int", "int", "int", "generator", "seedseq"]),
                        "N": rng.choice([4, 8, 10, 16] if quick else [4, 8, 10, 16, 32]),
                        "r0": rng.choice([0.1, 0.15, 0.3]), "delta": rng.choice([0.02, 0.05, 0.1]), "L0": rng.choice([5., 20., 100.]),
                        "l0": rng.choice([0.001, 0.01])})
        elif r < 0.87:
            ops.append({"op": "globalSeed", "s": rng.randint(0, 100)})
        elif r < 0.94:
            ops.append({"op": "globalDraw", "n": rng.randint(1, 5), "via": rng.choice(["numpy", "optimal_grouping"])})
        else:
            ops.append({"op": "other", "k": rng.randrange(5)})
    for i in range(n_inst):          # make sure every instance exists and is stepped at least once
        if i not in created:
            ops.append({"op": "create", "i": i})
        ops.append({"op": "addRow", "i": i})
    return cfgs, ops


def execute(cfgs, ops, observe):
    """run a history on the real library; returns per-instance outputs, finite outputs, and the observed touch sets"""
    inst, outs, fin, touch = {}, {}, [], []
    for op in ops:
        before = {i: gen_state(inst_gen(s)) for i, s in inst.items()} if observe else None
        gb = global_state() if observe else None
        kind = op["op"]
        if kind == "create":
            inst[op["i"]] = mk_screen(cfgs[op["i"]])
            outs.setdefault(op["i"], []).append(numpy.array(inst[op["i"]].scrn, copy=True))
        elif kind == "addRow":
            s = inst[op["i"]]
            s.add_row()
            outs[op["i"]].append(numpy.array(s.scrn, copy=True))
        elif kind == "reinit":
            s = inst[op["i"]]
            s.make_initial_screen()
            outs[op["i"]].append(numpy.array(s.scrn, copy=True))
        elif kind == "getRow":
            s = inst[op["i"]]
            before_scrn = numpy.array(s.scrn, copy=True)
            row = numpy.array(s.get_new_row(), copy=True)
            outs[op["i"]].append(numpy.concatenate([row.ravel(), before_scrn.ravel(), numpy.array(s.scrn, copy=True).ravel()]))
        elif kind == "read":
            s = inst[op["i"]]
            a = numpy.array(s.scrn, copy=True)
            repr(s)
            str(s)
            b = numpy.array(s.scrn, copy=True)
            outs[op["i"]].append(numpy.concatenate([a.ravel(), b.ravel()]))
        elif kind == "finite":
            fin.append((json.dumps(canon(op), sort_keys=True), finite_call(op)))
        elif kind == "globalSeed":
            numpy.random.seed(op["s"])
            pyrandom.seed(op["s"])
        elif kind == "globalDraw":
            if op["via"] == "numpy":
                numpy.random.normal(size=op["n"])
            else:
                from aotools.turbulence import profile_compression
                profile_compression.optimal_grouping(1, 3, numpy.linspace(0, 15000., 10), numpy.linspace(1, 2, 10) ** 3)
        else:
            other_call(op["k"])
        if observe:
            ch = []
            for i, s in sorted(inst.items()):
                if i not in before or gen_state(inst_gen(s)) != before[i]:
                    ch.append("i%d" % i)
            if global_state() != gb:
                ch.append("g")
            touch.append(",".join(ch) or "-")
    return outs, fin, touch


def solo_in_fresh_interpreter(cfgs, proj, i, wait=True):
    """outputs (as sha256 digests) of instance i's own operations run alone in a NEW Python process: nothing the library may
    have cached or kept from other instances of this process can be shared.  wait=False: returns the started process (it runs
    while the caller goes on; the digests are fetched with solo_collect)"""
    import subprocess
    import sys
    code = ("import sys, json, hashlib, numpy\n"
            "sys.path[:0] = %r\n"
            "from harness.props import c06\n"
            "cfgs, proj, i = json.loads(sys.stdin.read())\n"
            "outs, _, _ = c06.execute(cfgs, proj, observe=False)\n"
            "print(json.dumps([hashlib.sha256(numpy.ascontiguousarray(a).tobytes()).hexdigest() for a in outs.get(i, [])]))\n"
            % ([common.REPO, common.VERIF],))
    p = subprocess.Popen([sys.executable, "-W", "ignore", "-c", code], stdin=subprocess.PIPE, stdout=subprocess.PIPE, stderr=subprocess.PIPE,
                         text=True, env=dict(os.environ, PYTHONPATH=common.REPO + ":" + common.VERIF))
    p.stdin.write(json.dumps([cfgs, proj, i]))
    p.stdin.close()
    p.stdin = None
    return solo_collect(p) if wait else p


def solo_collect(p):
    out, err = p.communicate(timeout=600)
    lines = [l for l in out.splitlines() if l.startswith("[")]
    if p.returncode != 0 or not lines:
        raise RuntimeError("fresh-interpreter replay failed: " + err[-500:])
    return json.loads(lines[-1])


def shared_generator_scenario(rng_py, quick):
    """a caller-shared Generator: two infinite screens, two finite screens and the caller itself draw from ONE numpy Generator
    G = default_rng(s).  Which numbers each gets is then decided by the order of the operations on G alone — returns the plan"""
    cfgs = [{"variant": rng_py.choice(["vk", "fried"]), "nx": rng_py.choice([6, 8, 9] if quick else [6, 8, 9, 12]), "px": rng_py.choice([0.05, 0.1]),
             "r0": rng_py.choice([0.1, 0.16]), "L0": rng_py.choice([10., 25.]), "ncol": 2, "slf": rng_py.choice([2, 4])} for _ in range(2)]
    fin = {"N": rng_py.choice([4, 8, 10]), "r0": rng_py.choice([0.1, 0.3]), "delta": rng_py.choice([0.02, 0.1]), "L0": rng_py.choice([5., 100.]),
           "l0": 0.01}
    steps = ["A.create"] + rng_py.sample(["A.addRow", "B.create", "caller.draw", "B.addRow", "A.addRow", "fin.plain", "fin.sh", "A.getRow",
                                          "B.addRow", "A.reinit"], 10)
    if steps.index("B.create") > min(i for i, t in enumerate(steps) if t.startswith("B.") and t != "B.create"):
        steps.remove("B.create")
        steps.insert(1, "B.create")
    return {"seed": rng_py.randint(0, 10 ** 6), "cfgs": cfgs, "fin": fin, "steps": steps}


def run_shared(plan, world):
    """execute a shared-generator plan; `world` selects unrelated activity interleaved between the steps (global seeding and
    draws, other library calls, seeded finite screens, an unrelated seeded infinite screen)"""
    from aotools.turbulence import infinitephasescreen as ips, phasescreen
    G = numpy.random.default_rng(plan["seed"])
    inst, outs = {}, []

    def mk(c):
        if c["variant"] == "vk":
            return ips.PhaseScreenVonKarman(c["nx"], c["px"], c["r0"], c["L0"], random_seed=G, n_columns=c["ncol"])
        return ips.PhaseScreenKolmogorov(c["nx"], c["px"], c["r0"], c["L0"], random_seed=G, stencil_length_factor=c["slf"])
    for n, step in enumerate(plan["steps"]):
        if world:
            numpy.random.seed(1000 * world + n)
            pyrandom.seed(world + n)
            numpy.random.normal(size=n % 3 + 1)
            other_call(n % 5)
            if n % 3 == world % 3:
                finite_call({"sh": bool(n % 2), "seed": n, "N": 8, "r0": .15, "delta": .05, "L0": 20., "l0": .01})
            if n == 2 * world:
                u = ips.PhaseScreenVonKarman(6, 0.1, 0.2, 20., random_seed=world, n_columns=2)
                u.add_row()
        who, what = step.split(".")
        f = plan["fin"]
        if what == "create":
            inst[who] = mk(plan["cfgs"][0 if who == "A" else 1])
            outs.append(numpy.array(inst[who].scrn, copy=True))
        elif what == "addRow":
            inst[who].add_row()
            outs.append(numpy.array(inst[who].scrn, copy=True))
        elif what == "getRow":
            outs.append(numpy.array(inst[who].get_new_row(), copy=True))
        elif what == "reinit":
            inst[who].make_initial_screen()
            outs.append(numpy.array(inst[who].scrn, copy=True))
        elif what == "draw":
            outs.append(G.normal(size=3))
        elif what == "plain":
            outs.append(numpy.array(phasescreen.ft_phase_screen(f["r0"], f["N"], f["delta"], f["L0"], f["l0"], seed=G)))
        else:
            outs.append(numpy.array(phasescreen.ft_sh_phase_screen(f["r0"], f["N"], f["delta"], f["L0"], f["l0"], seed=G)))
    return outs


# ---------------------------------------------------------------------------------------------------------------------
# seed VALUES (round 4): the boundary values of the seed domain (every non-negative integer is a seed), neighbouring large
# seeds, and the forms a caller may hold one seed value in
ENTRY_POINTS = ("finite:plain", "finite:sh", "infinite:vk", "infinite:fried")

FIXED_SEED_VALUES = [0, 1, 2, 255, 256, 2 ** 31 - 1, 2 ** 31, 2 ** 32 - 1, 2 ** 32, 2 ** 32 + 1, 2 ** 53 - 1, 2 ** 53, 2 ** 53 + 1,
                     2 ** 53 + 2, 2 ** 63 - 2, 2 ** 63 - 1, 2 ** 63, 2 ** 64 - 2, 2 ** 64 - 1, 2 ** 64, 2 ** 64 + 1, 2 ** 100 + 1,
                     2 ** 100 + 2, 2 ** 128 - 1, 2 ** 128]


def vclass(v):
    """size class of a seed value (part of the failure keys)"""
    if v <= 1:
        return str(int(v))
    for b in (32, 53, 63, 64, 128, 1024):
        if v < 2 ** b:
            return "<2^%d" % b
    return ">=2^1024"


def battery_values(rng, quick):
    """seed values: the fixed boundary values, two consecutive time.time_ns()-like stamps, and for random bit lengths a random
    value, its successor and the value with ONE other bit flipped (seeds that differ only in a low or only in a high bit)"""
    t = rng.randint(1_600_000_000, 1_900_000_000) * 10 ** 9 + rng.randrange(10 ** 9)
    vals = list(FIXED_SEED_VALUES) + [t, t + 1]
    ranges = ((54, 63), (65, 128), (1025, 1100)) if quick else ((2, 31), (33, 53), (54, 63), (64, 64), (65, 128), (129, 512), (1025, 1100))
    for lo, hi in ranges:
        b = rng.randint(lo, hi)
        v = rng.getrandbits(b) | (1 << (b - 1))
        vals += [v, v + 1, v ^ (1 << rng.randrange(b - 1))]
    return sorted(set(vals))


def seed_forms(v):
    """the forms one seed VALUE can be handed over in (all accepted by numpy.random.default_rng)"""
    forms = ["int"]
    if v <= 1:
        forms.append("bool")
    for name, bound in (("uint8", 2 ** 8), ("int32", 2 ** 31), ("uint32", 2 ** 32), ("int64", 2 ** 63), ("uint64", 2 ** 64)):
        if v < bound:
            forms.append(name)
    if v < 2 ** 64:
        forms.append("array")
    return forms + ["list", "words", "seedseq", "generator"]


def present(v, form):
    """a NEW seed object of the given form for the value v (a Generator is consumed by the call it is passed to)"""
    if form == "int":
        return int(v)
    if form == "bool":
        return bool(v)
    if form in ("uint8", "int32", "uint32", "int64", "uint64"):
        return getattr(numpy, form)(v)
    if form == "array":
        return numpy.array([v], dtype=numpy.uint64)
    if form == "list":
        return [int(v)]
    if form == "words":
        return [(v >> (32 * i)) & 0xffffffff for i in range(max(1, (int(v).bit_length() + 31) // 32))]
    if form == "seedseq":
        return numpy.random.SeedSequence(int(v))
    if form == "generator":
        return numpy.random.default_rng(int(v))
    raise ValueError(form)


def numpy_stream(obj):
    """which random stream NumPy itself derives from a seed object: two seed objects are 'the same seed' exactly if NumPy's
    default_rng starts them in the same generator state (0, numpy.uint8(0), [0], SeedSequence(0) ... are one seed; 2**53 and
    2**53+1 are two)"""
    return json.dumps(numpy.random.default_rng(obj).bit_generator.state, sort_keys=True, default=str)


def ep_params(rng, ep):
    if ep.startswith("finite"):
        return {"N": rng.choice([4, 5, 8]), "r0": rng.choice([0.1, 0.15, 0.3]), "delta": rng.choice([0.02, 0.05, 0.1]),
                "L0": rng.choice([5., 20., 100.]), "l0": rng.choice([0.001, 0.01])}
    return {"nx": rng.choice([4, 6, 7]), "px": rng.choice([0.05, 0.1]), "r0": rng.choice([0.1, 0.16]), "L0": rng.choice([10., 25.]),
            "ncol": 2, "slf": rng.choice([2, 4])}


def ep_make(ep, par, seed):
    from aotools.turbulence import infinitephasescreen as ips
    if ep == "infinite:vk":
        return ips.PhaseScreenVonKarman(par["nx"], par["px"], par["r0"], par["L0"], random_seed=seed, n_columns=par["ncol"])
    return ips.PhaseScreenKolmogorov(par["nx"], par["px"], par["r0"], par["L0"], random_seed=seed, stencil_length_factor=par["slf"])


def ep_outputs(ep, par, seed, rows=2):
    """the screens one use of an entry point returns: the finite screen, or the initial infinite screen and the screen after each
    of `rows` added rows"""
    from aotools.turbulence import phasescreen
    if ep.startswith("finite"):
        f = phasescreen.ft_sh_phase_screen if ep == "finite:sh" else phasescreen.ft_phase_screen
        return [numpy.array(f(par["r0"], par["N"], par["delta"], par["L0"], par["l0"], seed=seed), copy=True)]
    s = ep_make(ep, par, seed)
    out = [numpy.array(s.scrn, copy=True)]
    for _ in range(rows):
        s.add_row()
        out.append(numpy.array(s.scrn, copy=True))
    return out


def perturb(rng, n):
    """unrelated activity between two seeded calls: global seeding / draws, other library calls, unseeded and seeded screens"""
    r = rng.randrange(7)
    if r == 0:
        numpy.random.seed(rng.randint(0, 10 ** 6))
    elif r == 1:
        pyrandom.seed(n)
        numpy.random.normal(size=2)
    elif r == 2:
        finite_call({"sh": bool(n % 2), "seed": None, "N": 4, "r0": .15, "delta": .05, "L0": 20., "l0": .01})
    elif r == 3:
        finite_call({"sh": bool(n % 2), "seed": rng.randint(0, 3), "N": 4, "r0": .15, "delta": .05, "L0": 20., "l0": .01})
    elif r == 4:
        other_call(n % 5)


def seed_value_battery(chk, ep, par, values, all_forms):
    """every seed value in int form, again in other forms (all forms for 0 and 1; one random other form, or all, for the rest),
    evaluated in random order with unrelated activity in between.  Same NumPy stream => bit-identical outputs; different NumPy
    streams => different screens."""
    import hashlib
    rng = chk.rng
    plan = []
    for v in values:
        forms = seed_forms(v)
        extra = forms[1:] if (all_forms or v <= 1) else [rng.choice(forms[1:])]
        plan += [(v, "int")] + [(v, f) for f in extra]
        if ep.startswith("finite"):
            plan.append((v, "int"))                     # the very same call once more
    rng.shuffle(plan)
    by_stream, by_first = {}, {}
    failed = set()
    for n, (v, form) in enumerate(plan):
        perturb(rng, n)
        try:
            stream = numpy_stream(present(v, form))
        except Exception:
            chk.count("seed-battery:form-rejected-by-numpy:" + form)      # not a seed for NumPy: outside the domain
            continue
        chk.count("seed-battery:%s:%s" % (ep, vclass(v)))
        chk.count("seed-battery:form:" + form)
        rep = {"entry": ep, "params": par, "seed": str(v), "form": form}
        try:
            outs = ep_outputs(ep, par, present(v, form))
        except Exception as ex:
            key = "raises:%s:seed-class:%s:%s" % (ep, vclass(v), type(ex).__name__)
            if key not in failed:
                failed.add(key)
                chk.fail(key, "%s raised %r for the seed %d (given as %s), which numpy.random.default_rng accepts" % (ep, ex, v, form), rep)
            continue
        d_all = hashlib.sha256(b"".join(numpy.ascontiguousarray(a).tobytes() for a in outs)).hexdigest()
        d_first = outs[0].tobytes()
        if stream in by_stream:
            d0, v0, f0 = by_stream[stream]
            if d0 != d_all:
                key = "repro:%s:seed-class:%s" % (ep, vclass(v))
                if key not in failed:
                    failed.add(key)
                    chk.fail(key, "%s: the seed %d given as %s and the same seed %d given as %s (one and the same NumPy stream) gave "
                             "different screens" % (ep, v0, f0, v, form), dict(rep, other_seed=str(v0), other_form=f0))
        else:
            by_stream[stream] = (d_all, v, form)
        if d_first in by_first and by_first[d_first][0] != stream:
            _, v0, f0 = by_first[d_first]
            key = "seeds-differ:%s:seed-class:%s" % (ep, vclass(max(v, v0)))
            if key not in failed:
                failed.add(key)
                chk.fail(key, "%s: the different seeds %d (%s) and %d (%s) gave bit-identical screens" % (ep, v0, f0, v, form),
                         dict(rep, other_seed=str(v0), other_form=f0))
        by_first.setdefault(d_first, (stream, v, form))
    return len(plan)


def unseeded_ensemble(chk, ep, par, n, n_ctor):
    """n unseeded uses of one entry point with the same parameters: all screens pairwise different (bytes hashed).  With OS
    entropy a duplicate has probability < 1e-30; a seed drawn from a small pool, a clock or a global generator shows up as
    duplicates.  Second half: NumPy's and the stdlib's global generators are put into the SAME state before every call; every
    64th call is preceded by a seeded call of the same entry point (an unseeded call must not continue a stream a seeded call
    left behind).  Infinite screens: n_ctor constructions, each followed by unseeded make_initial_screen() calls."""
    seen, dups, first = {}, 0, None
    inst, count = None, 0
    per_inst = max(1, n // max(1, n_ctor))
    for k in range(n):
        if k >= n // 2:
            numpy.random.seed(4321)
            pyrandom.seed(4321)
        if k % 64 == 0:
            ep_outputs(ep, par, 7, rows=0)
        if ep.startswith("finite"):
            a = ep_outputs(ep, par, None)[0]
        elif inst is None or count >= per_inst:
            inst, count = ep_make(ep, par, None), 1
            a = numpy.array(inst.scrn, copy=True)
        else:
            inst.make_initial_screen()
            count += 1
            a = numpy.array(inst.scrn, copy=True)
        b = a.tobytes()
        if b in seen:
            dups += 1
            first = first or (seen[b], k)
        else:
            seen[b] = k
    chk.count("unseeded-ensemble:%s" % ep, n)
    if dups:
        chk.fail("unseeded-equal:ensemble:%s" % ep, "among %d unseeded %s screens with the same parameters %d are bit-identical copies of an "
                 "earlier one (first: call %d and call %d)" % (n, ep, dups, first[0], first[1]),
                 {"entry": ep, "params": par, "n": n, "first_duplicate": list(first), "duplicates": dups,
                  "constructions": n_ctor if ep.startswith("infinite") else None})


# ---------------------------------------------------------------------------------------------------------------------
# round 5 (generator audit): JOB BATTERIES.  A job is one seeded use of an entry point, described by plain JSON so that it can be
# run in this process and in a new one: entry point, parameter values, the TYPE the parameters are passed in, the way the entry
# point is reached (module / package alias, keyword / positional seed, defaults, FFT object), the seed value and form, and the
# number of rows added.  A battery is run twice: LIVE in this process (jobs started in index order, all infinite screens of the
# battery alive at once, their add_row calls randomly interleaved with each other, with the finite calls and with unrelated
# activity; the global generators compared before/after every operation) and, each job on its own, in ANOTHER order (one-argument
# twins first, reversed) in a fresh interpreter.  Every job must give the same bits both times: state the library keeps between calls (a memo keyed without one
# argument or with a rounded one, a class-level buffer or pool, a fallback on a global generator) is filled by different
# neighbours in the two runs.
R5_ENTRY = {"finite:plain": "ft_phase_screen", "finite:sh": "ft_sh_phase_screen",
            "infinite:vk": "PhaseScreenVonKarman", "infinite:fried": "PhaseScreenKolmogorov"}
R5_FLOATS = {"finite": ("r0", "delta", "L0", "l0"), "infinite": ("px", "r0", "L0")}
# one argument far from the others (all run on the unchanged tree: finite results, no exception; the infinite screens keep to
# L0 / pixel <= 1e4 where the covariance matrix can still be factorised)
R5_EXTREME = {"finite": {"r0": [1e-3, 5.], "delta": [1e-3, 1., 10.], "L0": [1e3, 1e6, 1e9], "l0": [1e-10, 1e-6, 1.]},
              "infinite": {"r0": [0.01, 2.], "px": [0.01, 0.5], "L0": [1., 100.]}}


def f32(v):
    """the nearest single-precision value, as a Python float: the same VALUE can then be passed as float, numpy.float64 and numpy.float32"""
    return float(numpy.float32(v))


def typed(v, t, integer=False):
    """the value v (an integer, or a float that single precision represents exactly) held as the type class t"""
    if t == "np64":
        return numpy.int64(v) if integer else numpy.float64(v)
    if t == "np32":
        return numpy.int32(v) if integer else numpy.float32(v)
    if t == "small":
        return (numpy.uint8(v) if v < 256 else numpy.uint16(v)) if integer else numpy.float32(v)
    if t == "0d":
        return numpy.array(int(v) if integer else float(v))
    if t == "int" and not integer and float(v) == int(v):
        return int(v)                                   # an integer-valued length (L0 = 20) written without the decimal point
    return int(v) if integer else float(v)


def r5_seed(job):
    return None if job["seed"] is None else present(int(job["seed"]), job.get("form", "int"))


def r5_finite(job):
    import aotools
    from aotools.turbulence import phasescreen
    par, t, call = job["par"], job.get("ptype", "py"), job.get("call", "kw")
    f = getattr({"pkg": aotools, "turb": aotools.turbulence}.get(call, phasescreen), R5_ENTRY[job["ep"]])
    args = [typed(par["r0"], t), typed(par["N"], t, True), typed(par["delta"], t), typed(par["L0"], t), typed(par["l0"], t)]
    if call == "pos":
        return numpy.array(f(*(args + [None, r5_seed(job)])), copy=True)
    if call == "fft":
        return numpy.array(f(*args, FFT=numpy.fft.ifft2, seed=r5_seed(job)), copy=True)
    return numpy.array(f(*args, seed=r5_seed(job)), copy=True)


def r5_create(job):
    import aotools
    from aotools.turbulence import infinitephasescreen
    par, t, call = job["par"], job.get("ptype", "py"), job.get("call", "kw")
    cls = getattr({"pkg": aotools, "turb": aotools.turbulence}.get(call, infinitephasescreen), R5_ENTRY[job["ep"]])
    args = [typed(par["nx"], t, True), typed(par["px"], t), typed(par["r0"], t), typed(par["L0"], t)]
    kw, extra = ("n_columns", par["ncol"]) if job["ep"] == "infinite:vk" else ("stencil_length_factor", par["slf"])
    if call == "pos":
        return cls(*(args + [r5_seed(job), extra]))
    if call == "default":
        return cls(*args, random_seed=r5_seed(job))
    return cls(*args, random_seed=r5_seed(job), **{kw: extra})


def r5_digest(*arrays):
    import hashlib
    h = hashlib.sha256()
    for a in arrays:
        a = numpy.ascontiguousarray(a)
        h.update(str((a.shape, a.dtype.str)).encode())
        h.update(a.tobytes())
    return h.hexdigest()


def r5_step(s):
    """one add_row: what it returns and what .scrn shows afterwards"""
    r = s.add_row()
    return r5_digest(numpy.array(r, copy=True), numpy.array(s.scrn, copy=True))


def r5_sequential(jobs, order):
    """every job run to its end, one after the other in the given order; returns {job index: digests | {'error': ...}}"""
    res = {}
    for j in order:
        job = jobs[j]
        try:
            if job["ep"].startswith("finite"):
                res[j] = [r5_digest(r5_finite(job))]
            else:
                s = r5_create(job)
                res[j] = [r5_digest(numpy.array(s.scrn, copy=True))] + [r5_step(s) for _ in range(job.get("rows", 0))]
        except Exception as ex:
            res[j] = {"error": "%s: %s" % (type(ex).__name__, ex), "type": type(ex).__name__}
    return res


def r5_live(jobs, rng, touched):
    """jobs are STARTED in index order (a finite job is one call; an infinite one a construction) but the add_row calls of all
    infinite screens started so far are randomly interleaved with the starts, with each other and with unrelated activity / global
    re-seeding.  `touched` receives the indices of the seeded jobs during one of whose operations a global generator changed state"""
    res, inst, left = {}, {}, {}
    nxt, n = 0, 0
    while nxt < len(jobs) or left:
        n += 1
        if rng.random() < 0.15:
            perturb(rng, n)
        start = nxt < len(jobs) and (not left or rng.random() < 0.5)     # (starts outpace the rows: in the end most screens of the battery are alive)
        j = nxt if start else rng.choice(sorted(left))
        job = jobs[j]
        g0 = global_state()
        try:
            if not start:
                res[j].append(r5_step(inst[j]))
                left[j] -= 1
                if not left[j]:
                    del left[j], inst[j]
            elif job["ep"].startswith("finite"):
                res[j] = [r5_digest(r5_finite(job))]
            else:
                inst[j] = r5_create(job)
                res[j] = [r5_digest(numpy.array(inst[j].scrn, copy=True))]
                if job.get("rows", 0):
                    left[j] = job["rows"]
        except Exception as ex:
            res[j] = {"error": "%s: %s" % (type(ex).__name__, ex), "type": type(ex).__name__}
            left.pop(j, None)
        nxt += 1 if start else 0
        if job["seed"] is not None and j not in touched and global_state() != g0:
            touched.append(j)
    return res


def r5_fresh_start(jobs, order):
    """start a NEW interpreter that runs the battery sequentially in `order`"""
    import subprocess
    import sys
    code = ("import sys, json, numpy\n"
            "sys.path[:0] = %r\n"
            "from harness.props import c06\n"
            "jobs, order = json.loads(sys.stdin.read())\n"
            "numpy.random.seed(97)\n"
            "res = c06.r5_sequential(jobs, order)\n"
            "print('R5' + json.dumps({str(k): v for k, v in res.items()}))\n" % ([common.REPO, common.VERIF],))
    p = subprocess.Popen([sys.executable, "-W", "ignore", "-c", code], stdin=subprocess.PIPE, stdout=subprocess.PIPE, stderr=subprocess.PIPE,
                         text=True, env=dict(os.environ, PYTHONPATH=common.REPO + ":" + common.VERIF))
    p.stdin.write(json.dumps([jobs, order]))
    p.stdin.close()
    p.stdin = None
    return p


def r5_fresh_collect(p):
    out, err = p.communicate(timeout=3600)
    lines = [l for l in out.splitlines() if l.startswith("R5")]
    if p.returncode != 0 or not lines:
        raise RuntimeError("fresh-interpreter battery failed: " + err[-500:])
    return {int(k): v for k, v in json.loads(lines[-1][2:]).items()}


def r5_seed_value(rng):
    """a seed value and a form to hold it in (all sizes: small, 0, beyond 2^32, 2^53, 2^64)"""
    v = rng.choice([0, rng.randint(1, 1000), rng.randint(1, 1000), 2 ** 32 + rng.randint(0, 99), 2 ** 53 + rng.randint(0, 99),
                    2 ** 63 + rng.randint(0, 99), 2 ** 100 + rng.randint(0, 99)])
    return v, rng.choice([f for f in seed_forms(v) if f not in ("generator", "bool", "uint8")])


def r5_battery(rng, quick, huge=False):
    """the jobs of one battery (list of dicts).  Fields beyond the call itself: tag (input class, part of the failure keys), same_as
    (index of a job whose screens this one must reproduce bit for bit: the same values held as other types / reached another way),
    differs_from (index of a job with another seed: the screens must differ).  Quick tier: a random part of the classes per entry
    point (every class is reached over a few seeds); thorough: all of them"""
    jobs = []

    def add(ep, par, seed, tag, form="int", **kw):
        jobs.append(dict({"ep": ep, "par": dict(par), "seed": None if seed is None else str(seed), "form": form, "tag": tag}, **kw))
        return len(jobs) - 1

    def some(xs, k):
        return rng.sample(list(xs), k) if quick else list(xs)

    for ep in ("infinite:vk", "finite:plain", "infinite:fried", "finite:sh"):      # finite calls fall between the rows of live screens
        fin = ep.startswith("finite")
        floats = R5_FLOATS["finite" if fin else "infinite"]
        # parameter VALUES that single precision represents exactly (so that one value can be passed in several types)
        if fin:
            par = {"N": rng.choice([6, 8, 9, 12, 16]), "r0": f32(rng.choice([0.1, 0.15, 0.3])), "delta": f32(rng.choice([0.02, 0.05, 0.1])),
                   "L0": rng.choice([5., 20., 100.]), "l0": f32(rng.choice([0.001, 0.01]))}
            rows = 0
        else:
            par = {"nx": rng.choice([5, 6, 8, 9]), "px": f32(rng.choice([0.05, 0.1])), "r0": f32(rng.choice([0.1, 0.16])),
                   "L0": rng.choice([10., 25.]), "ncol": 2, "slf": 4}
            rows = rng.randint(3, 2 * par["nx"] + 2)
        seed, form = r5_seed_value(rng)
        base = add(ep, par, seed, "base", form, rows=rows)
        add(ep, par, seed + 1, "base", rows=rows, differs_from=base)
        # twins: ONE argument differs, by a relative 2^-30 (same single-precision value, same 8 printed digits) or by a factor
        for fld in floats:
            add(ep, dict(par, **{fld: par[fld] * (1 + 2. ** -30)}), seed, "twin-near:" + fld, form, rows=rows)
        for fld in rng.sample(floats, 2 if fin or not quick else 1):
            add(ep, dict(par, **{fld: par[fld] * rng.choice([0.5, 1.5, 2.])}), seed, "twin-far:" + fld, form, rows=rows)
        if fin:
            add(ep, dict(par, N=par["N"] + rng.choice([1, 2])), seed, "twin:N", form)
        else:
            for kind in some(["nx", "stencil", "class"], 1):
                if kind == "nx":
                    add(ep, dict(par, nx=par["nx"] + rng.choice([1, 2, 8])), seed, "twin:nx", form, rows=rows)
                elif kind == "stencil":
                    add(ep, dict(par, ncol=rng.choice([1, 3, 4]), slf=rng.choice([1, 2, 3, 5])), seed, "twin:stencil", form, rows=rows)
                else:
                    other = "infinite:fried" if ep == "infinite:vk" else "infinite:vk"
                    grid = par["nx"] if ep == "infinite:vk" else next(2 ** k + 1 for k in range(8) if 2 ** k + 1 >= par["nx"])
                    add(other, dict(par, nx=grid, slf=1), seed, "twin:class", form, rows=rows)       # the other class on the same grid
        # the smallest sizes; one argument at an extreme (but physical) magnitude
        add(ep, dict(par, **({"N": rng.choice([2, 3])} if fin else {"nx": rng.choice([2, 3]), "slf": rng.choice([1, 4])})), seed, "tiny", form,
            rows=0 if fin else 5)
        for fld in rng.sample(floats, 2 if fin else 1):
            v = rng.choice(R5_EXTREME["finite" if fin else "infinite"][fld])
            add(ep, dict(par, **{fld: v}), seed, "extreme:" + fld, form, rows=rows)
        # the same values held as other types; the same entry point reached another way
        for t in (["np64", "np32"] + [rng.choice(["small", "0d", "int"])]) if fin else some(["np64", "np32", "int"], 1):
            # the finite screens convert their arguments to plain Python numbers first: every type gives the screen of the
            # plain call.  The infinite classes keep what they are given: compared with itself only (both runs)
            add(ep, par, seed, "typed:" + t, form, rows=rows, ptype=t, **({"same_as": base} if fin else {}))
        for c in some(["pos", "pkg", "turb", "fft" if fin else "default"], 4 if fin else 2):
            add(ep, par, seed, "call:" + c, form, rows=rows, call=c, **({} if c in ("fft", "default") else {"same_as": base}))
        # sizes beyond every size the histories use (a second code path chosen by size would start somewhere)
        if fin:
            sizes = [rng.choice([64, 81, 100, 127]), rng.choice([128, 130, 255, 256, 257])] + ([] if quick else [rng.choice([384, 512, 513]), 1024])
        elif ep == "infinite:vk":
            sizes = [rng.choice([31, 32, 33, 40, 64])] + ([] if quick else [rng.choice([65, 96, 100]), 128])
        else:
            sizes = [rng.choice([17, 18, 30, 33])] + ([] if quick else [rng.choice([34, 60, 65])])
        if huge:                                        # (thorough tier, one battery) 2^22 / 2^16 / 2^14 elements
            sizes.append({"finite:plain": 2048, "finite:sh": 2048, "infinite:vk": 256, "infinite:fried": 129}[ep])
        for n in sizes:
            s2, f2 = r5_seed_value(rng)
            big = dict(par, **({"N": n} if fin else {"nx": n, "slf": rng.choice([2, 4])}))
            b = add(ep, big, s2, "large", f2, rows=0 if fin else n + 3)
            if fin or not quick:
                add(ep, big, s2 + 1, "large", rows=0 if fin else 2, differs_from=b)
        # more rows than any block / buffer / period is plausibly long
        if not fin:
            s3, f3 = r5_seed_value(rng)
            add(ep, dict(par, nx=rng.choice([4, 5, 6])), s3, "long-rows", f3, rows=rng.choice([150, 260, 300]) if quick else rng.choice([1100, 2100, 4200]))
    return jobs


def r5_run_battery(chk, jobs, label):
    rng = chk.rng
    n = len(jobs)
    # the fresh interpreter starts the one-argument twins BEFORE every job with the base parameters (here they come after the base
    # job), everything in reversed order: whatever a twin would inherit here from the base job, there the base job inherits from it
    order = sorted(range(n), key=lambda j: (not jobs[j]["tag"].startswith("twin"), -j))
    fresh = r5_fresh_start(jobs, order)                           # runs while this process does its own pass
    for job in jobs:
        chk.count("r5:%s:%s" % (job["ep"], job["tag"].split(":")[0]))
        chk.count("r5:seed-form:" + job["form"])
    touched = []
    numpy.random.seed(rng.randint(0, 10 ** 6))
    pyrandom.seed(rng.randint(0, 10 ** 6))
    d1 = r5_live(jobs, rng, touched)
    d2 = r5_fresh_collect(fresh)
    failed = set()

    def fail(key, what, j, **extra):
        if key not in failed:
            failed.add(key)
            chk.fail(key, what, dict({"battery": label, "job_index": j, "job": jobs[j]}, **extra))

    for j, job in enumerate(jobs):
        ep, tag = job["ep"], job["tag"]
        what = "%s [%s, seed %s as %s, parameters %s as %s, call %s]" % (ep, tag, job["seed"], job["form"], job["par"],
                                                                          job.get("ptype", "py"), job.get("call", "kw"))
        bad = [(w, d[j]) for w, d in (("live, this process", d1), ("fresh interpreter", d2)) if isinstance(d.get(j), dict)]
        if bad:
            fail("raises:r5:%s:%s:%s" % (ep, tag, bad[0][1]["type"]), "%s raised %s (%s)" % (what, bad[0][1]["error"], bad[0][0]), j)
            continue
        if j in touched:
            fail("global-touched:r5:%s:%s" % (ep, tag), "%s changed the state of NumPy's or the stdlib's GLOBAL generator" % what, j)
        if d1[j] != d2[j]:
            k = next((k for k, (x, y) in enumerate(zip(d1[j], d2[j])) if x != y), min(len(d1[j]), len(d2[j])))
            fail("isolation:r5:%s:%s" % (ep, tag), "%s gave different screens (a) in this process, started after the jobs before it in the battery "
                 "and interleaved with the other live screens and calls, and (b) on its own in a fresh interpreter that runs the battery in "
                 "reversed order: first difference at output %d of %d (0 = initial / finite screen, k = after the k-th add_row)"
                 % (what, k, len(d1[j])), j, jobs=jobs)
        k = job.get("same_as")
        if k is not None and not isinstance(d1.get(k), dict) and d1[j] != d1[k]:
            fail("repro:r5:%s:%s" % (ep, tag), "%s differs from the same seed and parameter values given as plain Python numbers through the "
                 "module-level name with a keyword seed (job %d)" % (what, k), j, other=jobs[k])
        k = job.get("differs_from")
        if k is not None and not isinstance(d1.get(k), dict) and d1[j][0] == d1[k][0]:
            fail("seeds-differ:r5:%s:%s" % (ep, tag), "%s is bit-identical to the screen of seed %s" % (what, jobs[k]["seed"]), j, other=jobs[k])
    return n


def r5_unseeded_large(chk, quick):
    """unseeded uses at sizes beyond those of the histories: three uses, NumPy's and the stdlib's global generators put into the SAME
    state before each, the third one right after a seeded use of the same entry point: all screens pairwise different"""
    rng = chk.rng
    for ep in ENTRY_POINTS:
        par = ep_params(rng, ep)
        if ep.startswith("finite"):
            par["N"] = rng.choice([100, 128, 256] if quick else [128, 256, 512, 1024])
        else:
            par["nx"] = rng.choice([20, 32, 33] if quick else [33, 64, 65, 100])
        gs = rng.randint(0, 2 ** 32 - 1)
        outs = []
        try:
            for k in range(3):
                numpy.random.seed(gs)
                pyrandom.seed(gs)
                if k == 2:
                    ep_outputs(ep, par, 5, rows=0)
                outs.append(ep_outputs(ep, par, None, rows=1))
        except Exception as ex:
            chk.fail("raises:r5:%s:unseeded-large:%s" % (ep, type(ex).__name__), "unseeded %s raised %r" % (ep, ex), {"entry": ep, "params": par})
            continue
        chk.count("r5:unseeded-large:" + ep)
        chk.case(("r5-unseeded-large", ep, json.dumps(par, sort_keys=True)))
        if any(outs[x][n].tobytes() == outs[y][n].tobytes() for x in range(3) for y in range(x + 1, 3) for n in range(len(outs[0]))):
            chk.fail("unseeded-equal:r5:large:%s" % ep, "two unseeded %s screens with the same parameters are bit-identical (global generators in "
                     "the same state before each)" % ep, {"entry": ep, "params": par, "global_seed": gs})


def r5_seed_object_reuse(chk, quick):
    """the caller keeps ONE seed object (SeedSequence, list, list of words, array) and passes it to two calls: same seed, same screens;
    and the same screens as the integer it stands for"""
    rng = chk.rng
    for ep in ENTRY_POINTS:
        for form in (rng.sample(["seedseq", "list", "words", "array"], 2) if quick and ep.startswith("infinite")
                     else ["seedseq", "list", "words", "array"]):
            par = ep_params(rng, ep)
            v = rng.choice([0, rng.randint(1, 10 ** 6), 2 ** 32 + rng.randint(0, 10 ** 6), 2 ** 63 + rng.randint(0, 10 ** 6)])
            obj = present(v, form)
            chk.count("r5:seed-object-reused:" + form)
            chk.case(("r5-seed-object-reuse", ep, form, str(v), json.dumps(par, sort_keys=True)))
            rep = {"entry": ep, "params": par, "seed": str(v), "form": form}
            try:
                a = ep_outputs(ep, par, obj)
                perturb(rng, v % 7)
                b = ep_outputs(ep, par, obj)
                c = ep_outputs(ep, par, int(v)) if numpy_stream(present(v, form)) == numpy_stream(int(v)) else a
            except Exception as ex:
                chk.fail("raises:r5:%s:seed-object-reused:%s" % (ep, type(ex).__name__), "%s raised %r for a %s seed" % (ep, ex, form), rep)
                continue
            if any(x.tobytes() != y.tobytes() for x, y in zip(a, b)):
                chk.fail("repro:r5:%s:seed-object-reused:%s" % (ep, form), "%s: ONE %s seed object (seed %d) passed to two calls gave different "
                         "screens" % (ep, form, v), rep)
            elif any(x.tobytes() != y.tobytes() for x, y in zip(a, c)):
                chk.fail("repro:r5:%s:seed-object-reused:%s" % (ep, form), "%s: the %s seed object of %d gave other screens than the integer seed %d"
                         % (ep, form, v, v), rep)


def r6_read_order(chk, quick):
    """WHEN the caller looks at the screen must not matter: two reproductions (same class, parameters, seed) of which one reads / prints
    the screen right after construction and between steps and the other does not touch `.scrn` before its first add_row (it uses the
    value add_row returns) — bit-identical after every step.  (Every other clause of this check records the screen right after
    construction, so an initial screen generated lazily on first access — after the first row's draws, seeded change C06-I — went unseen.)"""
    from aotools.turbulence import infinitephasescreen as ips
    rng = chk.rng
    for it in range(6 if quick else 30):
        vk = rng.random() < 0.6
        nx = rng.choice([5, 8, 9, 12]) if vk else rng.choice([5, 9, 8])
        par = dict(px=rng.choice([0.05, 0.1, 0.25]), r0=rng.choice([0.1, 0.16, 0.3]), L0=rng.choice([10., 25., 50.]))
        seed = rng.choice([0, 1, rng.randint(2, 10 ** 6), 2 ** 40 + rng.randint(0, 99)])
        steps = rng.randint(1, nx + 3)
        first_read = rng.randint(1, steps)                # the silent twin looks at `.scrn` for the first time after this step

        def make():
            if vk:
                return ips.PhaseScreenVonKarman(nx, par["px"], par["r0"], par["L0"], random_seed=seed, n_columns=2)
            return ips.PhaseScreenKolmogorov(nx, par["px"], par["r0"], par["L0"], random_seed=seed, stencil_length_factor=4)
        rep = {"class": "PhaseScreenVonKarman" if vk else "PhaseScreenKolmogorov", "nx": nx, "params": par, "seed": seed, "steps": steps,
               "first_read_of_silent_twin_after_step": first_read}
        chk.count("r6:read-order")
        chk.oracle_cases += 1
        chk.case(("r6-read-order", json.dumps(rep, sort_keys=True)))
        try:
            a = make()
            seen = [numpy.array(a.scrn, copy=True)]
            repr(a)
            for k in range(steps):
                a.add_row()
                str(a)
                seen.append(numpy.array(a.scrn, copy=True))
            b = make()
            silent = []
            for k in range(steps):
                r = b.add_row()
                silent.append(numpy.array(r if (k + 1 < first_read and r is not None) else b.scrn, copy=True))
        except Exception as ex:
            chk.fail("raises:r6:read-order:%s" % type(ex).__name__, "%s raised %r in a create / add_row history" % (rep["class"], ex), rep)
            continue
        for k in range(steps):
            if seen[k + 1].shape != silent[k].shape or seen[k + 1].tobytes() != silent[k].tobytes():
                chk.fail("repro:r6:read-order:%s" % rep["class"], "%s(nx=%d, seed=%d): the twin whose screen was read right after construction and "
                         "the twin that first looked at `.scrn` after step %d differ after step %d (max |difference| %.3g): reading the screen "
                         "changed what the seed produces" % (rep["class"], nx, seed, first_read, k + 1,
                                                             float(numpy.max(numpy.abs(seen[k + 1] - silent[k]))) if seen[k + 1].shape == silent[k].shape else float("nan")), rep)
                break


def r6_result_kept(chk, quick):
    """a screen the caller still HOLDS is not changed by the next screen of the same size (another seed, unseeded, the other function, another
    instance): sizes of 256 points across and more, where an implementation may keep a work array per shape (seeded change C06-K handed
    out that array itself for transforms of 256 x 256 elements or more: the held screen silently became the next one — caught in the
    thorough tier only, whose batteries reach those sizes)."""
    from aotools.turbulence import phasescreen as ps, infinitephasescreen as ips
    rng = chk.rng
    for N in ([256, rng.choice([260, 300, 320])] if quick else [256, 257, 260, 300, 320, 384, 512]):
        r0, delta, L0, l0 = rng.choice([0.1, 0.16]), rng.choice([0.02, 0.05]), rng.choice([20., 50.]), 0.01
        s1, s2 = rng.randint(0, 10 ** 6), rng.randint(0, 10 ** 6)
        rep = {"N": N, "r0": r0, "delta": delta, "L0": L0, "l0": l0, "seeds": [s1, s2]}
        chk.count("r6:result-kept:finite")
        chk.oracle_cases += 1
        chk.case(("r6-result-kept", "finite", N, s1, s2))
        for first, name in ((ps.ft_phase_screen, "ft_phase_screen"), (ps.ft_sh_phase_screen, "ft_sh_phase_screen")):
            try:
                a = first(r0, N, delta, L0, l0, seed=s1)
                keep = numpy.array(a, copy=True)
                others = [ps.ft_phase_screen(r0 * 1.5, N, delta, L0, l0, seed=s2), ps.ft_sh_phase_screen(r0, N, delta, L0, l0, seed=s2),
                          ps.ft_phase_screen(r0, N, delta, L0, l0)]
            except Exception as ex:
                chk.fail("raises:r6:result-kept:%s" % type(ex).__name__, "%s raised %r at N=%d" % (name, ex, N), rep)
                break
            if not numpy.array_equal(numpy.asarray(a), keep) or any(numpy.shares_memory(numpy.asarray(a), numpy.asarray(o)) for o in others):
                chk.fail("repro:r6:result-kept:%s" % name, "%s(r0=%r, N=%d, delta=%r, L0=%r, l0=%r, seed=%d): the screen the caller holds changed (or "
                         "shares memory with a later result) after three more screens of the same size were made" % (name, r0, N, delta, L0, l0, s1), rep)
                break
    # infinite screens: the Fried variant at nx = 65 transforms a 260 x 260 initial screen
    for cls, nx in ((ips.PhaseScreenKolmogorov, 65),) if quick else ((ips.PhaseScreenKolmogorov, 65), (ips.PhaseScreenVonKarman, 256)):
        s1, s2 = rng.randint(0, 10 ** 6), rng.randint(0, 10 ** 6)
        rep = {"class": cls.__name__, "nx": nx, "seeds": [s1, s2]}
        chk.count("r6:result-kept:infinite")
        chk.oracle_cases += 1
        chk.case(("r6-result-kept", cls.__name__, nx, s1, s2))
        try:
            a = cls(nx, 0.05, 0.16, 25., random_seed=s1)
            solo = cls(nx, 0.05, 0.16, 25., random_seed=s1)
            solo.add_row(); solo.add_row()
            want = numpy.array(solo.scrn, copy=True)
            a2 = cls(nx, 0.05, 0.16, 25., random_seed=s1)     # same seed: built, then ANOTHER instance of the same size before its first row
            b = cls(nx, 0.05, 0.2, 25., random_seed=s2)
            a2.add_row(); b.add_row(); a2.add_row()
            got = numpy.array(a2.scrn, copy=True)
        except Exception as ex:
            chk.fail("raises:r6:result-kept:%s" % type(ex).__name__, "%s(nx=%d) raised %r" % (cls.__name__, nx, ex), rep)
            continue
        if got.shape != want.shape or got.tobytes() != want.tobytes():
            chk.fail("repro:r6:result-kept:%s" % cls.__name__, "%s(nx=%d, seed=%d): creating another instance of the same size (seed %d) between "
                     "construction and the first add_row changed the screen (max |difference| %.3g after two rows)"
                     % (cls.__name__, nx, s1, s2, float(numpy.max(numpy.abs(got - want))) if got.shape == want.shape else float("nan")), rep)


def r5_caller_mutation(chk, quick):
    """the caller changes a returned screen IN PLACE (scrn *= wavelength / 2 pi; scrn[:] = 0) and then asks for the same seed and
    parameters again (finite: the same call; infinite: a new instance): the new screen is the one of the first call"""
    rng = chk.rng
    for ep in ENTRY_POINTS:
        par = ep_params(rng, ep)
        v = rng.choice([0, rng.randint(1, 10 ** 6), 2 ** 40 + rng.randint(0, 99)])
        chk.count("r5:caller-mutation:" + ep)
        chk.case(("r5-caller-mutation", ep, str(v), json.dumps(par, sort_keys=True)))
        rep = {"entry": ep, "params": par, "seed": str(v)}
        try:
            if ep.startswith("finite"):
                f = R5_ENTRY[ep]
                from aotools.turbulence import phasescreen
                a = getattr(phasescreen, f)(par["r0"], par["N"], par["delta"], par["L0"], par["l0"], seed=v)
                first = [numpy.array(a, copy=True)]
                if a.flags.writeable:
                    a *= 0.5
                    a[0, :] = 7.
                second = ep_outputs(ep, par, v)
            else:
                x = ep_make(ep, par, v)
                a0 = x.scrn                                  # the caller keeps the initial screen it was given ...
                first = [numpy.array(a0, copy=True)]
                r = x.add_row()
                first.append(numpy.array(x.scrn, copy=True))
                for a in (a0, r, x.scrn):                    # ... and overwrites it, and the current one, afterwards
                    if a.flags.writeable:
                        a[...] = 0.
                second = ep_outputs(ep, par, v, rows=1)
        except Exception as ex:
            chk.fail("raises:r5:%s:caller-mutation:%s" % (ep, type(ex).__name__), "%s raised %r" % (ep, ex), rep)
            continue
        if any(p.shape != q.shape or p.tobytes() != q.tobytes() for p, q in zip(first, second)):
            chk.fail("repro:r5:%s:caller-mutation" % ep, "%s: after the caller changed the returned screen in place, the same seed %d and parameters "
                     "gave another screen than the first time" % (ep, v), rep)


def r5_forked_unseeded(chk, quick):
    """schedules with worker processes: three children forked from this process (which has used every entry point) each make
    unseeded screens: plain and sub-harmonic finite screens and an unseeded make_initial_screen() of infinite screens built
    (unseeded) by the parent.  The screens of different children must differ.  (The children only run code that stays in the
    calling thread; trouble with the fork itself is recorded as a note, never as a violation.)"""
    import select
    import time
    rng = chk.rng
    pars = {ep: ep_params(rng, ep) for ep in ENTRY_POINTS}
    try:
        inst = {ep: ep_make(ep, pars[ep], None) for ep in ENTRY_POINTS if ep.startswith("infinite")}
        for ep in ENTRY_POINTS:
            if ep.startswith("finite"):
                ep_outputs(ep, pars[ep], None)
    except Exception as ex:
        chk.fail("raises:r5:forked-unseeded:%s" % type(ex).__name__, "unseeded use raised %r" % (ex,), {"params": pars})
        return
    kids = []
    for k in range(3):
        r, w = os.pipe()
        pid = os.fork()
        if pid == 0:
            try:
                os.close(r)
                out = {}
                for ep in ENTRY_POINTS:
                    if ep.startswith("finite"):
                        out[ep] = r5_digest(ep_outputs(ep, pars[ep], None)[0])
                    else:
                        inst[ep].make_initial_screen()
                        out[ep] = r5_digest(numpy.array(inst[ep].scrn, copy=True))
                os.write(w, json.dumps(out).encode())
            except BaseException as ex:
                try:
                    os.write(w, json.dumps({"error": repr(ex)}).encode())
                except BaseException:
                    pass
            finally:
                os._exit(0)
        os.close(w)
        kids.append((pid, r))
    got = []
    for pid, r in kids:
        data, t_end = b"", time.time() + 60
        while time.time() < t_end:
            if select.select([r], [], [], 1.0)[0]:
                chunk = os.read(r, 65536)
                if not chunk:
                    break
                data += chunk
        else:
            try:
                os.kill(pid, 9)
            except OSError:
                pass
        os.close(r)
        try:
            os.waitpid(pid, 0)
        except OSError:
            pass
        try:
            got.append(json.loads(data.decode()))
        except Exception:
            got.append({"error": "no answer from the forked child"})
    if any("error" in g for g in got):
        chk.notes.append("C06 forked-unseeded: a forked child did not answer (%s); class skipped" % [g.get("error") for g in got if "error" in g][:1])
        chk.count("r5:forked-unseeded:skipped")
        return
    for ep in ENTRY_POINTS:
        chk.count("r5:forked-unseeded:" + ep)
        chk.case(("r5-forked-unseeded", ep, json.dumps(pars[ep], sort_keys=True)))
        if len({g[ep] for g in got}) < len(got):
            chk.fail("unseeded-equal:r5:forked:%s" % ep, "unseeded %s screens made in different worker processes forked from one parent are "
                     "bit-identical" % ep, {"entry": ep, "params": pars[ep], "children": len(got)})


def model_line(cfgs, ops):
    toks = []
    for op in ops:
        k = op["op"]
        if k in ("create", "reinit"):
            # an unseeded instance is seeded from fresh entropy: a seed value nobody else has.  A second make_initial_screen()
            # re-derives the generator from the stored seed argument: the model's `create` on an existing instance
            c = cfgs[op["i"]]
            if k == "reinit" and c.get("seed_kind") == "generator":
                # default_rng(<Generator>) is that Generator: the stored object goes on, it is not re-seeded
                toks.append("a:%d:1" % op["i"])
                continue
            toks.append("c:%d:%d:1" % (op["i"], 900000 + 7 * len(toks) if c.get("seed_kind") == "none" else c["seed"]))
        elif k in ("addRow", "getRow"):
            toks.append("a:%d:1" % op["i"])
        elif k == "read":
            toks.append("r:%d" % op["i"])
        elif k == "finite":
            toks.append("f:%d:1" % op["seed"])
        elif k == "globalSeed":
            toks.append("gs:%d" % op["s"])
        elif k == "globalDraw":
            toks.append("gd:1")
        else:
            toks.append("o")
    return "C06 hist %d %s" % (len(cfgs), " ".join(toks))


def run(chk):
    quick = chk.tier == "quick"
    chk.rule = ("generated histories over 2-4 infinite screens (von Karman and Fried variants, some sharing seed and parameters; seed given as "
                "int of several types, private Generator, SeedSequence, or not at all), re-created instance ids, a second make_initial_screen(), "
                "bare get_new_row(), finite screens (N in 4..32, varied r0/delta/L0/l0, int/Generator/SeedSequence seeds), numpy/stdlib global "
                "seeding, global draws (numpy.random and optimal_grouping) and unrelated calls; plus plans in which two infinite screens, two "
                "finite screens and the caller share ONE Generator (outputs must depend on the order of operations on it alone); unseeded "
                "infinite screens must differ from each other with the global generators in the same state; "
                "correspondence = touch set per operation (which generators changed state) model vs real; oracle = bitwise equality of "
                "each instance's outputs with its isolated replay, of reproductions with each other, of seeded finite screens; "
                "distinct = distinct (configuration, operation list); seed values: per entry point (plain / sub-harmonic finite screen, von Karman / "
                "Fried infinite screen incl. two added rows) the boundary values 0, 1, 2, 2^8, 2^31, 2^32, 2^53, 2^63, 2^64, 2^100, 2^128 (+-1/2), two "
                "consecutive nanosecond time stamps and, for random bit lengths up to 1100, a value, its successor and the value with one bit "
                "flipped, each as Python int and in other forms (bool, NumPy integer scalars, one-element array, list, list of 32-bit words, "
                "SeedSequence, private Generator), evaluated in random order with unrelated activity in between: seed objects that NumPy starts "
                "in the same generator state must give bit-identical screens, all others different ones (all pairs); unseeded ensembles: 3000 / "
                "1500 / 2000 / 2000 unseeded screens per entry point with equal parameters (10x in the thorough tier), all pairwise different; "
                "job batteries (round 5): per entry point a base job, the next seed, one-argument twins (relative 2^-30 / a factor; N / nx, stencil, "
                "other class), the same values as numpy.float64 / float32 / integer / 0-d / small-integer types, package-level aliases, positional "
                "seed, defaults, FFT object, large sizes (finite N 64..257, thorough ..1024; von Karman nx 31..64, thorough ..128 and 256; Fried nx 17..33, "
                "thorough ..65 and 129; finite 2048 once; nx+3 rows), 150-300 (thorough 1100-4200) added rows; seeds of all size classes and forms; run live-interleaved in this "
                "process (global generators compared around every operation) and in reversed order in a fresh interpreter: bit-identical; unseeded "
                "uses at large sizes with the global generators in the same state differ; one SeedSequence / list / array seed OBJECT passed to "
                "two calls gives the same screens; the smallest sizes (N, nx in 2, 3) and one argument at an extreme magnitude; a returned screen "
                "overwritten in place by the caller does not change what the same seed gives next; unseeded screens made in three forked worker "
                "processes differ")
    chk.assumptions = ["'different seeds give different screens' and 'unseeded calls differ from each other' are sampled, not proved "
                       "(PCG64 / SeedSequence injectivity, OS entropy)",
                       "which seed objects denote the same seed is taken from NumPy: those that numpy.random.default_rng starts in the same generator "
                       "state (0 = numpy.uint8(0) = False = [0] = SeedSequence(0); 2^32 = [0, 1]); any two in different states count as different seeds",
                       "a bit-identical pair among n unseeded screens is reported as a violation: with the 128 bits of OS entropy default_rng() takes, "
                       "its probability on correct code is below n^2 * 2^-129 (< 1e-29 for n = 30000)",
                       "numpy.random.default_rng(seed) / Generator.normal are deterministic functions of seed / state",
                       "'same parameters' for the FINITE screens means the same values: r0, delta, L0, l0 given as float / numpy.float64 / numpy.float32 / "
                       "0-d array / (integer-valued) int and N as int / NumPy integer give the screen of the plain Python numbers (the functions convert "
                       "their arguments first); for the infinite classes a typed call is only compared with itself",
                       "the NumPy / SciPy / numba kernels used by the library give the same bits in two interpreters on this machine (sizes up to "
                       "2048^2 finite, 256 infinite); observed on the unchanged tree",
                       "forked children of this process only run code that stays in the calling thread (finite screens, make_initial_screen); if a "
                       "forked child does not answer the class is skipped with a note",
                       "the touch sets are observed through the instance's numpy Generator attribute (`_R`, or the single Generator found among "
                       "the instance attributes if it is renamed); if none can be found this is reported as broken correspondence, not as a violation",
                       "the Lean model has integer seeds only: an unseeded instance is modelled as seeded with a value nobody else uses, a private "
                       "Generator / SeedSequence built from s as the seed s, a second make_initial_screen() as `create` (as `addRow` when the stored seed is a "
                       "Generator object, which goes on instead of being re-seeded), get_new_row() as `addRow`; a "
                       "caller-SHARED Generator is outside the model (oracle only: bitwise equality under interleaved unrelated activity)"]
    try:
        src, meta = T2.translate(common.REPO)
        checks = meta.pop("__checks__")
        from ..translate_formulas import write_if_changed
        write_if_changed(os.path.join(common.LEAN_DIR, "AoVerif/Gen/Effects.lean"), src)
        write_if_changed(os.path.join(common.LEAN_DIR, "AoVerif/Gen/EffectsChecks.lean"), checks)
    except Exception as ex:
        chk.broke("translator", "T2 cannot translate the current source: %r" % (ex,))
    chk.build_and_audit("AoVerif.Props.C06", "AoVerif.Props.C06", REQUIRED)
    n_hist = 20 if quick else 200
    lines, observed, cases = [], [], []
    fresh_budget = [4 if quick else 40]
    fresh_pending = []
    observable = [True]
    for h in range(n_hist):
        cfgs, ops = gen_history(chk.rng, quick, force_twin=(h < 4), force_kind={1: "none", 2: "generator", 3: "seedseq", 5: "none"}.get(h % 8))
        chk.case(("hist", json.dumps(cfgs, sort_keys=True), json.dumps(ops, sort_keys=True)),
                 sample={"configs": cfgs, "ops": ops[:8]} if h < 2 else None)
        for o in ops:
            chk.count("op:" + o["op"])
        gseed = chk.rng.randint(0, 10 ** 6)
        numpy.random.seed(gseed)
        try:
            try:
                outs, fin, touch = execute(cfgs, ops, observe=observable[0])
            except GeneratorNotFound as ex:
                # HOW the library stores its per-instance generator is not part of the property
                chk.broke("correspondence", "cannot observe which generators an operation touches: %s" % ex)
                observable[0] = False
                numpy.random.seed(gseed)
                outs, fin, touch = execute(cfgs, ops, observe=False)
        except Exception as ex:
            chk.fail("raises:%s" % type(ex).__name__, "history raised %r" % (ex,), {"configs": cfgs, "ops": ops})
            continue
        if observable[0]:
            lines.append(model_line(cfgs, ops))
            observed.append(touch)
            cases.append((cfgs, ops))
        chk.oracle_cases += 1
        # isolation: each instance alone, in a differently perturbed world
        for i, cfg in enumerate(cfgs):
            proj = [o for o in ops if o.get("i") == i and o["op"] in OWN_OPS]
            chk.count("seed-kind:" + cfg["seed_kind"])
            if cfg["seed_kind"] == "none":
                # unseeded: nothing to reproduce; two constructions must differ, in particular when NumPy's and the stdlib's global
                # generators are in the SAME state both times (an unseeded screen must not fall back on a global generator)
                numpy.random.seed(gseed)
                pyrandom.seed(gseed)
                solo, _, _ = execute(cfgs, proj[:1], observe=False)
                numpy.random.seed(gseed)
                pyrandom.seed(gseed)
                solo2, _, _ = execute(cfgs, proj[:1], observe=False)
                chk.count("unseeded-infinite-pairs")
                firsts = [outs[i][0], solo[i][0], solo2[i][0]]
                if any(firsts[x].tobytes() == firsts[y].tobytes() for x in range(3) for y in range(x + 1, 3)):
                    chk.fail("unseeded-equal:infinite", "two unseeded %s screens with the same parameters are identical (same state of the "
                             "global generators)" % cfg["variant"], {"configs": cfgs, "instance": i, "global_seed": gseed})
                if any(not numpy.isfinite(x).all() for x in outs.get(i, [])):
                    chk.fail("nonfinite:%s" % cfg["variant"], "instance %d produced non-finite values" % i, {"configs": cfgs, "ops": ops})
                continue
            numpy.random.seed(gseed + 17 + i)
            numpy.random.normal(size=3)
            solo, _, _ = execute(cfgs, proj, observe=False)
            a, b = outs.get(i, []), solo.get(i, [])
            same = len(a) == len(b) and all(x.shape == y.shape and x.tobytes() == y.tobytes() for x, y in zip(a, b))
            if not same:
                chk.fail("isolation:%s" % cfg["variant"], "instance %d (%s, seed %d) produced different screens when other operations were "
                         "interleaved than when run alone" % (i, cfg["variant"], cfg["seed"]), {"configs": cfgs, "ops": ops, "instance": i})
            if any(not numpy.isfinite(x).all() for x in a):
                chk.fail("nonfinite:%s" % cfg["variant"], "instance %d produced non-finite values" % i, {"configs": cfgs, "ops": ops})
        # ... and, for a few instances per run, alone in a fresh interpreter (state kept by the library inside this process,
        # e.g. a cache shared between instances, is invisible to an in-process replay)
        if fresh_budget[0] > 0:
            import hashlib
            cand = [i for i in range(len(cfgs)) if any(j != i and {k: v for k, v in cfgs[j].items() if k not in ("r0", "seed", "seed_type")}
                                                        == {k: v for k, v in cfgs[i].items() if k not in ("r0", "seed", "seed_type")}
                                                        for j in range(i))] or list(range(len(cfgs)))
            cand = [i for i in cand if cfgs[i]["seed_kind"] != "none"] or [i for i in range(len(cfgs)) if cfgs[i]["seed_kind"] != "none"]
            i = cand[-1] if cand else None
            fresh_budget[0] -= 1 if cand else 0
            proj = [o for o in ops if o.get("i") == i and o["op"] in OWN_OPS]
            if cand:
                # started now, compared after the last history (the new interpreters run while this process goes on)
                chk.count("fresh-interpreter-replays")
                mine = [hashlib.sha256(numpy.ascontiguousarray(a).tobytes()).hexdigest() for a in outs.get(i, [])]
                fresh_pending.append((solo_in_fresh_interpreter(cfgs, proj, i, wait=False), mine, cfgs, ops, i))
        # reproductions: instances with identical configuration and identical own operation sequence
        for i in range(len(cfgs)):
            for j in range(i + 1, len(cfgs)):
                pi = [o["op"] for o in ops if o.get("i") == i and o["op"] in OWN_OPS]
                pj = [o["op"] for o in ops if o.get("i") == j and o["op"] in OWN_OPS]
                n = min(len(pi), len(pj))
                if cfgs[i]["seed_kind"] == "none" or cfgs[j]["seed_kind"] == "none":
                    if canon(cfgs[i]) == canon(cfgs[j]) and outs[i][0].tobytes() == outs[j][0].tobytes():
                        chk.fail("unseeded-equal:infinite", "two unseeded %s screens with the same parameters are identical" % cfgs[i]["variant"],
                                 {"configs": cfgs, "pair": [i, j]})
                    continue
                # a second make_initial_screen() re-derives the generator from the stored seed argument: an int / SeedSequence
                # restarts the stream, a Generator object goes on — reproductions across these two forms part ways there
                if "reinit" in pi[:n] and (cfgs[i]["seed_kind"] == "generator") != (cfgs[j]["seed_kind"] == "generator"):
                    n = pi.index("reinit")
                if canon(cfgs[i]) == canon(cfgs[j]) and pi[:n] == pj[:n]:
                    chk.count("reproduction-pairs")
                    for x, y in zip(outs[i][:n], outs[j][:n]):
                        if x.tobytes() != y.tobytes():
                            chk.fail("repro:infinite:%s" % cfgs[i]["variant"], "two %s screens with the same seed %d and parameters differ"
                                     % (cfgs[i]["variant"], cfgs[i]["seed"]), {"configs": cfgs, "ops": ops, "pair": [i, j]})
                            break
                elif cfgs[i]["seed"] != cfgs[j]["seed"] and {k: v for k, v in canon(cfgs[i]).items() if k != "seed"} == \
                        {k: v for k, v in canon(cfgs[j]).items() if k != "seed"}:
                    if outs[i][0].tobytes() == outs[j][0].tobytes():
                        chk.fail("seeds-differ:infinite", "different seeds gave identical infinite screens", {"configs": cfgs})
        # finite screens: same call => bit-identical, wherever it occurs
        seen = {}
        for key, val in fin:
            if key in seen and seen[key].tobytes() != val.tobytes():
                k = json.loads(key)
                chk.fail("repro:finite:%s" % ("sh" if k["sh"] else "plain"), "finite screen with seed %d differs between two calls in one history"
                         % k["seed"], {"call": k, "configs": cfgs, "ops": ops})
            seen[key] = val
        for key, val in fin:
            k = json.loads(key)
            numpy.random.seed(4242)
            ref = finite_call(k)
            if ref.tobytes() != val.tobytes():
                chk.fail("repro:finite:%s" % ("sh" if k["sh"] else "plain"), "finite screen with seed %d differs from the same call in a fresh "
                         "context" % k["seed"], {"call": k, "configs": cfgs, "ops": ops})
            for st in ("int", "int64", "uint32"):
                if k.get("seed_type") != "big" and finite_call(dict(k, seed_type=st)).tobytes() != val.tobytes():
                    chk.fail("repro:finite:seed-type", "finite screen with seed %d held as %s differs from the same seed value held as another "
                             "integer type" % (k["seed"], st), {"call": k, "seed_type": st})
            k2 = dict(k, seed=k["seed"] + 1)
            if finite_call(k2).tobytes() == val.tobytes():
                chk.fail("seeds-differ:finite", "finite screens with seeds %d and %d are identical" % (k["seed"], k["seed"] + 1), {"call": k})
    for proc, mine, cfgs, ops, i in fresh_pending:
        if solo_collect(proc) != mine:
            chk.fail("isolation:fresh-process:%s" % cfgs[i]["variant"], "instance %d (%s, seed %d, r0 %g) produced different screens in this "
                     "history than when run alone in a fresh interpreter" % (i, cfgs[i]["variant"], cfgs[i]["seed"], cfgs[i]["r0"]),
                     {"configs": cfgs, "ops": ops, "instance": i})
    # caller-shared Generator: the outputs are a function of the order of the operations on that generator alone
    for k in range(3 if quick else 30):
        plan = shared_generator_scenario(chk.rng, quick)
        chk.oracle_cases += 1
        chk.count("shared-generator-plans")
        chk.case(("shared", json.dumps(plan, sort_keys=True)), sample=plan if k == 0 else None)
        try:
            runs = [run_shared(plan, w) for w in (0, 1, 2)]
        except Exception as ex:
            chk.fail("raises:shared-generator:%s" % type(ex).__name__, "shared-generator plan raised %r" % (ex,), plan)
            continue
        for w in (1, 2):
            for n, (x, y) in enumerate(zip(runs[0], runs[w])):
                if x.shape != y.shape or x.tobytes() != y.tobytes():
                    chk.fail("isolation:shared-generator", "with a caller-shared Generator (seed %d) step %d (%s) gave a different result when "
                             "unrelated library calls / global seeding / other instances were interleaved" % (plan["seed"], n, plan["steps"][n]),
                             dict(plan, world=w, step=n))
                    break
        # the first consumer of a fresh default_rng(s) sees the stream of the int seed s
        c0 = dict(plan["cfgs"][0], seed=plan["seed"], seed_type="int", seed_kind="int")
        if mk_screen(c0).scrn.tobytes() != runs[0][0].tobytes():
            chk.fail("repro:generator-seed", "an infinite screen given default_rng(%d) differs from the one given the int seed %d"
                     % (plan["seed"], plan["seed"]), dict(plan))
    # unseeded calls differ from each other (sampled clause)
    for sh in (False, True):
        k = {"sh": sh, "seed": None, "N": 8, "r0": .15, "delta": .05, "L0": 20., "l0": .01}
        if finite_call(k).tobytes() == finite_call(k).tobytes():
            chk.fail("unseeded-equal:finite", "two unseeded finite screens are identical", {"call": k})
    # seed values: boundary values of the seed domain, neighbouring large seeds, one value in every form (round 4)
    for ep in ENTRY_POINTS:
        for k in range(1 if quick else (5 if ep.startswith("finite") else 3)):
            par = ep_params(chk.rng, ep)
            values = battery_values(chk.rng, quick)
            chk.oracle_cases += 1
            chk.case(("seed-battery", ep, json.dumps(par, sort_keys=True), [str(v) for v in values]),
                     sample={"entry": ep, "params": par, "seeds": [str(v) for v in values[:6]] + ["..."] + [str(v) for v in values[-3:]]}
                     if ep == "infinite:vk" and k == 0 else None)
            seed_value_battery(chk, ep, par, values, all_forms=(not quick) or ep.startswith("finite"))
    # unseeded ensembles: all pairwise different (round 4)
    for ep, nq, nt in (("finite:plain", 3000, 30000), ("finite:sh", 1500, 10000), ("infinite:vk", 2000, 20000), ("infinite:fried", 2000, 20000)):
        par = ep_params(chk.rng, ep)
        if ep.startswith("finite"):
            par["N"] = 4
        else:
            par["nx"] = 4
        chk.oracle_cases += 1
        chk.case(("unseeded-ensemble", ep, json.dumps(par, sort_keys=True)))
        try:
            unseeded_ensemble(chk, ep, par, nq if quick else nt, 25 if quick else 200)
        except Exception as ex:
            chk.fail("raises:unseeded-ensemble:%s:%s" % (ep, type(ex).__name__), "unseeded %s raised %r" % (ep, ex), {"entry": ep, "params": par})
    # round 5: job batteries (sizes, row counts, argument types, aliases, one-argument twins) run in order, live-interleaved and in
    # reversed order in a fresh interpreter; unseeded uses at large sizes; one seed object passed to two calls
    for k in range(1 if quick else 4):
        jobs = r5_battery(chk.rng, quick, huge=(not quick and k == 0))
        chk.oracle_cases += 1
        for j, job in enumerate(jobs):
            chk.case(("r5-job", json.dumps(job, sort_keys=True)), sample=job if (k == 0 and job["tag"] == "large" and j % 2 == 0) else None)
        r5_run_battery(chk, jobs, k)
    r5_unseeded_large(chk, quick)
    r5_seed_object_reuse(chk, quick)
    r5_caller_mutation(chk, quick)
    r5_forked_unseeded(chk, quick)
    r6_read_order(chk, quick)
    r6_result_kept(chk, quick)
    # correspondence of the touch sets
    try:
        ans = common.run_driver(lines, "C06")
        for a, obs, (cfgs, ops) in zip(ans, observed, cases):
            chk.corr_cases += 1
            if a == "bad-op":
                chk.broke("correspondence", "driver rejected a history")
                continue
            model = [t.split("/")[0] for t in a.split()]
            if model != obs:
                bad = [(n, o["op"], m, r) for n, (o, m, r) in enumerate(zip(ops, model, obs)) if m != r]
                chk.broke("correspondence", "generators touched differ from the model at (index, op, model, real) %s" % bad[:4],
                          json.dumps({"configs": cfgs, "ops": ops}))
    except common.LeanError as ex:
        chk.broke("correspondence", "driver failed", str(ex))
