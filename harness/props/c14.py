"""C14 — pupil masks and sub-aperture selection are exact geometric indicators."""
import itertools
import math
from fractions import Fraction as Fr

import numpy

from .. import common

MANIFEST = {
    "text": "Lean 4 theorems over an arbitrary linearly ordered field (hence Q and R) about a hand-written model that mirrors the "
            "code's own arithmetic: circle is the 0/1 indicator of pixel centres (k+1/2) within distance r of the centre for both "
            "origins (squared form for every field, Euclidean-distance form over R for r>=0), nested in r, invariant under the eight "
            "symmetries of the square when centred, equivariant under integer shifts of the centre, and its area is sandwiched "
            "pi(r-1/sqrt2)^2 <= area <= pi(r+1/sqrt2)^2 (Lebesgue measure, disc inside the array) so area/(pi r^2) -> 1; "
            "findActiveSubaps returns, in row-major order, exactly the non-empty grid cells whose mean (a Finset sum over the cell "
            "divided by its size) is >= the threshold, the cells (bounds = nearest integers, ties to even) tile the mask, the result "
            "shrinks (as a sublist) when the threshold grows, its fill factors equal computeFillFactor on the returned coordinates "
            "(in particular when the sub-aperture count divides the mask size, where cells are exact blocks); make_subaps_2d "
            "followed by reading back through the mask is the identity for every mask and payload type (induction over the mask), "
            "with the initial value everywhere else, the map having the payload type of the DATA whatever the type of the mask; "
            "a cell whose mean EQUALS the threshold is selected, and in exact arithmetic mean >= t is the same test as "
            "sum >= t*size (mean_ge_iff_sum_ge) - at binary64 it is not, which the harness exercises.  The model is tied to the source by a "
            "bit-exact correspondence (same definitions run at IEEE binary64 by the Lean driver vs the real code, incl. every 0/1 mask up "
            "to 3x3 / 4x4, masks of every dtype (float64/float32/uint8/bool/int, non-contiguous views), thresholds equal to the fill "
            "k/N of an existing cell with N = 9, 25, 36, 49, 100) and a direct exact-rational oracle on the real code supplies "
            "failing inputs.",
    "note": "Trusted: Lean kernel + propext/Classical.choice/Quot.sound; Mathlib's ordered-field, floor, Real.sqrt and Lebesgue-measure "
            "definitions; the hand-written model Model/Pupil.lean (checked against the real code on every run, exactly: every model "
            "operation is a single IEEE operation in both worlds); NumPy slicing/boolean-indexing/mean semantics are mirrored and "
            "exercised, not proved.  Theorems are exact-arithmetic statements: at binary64 they apply verbatim whenever the "
            "arithmetic is exact (dyadic r, c; sub-aperture count dividing the mask size).",
    "technique": "Lean 4 proof over a hand-written model + exact (bit-level) correspondence with the implementation + oracle search",
}
REQUIRED = ["circle_is_indicator_sq", "circle_is_indicator", "circle_zero_or_one", "circle_nested", "circle_mono", "circle_symm",
            "circle_translate", "circle_origin",
            "active_iff_mean_ge", "active_iff_mean_ge'", "findActive_cells", "active_antitone", "cell_mean_is_mean",
            "bound_is_nearest", "cells_partition", "cells_nonempty", "cells_of_dvd", "fill_agree_field", "fill_agree", "fill_of_dvd",
            "scatter_gather_id", "scatter_gather_id_list", "scatter_counter", "scatter_at", "scatter_off_mask",
            "circleArea_eq_card", "circle_area_le", "circle_area_ge", "circle_area_tendsto",
            "fill_is_mean_ge", "active_of_mean_eq", "not_active_of_mean_lt", "mean_ge_iff_sum_ge", "cell_mean_of_indicator",
            "scatter_gather_id_mask", "scatter_gather_id_comp"]

H = common.f2h


# ----------------------------------------------------------------------------------------------- generators
def dy(rng, lo, hi, bits):
    return common.dyadic(rng, lo, hi, bits)


TRIPLES = [(3, 4, 5), (4, 3, 5), (6, 8, 10), (5, 12, 13), (12, 5, 13), (8, 15, 17), (0, 1, 1), (1, 0, 1), (0, 3, 3), (7, 24, 25)]


def gen_circle(rng, nmax):
    """(class, r, n, cx, cy, origin) — r >= 0; the dyadic classes are exact in binary64"""
    n = rng.randint(1, nmax)
    origin = rng.choice(["middle", "corner"])
    cls = rng.choice(["dyadic", "dyadic", "tie", "tie", "float", "edge", "rzero", "int", "centred", "large", "bigtie", "huge", "sqrt-tie", "sqrt-tie"])
    half = n / 2.0
    base = 0.0 if origin == "middle" else half          # centre of the array in the coordinates of `origin`
    if cls == "dyadic":
        bits = rng.choice([1, 2, 3])
        r, cx, cy = dy(rng, 0, n, bits), base + dy(rng, -half - 1, half + 1, bits), base + dy(rng, -half - 1, half + 1, bits)
    elif cls == "tie":
        # choose a pixel and a scaled Pythagorean triple: the pixel centre is at distance exactly r from the centre
        a, b, c = rng.choice(TRIPLES)
        s = rng.choice([0.25, 0.5, 1.0])
        i, j = rng.randrange(n), rng.randrange(n)
        sx, sy = rng.choice([-1, 1]), rng.choice([-1, 1])
        # pixel centre (j+.5, i+.5) in corner coordinates; centre = pixel - (sx*a*s, sy*b*s)
        ccx, ccy = j + 0.5 - sx * a * s, i + 0.5 - sy * b * s
        r = c * s
        cx, cy = (ccx - half, ccy - half) if origin == "middle" else (ccx, ccy)
    elif cls == "sqrt-tie":
        # round 6 — IRRATIONAL razor-edge radii: r = sqrt(a² + b²) rounded to a double, or one of its two neighbours, for a pixel centre at the
        # half-integer (or integer) offset (a, b) from a dyadic centre.  The coordinates and squared distances are exact in binary64, so the
        # exact indicator is decidable and demanded (no tolerance): r*r and hypot(x, y) are each one rounding away from deciding it wrongly
        # (fixed defect bdc31f8: r = fl(sqrt(18.5)) is below the root and r*r rounds up to 18.5; seeded change C14-K: hypot(x, y) <= r)
        i, j = rng.randrange(n), rng.randrange(n)
        cx, cy = base + rng.choice([0.0, 0.0, 0.5, -0.5, 1.0]), base + rng.choice([0.0, 0.0, 0.5, -0.5])
        ax = j + 0.5 - (cx + (half if origin == "middle" else 0.0))
        ay = i + 0.5 - (cy + (half if origin == "middle" else 0.0))
        r = math.sqrt(ax * ax + ay * ay)
        r = float(rng.choice([r, r, numpy.nextafter(r, 0.0), numpy.nextafter(r, 1e9)]))
    elif cls == "float":
        r, cx, cy = rng.uniform(0, n), base + rng.uniform(-half - 1, half + 1), base + rng.uniform(-half - 1, half + 1)
    elif cls == "edge":                                # centre on the boundary / in a corner of the array
        cx = base + rng.choice([-half, half, 0.0])
        cy = base + rng.choice([-half, half])
        r = dy(rng, 0, n, 1)
    elif cls == "rzero":                               # r = 0: a single pixel iff the centre is a pixel centre
        i, j = rng.randrange(n), rng.randrange(n)
        off = rng.choice([0.0, 0.0, 0.5])
        cx, cy = j + 0.5 + off - (half if origin == "middle" else 0), i + 0.5 - (half if origin == "middle" else 0)
        r = 0.0
    elif cls == "int":
        r, cx, cy = rng.randint(0, n), int(base) + rng.randint(-2, 2), int(base) + rng.randint(-2, 2)
    elif cls == "large":
        # centre far outside the array (2^10 … 2^20 pixels away), radius of the same size so that the boundary crosses the array;
        # half-integer data: every product has at most 44 significant bits, the arithmetic is still exact in binary64
        m = float(2 ** rng.randint(10, 20))
        ax = rng.choice(["x", "y", "xy"])
        cx = base + (rng.choice([-m, m]) if "x" in ax else 0.0) + dy(rng, -half, half, 1)
        cy = base + (rng.choice([-m, m]) if "y" in ax else 0.0) + dy(rng, -half, half, 1)
        r = max(0.0, (m if ax != "xy" else float(math.isqrt(int(2 * m * m)))) + dy(rng, -n, n, 1))
    elif cls == "bigtie":
        # a pixel centre at distance EXACTLY r from a far-away centre: Pythagorean triple scaled by 2^8 … 2^18
        a, b, c = rng.choice(TRIPLES)
        s = float(2 ** rng.randint(8, 18))
        i, j = rng.randrange(n), rng.randrange(n)
        sx, sy = rng.choice([-1, 1]), rng.choice([-1, 1])
        ccx, ccy = j + 0.5 - sx * a * s, i + 0.5 - sy * b * s
        r = c * s
        cx, cy = (ccx - half, ccy - half) if origin == "middle" else (ccx, ccy)
    elif cls == "huge":
        # astronomically large radius and/or centre (squares overflow to +inf, or are ~1e300): compared like the arbitrary doubles
        k = rng.choice(["r", "r", "c", "both"])
        if k == "r":
            r, cx, cy = rng.choice([1e300, 1.5e160, 3e154, 1e30]), base + dy(rng, -half, half, 2), base + dy(rng, -half, half, 2)
        elif k == "c":
            r = dy(rng, 0, n, 2)
            cx, cy = base + rng.choice([-1e300, 1e300, 2e155, 1e30]), base + rng.choice([0.0, -1e300, 1e200, 1e30])
        else:
            m = rng.choice([1e150, 1e100, 1e20, 1e9])
            r, cx, cy = m * rng.uniform(0.5, 2), base + m * rng.uniform(-1, 1), base + m * rng.uniform(-1, 1)
    else:                                              # centred
        r, cx, cy = dy(rng, 0, n, 2), base, base
    return cls, r, n, cx, cy, origin


def exact_circle(r, n, cx, cy, origin):
    """the property's own definition, in exact rational arithmetic: (mask, margin) where margin[i,j] = d² - r²"""
    R, CX, CY = Fr(r), Fr(cx), Fr(cy)
    if origin == "middle":
        CX, CY = CX + Fr(n, 2), CY + Fr(n, 2)
    out = numpy.zeros((n, n))
    marg = [[None] * n for _ in range(n)]
    for i in range(n):
        for j in range(n):
            d2 = (Fr(2 * j + 1, 2) - CX) ** 2 + (Fr(2 * i + 1, 2) - CY) ** 2
            marg[i][j] = d2 - R * R
            out[i, j] = 1.0 if d2 <= R * R else 0.0
    return out, marg


VIEWS = ["transposed", "every-other", "reversed", "fortran", "offset-window", "readonly"]


def as_view(rng, m):
    """the same values as a NON-CONTIGUOUS array (a view into a larger / differently ordered buffer)"""
    how = rng.choice(VIEWS)
    n0, n1 = m.shape
    if how == "transposed":
        v = numpy.ascontiguousarray(m.T).T
    elif how == "every-other":
        big = numpy.full((2 * n0, 3 * n1), 7, dtype=m.dtype)
        big[::2, ::3] = m
        v = big[::2, ::3]
    elif how == "reversed":
        v = numpy.ascontiguousarray(m[::-1, ::-1])[::-1, ::-1]
    elif how == "fortran":
        v = numpy.asfortranarray(m)
    elif how == "readonly":                                    # e.g. a memory-mapped / shared pupil mask
        v = numpy.array(m, copy=True)
        v.setflags(write=False)
    else:
        big = numpy.full((n0 + 3, n1 + 2), 7, dtype=m.dtype)
        big[2:2 + n0, 1:1 + n1] = m
        v = big[2:2 + n0, 1:1 + n1]
    assert numpy.array_equal(v, m) and v.dtype == m.dtype
    return how, v


MASK_KINDS = ["circle", "circle", "bits", "bits", "dyadic", "ring", "ones", "int", "bool", "f32", "u8", "f32dy", "intcircle", "view", "view"]


def gen_mask(rng, n0, n1, nondyadic=False):
    """(kind, mask).  All kinds but `nondy` hold multiples of 1/8 in [0, 1]: every partial sum is then exact in binary64 whatever the
    order of summation (pairwise in ndarray.mean, left-to-right in the model), so the cell mean is ONE correctly rounded division.
    `nondy` (oracle only, compared with a tolerance) holds arbitrary values of [0, 1] such as 0.1, 0.3, 0.7."""
    from aotools.functions.pupil import circle
    kind = rng.choice(MASK_KINDS + (["nondy", "nondy", "nondy"] if nondyadic else []))
    p = rng.choice([0.2, 0.5, 0.8])
    bits = lambda: numpy.array([[1.0 if rng.random() < p else 0.0 for _ in range(n1)] for _ in range(n0)])
    circ = lambda: circle(dy(rng, 0, n0 * 0.75, 2), n0, (dy(rng, -1, 1, 1), dy(rng, -1, 1, 1)))
    if kind == "circle" and n0 == n1:
        m = circ()
    elif kind == "ring" and n0 == n1:
        m = circle(n0 / 2.0, n0) - circle(n0 / 8.0, n0)
    elif kind == "dyadic":
        m = numpy.array([[rng.randint(0, 8) / 8.0 for _ in range(n1)] for _ in range(n0)])
    elif kind == "ones":
        m = numpy.ones((n0, n1))
    elif kind == "int":
        m = bits().astype(int)
    elif kind == "intcircle" and n0 == n1:
        m = circ().astype(int)
    elif kind == "bool":
        m = bits().astype(bool)
    elif kind == "u8":
        m = bits().astype(numpy.uint8)
    elif kind == "f32":
        m = (circ() if (n0 == n1 and rng.random() < 0.5) else bits()).astype(numpy.float32)
    elif kind == "f32dy":
        m = numpy.array([[rng.randint(0, 8) / 8.0 for _ in range(n1)] for _ in range(n0)], dtype=numpy.float32)
    elif kind == "view":
        base = (circ() if (n0 == n1 and rng.random() < 0.5) else bits()).astype(rng.choice([float, float, numpy.float32, bool, numpy.uint8]))
        how, m = as_view(rng, base)
        kind = "view:" + how
    elif kind == "nondy":
        pal = rng.choice([[0.0, 1.0, 0.1, 0.3, 0.7], [0.0, 0.9, 1.0, 1.0 / 3], None])
        m = numpy.array([[(rng.choice(pal) if pal else rng.random()) for _ in range(n1)] for _ in range(n0)])
        if rng.random() < 0.3:
            m = m.astype(numpy.float32)
    else:
        kind = "bits"
        m = bits()
    return kind, m


def exact_sums(mask):
    """True when every value is a multiple of 1/8 of magnitude ≤ 8: all partial sums of a cell are then exact in binary64"""
    v = numpy.asarray(mask, dtype=float)
    return bool(numpy.all(numpy.isfinite(v)) and numpy.all(v * 8 == numpy.round(v * 8)) and numpy.all(numpy.abs(v) <= 8))


def exact_means(mask, cells):
    """the exact rational mean of every grid cell"""
    return {xy: sum(Fr(float(mask[p, q])) for p, q in px) / len(px) for xy, px in cells.items()}


def block_cells(subaps, n0, n1):
    """the grid cells when the sub-aperture count divides both mask sizes: the exact (n0/subaps)×(n1/subaps) blocks"""
    a, b = n0 // subaps, n1 // subaps
    return {(x, y): [(p, q) for p in range(x * a, (x + 1) * a) for q in range(y * b, (y + 1) * b)]
            for x in range(subaps) for y in range(subaps)}


def wrap_threshold(rng, thr):
    """the same number as the different scalar types a caller passes: Python float, numpy.float64 (NOT a weak scalar under NEP 50:
    a float32 mean is then compared in double precision), numpy.float32 / int when it is exactly representable"""
    opts = ["float", "float", "f64", "f64"]
    if float(numpy.float32(thr)) == thr:
        opts.append("f32")
    if thr in (0.0, 1.0):
        opts.append("int")
    k = rng.choice(opts)
    return k, {"float": float, "f64": numpy.float64, "f32": numpy.float32, "int": int}[k](thr)


def gen_threshold(rng, mask, subaps, fills=None):
    """dyadic thresholds, thresholds equal to a value some cell mean can take, and — given the exact fills of the cells of THIS mask —
    thresholds equal to the fill k/N of an existing cell (tie mean == threshold, N any cell size) or its two binary64 neighbours"""
    k = rng.choice(["dyadic", "tie", "zero", "one", "big"] + (["cellfill", "cellfill", "cellfill", "cellfill+", "cellfill-"] if fills else ["tie"]))
    if k == "dyadic":
        return k, dy(rng, 0, 1, 4)
    if k == "zero":
        return k, 0.0
    if k == "one":
        return k, 1.0
    if k == "big":
        return k, 1.5
    if k.startswith("cellfill"):
        f = float(rng.choice(sorted(set(fills))))
        if k == "cellfill+":
            f = math.nextafter(f, 2.0)
        elif k == "cellfill-" and f > 0:
            f = math.nextafter(f, -1.0)
        return k, f
    n0, n1 = mask.shape
    a, b = max(1, round(n0 / subaps)), max(1, round(n1 / subaps))
    cnt = a * b
    return k, float(numpy.float64(rng.randint(0, cnt)) / numpy.float64(cnt))   # a value sum/count takes exactly


def ulps(a, b):
    """distance of two finite doubles in units in the last place of the larger"""
    a, b = float(a), float(b)
    if a == b:
        return 0.0
    return abs(a - b) / math.ulp(max(abs(a), abs(b)))


def mask_wire(mask):
    return " ".join(H(float(v)) for v in numpy.asarray(mask, dtype=float).ravel())


# ----------------------------------------------------------------------------------------------- correspondence
class Raised:
    """the real function wrapped so that an exception becomes a value (the model is total on the domain, so this never matches)"""

    def __init__(self, fn):
        self.fn = fn

    def __call__(self, *a, **k):
        try:
            return self.fn(*a, **k)
        except Exception as ex:                             # noqa: BLE001
            raise ImplRaised("%s raised %s: %s" % (getattr(self.fn, "__name__", "?"), type(ex).__name__, ex))


class ImplRaised(Exception):
    pass


class CorrGuard:
    """the implementation raising on an in-domain correspondence input is a disagreement with the (total) model"""

    def __init__(self, chk):
        self.chk = chk

    def __enter__(self):
        return self

    def __exit__(self, et, ev, tb):
        if et is not None and issubclass(et, ImplRaised):
            if sum(1 for b in self.chk.broken if b["kind"] == "correspondence") < 5:
                self.chk.broke("correspondence", "implementation raised where the model answers: %s" % ev)
            return True
        return False


def correspondence(chk, quick):
    from aotools.functions import pupil
    from aotools.wfs import wfslib as wfslib_
    import aotools
    rng = chk.rng
    lines, expect, descr = [], [], []
    circle = Raised(pupil.circle)

    class wfslib:
        findActiveSubaps = Raised(wfslib_.findActiveSubaps)
        computeFillFactor = Raised(wfslib_.computeFillFactor)
        make_subaps_2d = Raised(wfslib_.make_subaps_2d)

    def add(line, exp, d):
        lines.append(line); expect.append(exp); descr.append(d)

    # circle: model at Float vs real code, bit for bit (all classes, including arbitrary doubles)
    for it in range(600 if quick else 4000):
        with CorrGuard(chk):
            cls, r, n, cx, cy, origin = gen_circle(rng, 12 if quick else 24)
            fn = circle if it % 2 else Raised(aotools.circle)
            got = fn(r, n, (cx, cy), origin) if not (origin == "middle" and it % 7 == 0 and cx == 0 and cy == 0) else fn(r, n)
            ok_form = isinstance(got, numpy.ndarray) and got.shape == (n, n) and got.dtype == numpy.float64 \
                and bool(numpy.isin(got, (0.0, 1.0)).all())
            exp = "".join("1" if v == 1.0 else "0" for v in got.ravel()) if ok_form else "malformed:%r" % (getattr(got, "shape", None),)
            add("C14 circle %s %d %s %s %d" % (H(r), n, H(cx), H(cy), 1 if origin == "middle" else 0), exp,
                ("circle", cls, origin, n % 2, repr((r, n, cx, cy))))
            chk.count("corr:circle:%s:%s:%s" % (cls, origin, "odd" if n % 2 else "even"))
    # rounding: numpy.round and Python round against the model's roundHE
    xs = [k + 0.5 for k in range(0, 40)] + [k / 4.0 for k in range(0, 60)]
    xs += [rng.uniform(0, 1000) for _ in range(300 if quick else 3000)]
    xs += [math.nextafter(k + 0.5, d) for k in range(0, 12) for d in (0.0, 1e9)]
    for x in xs:
        a, b = int(numpy.round(x)), int(round(x))
        add("C14 round %s" % H(x), "%d" % a if a == b else "numpy.round=%d != round=%d" % (a, b), ("round", repr(x)))
        chk.count("corr:round")
    # slice bounds of findActiveSubaps, as the code computes them
    for n in range(1, 14 if quick else 40):
        for subaps in range(1, n + 3):
            sp = n / float(subaps)
            add("C14 bounds %d %d" % (subaps, n), " ".join(str(int(numpy.round(x * sp))) for x in range(subaps + 1)),
                ("bounds", subaps, n))
            chk.count("corr:bounds:%s" % ("dvd" if n % subaps == 0 else "ndvd"))
    # findActiveSubaps (returnFill) and computeFillFactor
    def fills_of(mask, subaps):
        """exact fills (correctly rounded quotients) of the non-empty cells, bounds as the code computes them"""
        n0, n1 = mask.shape
        bx = [int(numpy.round(x * (n0 / float(subaps)))) for x in range(subaps + 1)]
        by = [int(numpy.round(y * (n1 / float(subaps)))) for y in range(subaps + 1)]
        out = []
        for x in range(subaps):
            for y in range(subaps):
                sub = numpy.asarray(mask, dtype=float)[bx[x]:bx[x + 1], by[y]:by[y + 1]]
                if sub.size:
                    out.append(float(sum(Fr(float(v)) for v in sub.ravel()) / sub.size))
        return out

    def active_case(subaps, mask, kind, tk, thr):
        n0, n1 = mask.shape
        wk, wthr = wrap_threshold(rng, thr)
        with numpy.errstate(all="ignore"):
            coords, fills = wfslib.findActiveSubaps(subaps, mask, wthr, returnFill=True)
            coords2 = wfslib.findActiveSubaps(subaps, mask, wthr)
        s0, s1 = n0 / float(subaps), n1 / float(subaps)
        items = []
        same = numpy.array_equal(coords, coords2) and len(coords) == len(fills)
        for (cx, cy), f in zip(numpy.asarray(coords).reshape(-1, 2), fills):
            x = [k for k in range(subaps) if k * s0 == cx]
            y = [k for k in range(subaps) if k * s1 == cy]
            items.append("%s %s %s %s %s" % (x[0] if len(x) == 1 else "?", y[0] if len(y) == 1 else "?", H(cx), H(cy), H(float(f))))
        exp = " | ".join([str(len(items))] + items) if same else "returnFill changes the coordinates"
        add("C14 active %d %d %d %s %s" % (subaps, n0, n1, H(thr), mask_wire(mask)), exp,
            ("active", kind, tk, wk, subaps, n0, n1, repr(thr), mask_wire(mask)[:200]))
        chk.count("corr:active:%s:%s:%s" % (kind, tk, "dvd" if n0 % subaps == 0 and n1 % subaps == 0 else "ndvd"))
        chk.count("corr:active:threshold-type:%s" % wk)
        if n0 == n1 and len(items):
            with numpy.errstate(all="ignore"):
                ff = wfslib.computeFillFactor(mask, coords, s0)
            add("C14 fill %d %d %s %d %s %s" % (n0, n1, H(s0), len(coords), " ".join(H(v) for v in coords.ravel()), mask_wire(mask)),
                " ".join(H(float(v)) for v in ff), ("fill", kind, subaps, n0, mask_wire(mask)[:200]))
            chk.count("corr:fill:%s" % ("dvd" if n0 % subaps == 0 else "ndvd"))

    for it in range(400 if quick else 3000):
        with CorrGuard(chk):
            n0 = rng.randint(1, 10 if quick else 16)
            n1 = n0 if rng.random() < 0.7 else rng.randint(1, 10)
            subaps = rng.choice([d for d in range(1, n0 + 1) if n0 % d == 0]) if rng.random() < 0.5 else rng.randint(1, n0 + 2)
            kind, mask = gen_mask(rng, n0, n1)
            tk, thr = gen_threshold(rng, mask, subaps, fills_of(mask, subaps))
            active_case(subaps, mask, kind, tk, thr)
    # ties mean == threshold on cells whose size is NOT a power of two (5×5, 10×10, 6×6, 7×7, 3×3 …): the mean k/N is a rounded
    # quotient there, and `mean ≥ threshold` is no longer the same binary64 test as `sum ≥ threshold·N`
    tie_shapes = [(5, 1), (10, 2), (10, 1), (12, 2), (14, 2), (7, 1), (20, 2), (15, 3), (9, 3), (6, 1)]
    for (n, subaps) in tie_shapes:
        for it in range(6 if quick else 40):
            with CorrGuard(chk):
                kind, mask = gen_mask(rng, n, n)
                fl = fills_of(mask, subaps)
                tk, thr = rng.choice([("cellfill", float(rng.choice(fl))), ("cellfill", float(rng.choice(fl))),
                                      ("cellfill+", math.nextafter(float(rng.choice(fl)), 2.0)),
                                      ("cellfill-", math.nextafter(float(rng.choice(fl)), -1.0))])
                active_case(subaps, mask, kind, tk + ":cell%d" % ((n // subaps) ** 2), thr)
    # every 0/1 mask up to 3×3 (quick) / 4×4 (thorough), every sub-aperture count 1..n+1, thresholds cycling through a ladder that
    # contains every value a cell mean can take (ties) and dyadic values in between
    for n in ([1, 2, 3] if quick else [1, 2, 3, 4]):
        ladder = sorted({float(Fr(k, c)) for c in range(1, n * n + 1) for k in range(c + 1) if c <= 4 or c == n * n} | {0.3, 0.625, 9 / 8.})
        for subaps in range(1, n + 2):
            for bits in range(2 ** (n * n)):
                with CorrGuard(chk):
                    mask = numpy.array([[float((bits >> (i * n + j)) & 1) for j in range(n)] for i in range(n)])
                    for rep_ in range(2 if n < 4 else 1):
                        thr = ladder[(bits * 7 + subaps * 3 + rep_ * 5) % len(ladder)]
                        with numpy.errstate(all="ignore"):
                            coords, fills = wfslib.findActiveSubaps(subaps, mask, thr, returnFill=True)
                        sp = n / float(subaps)
                        lk = {k * sp: k for k in range(subaps)}
                        items = ["%s %s %s %s %s" % (lk.get(float(a), "?"), lk.get(float(b), "?"), H(a), H(b), H(f))
                                 for (a, b), f in zip(numpy.asarray(coords).reshape(-1, 2), fills)]
                        add("C14 activeb %d %d %s %d" % (subaps, n, H(thr), bits), " | ".join([str(len(items))] + items),
                            ("activeb", subaps, n, repr(thr), bits))
            chk.count("corr:exhaustive-masks:n%d:subaps%d" % (n, subaps))
    # make_subaps_2d: one line per (frame, component) slab
    for it in range(120 if quick else 800):
        with CorrGuard(chk):
            nx = rng.randint(1, 6)
            mdt = rng.choice(["int", "int", "bool", "uint8", "float32", "float64"])
            vals = {"int": [0, 1, 1, 2], "bool": [0, 1, 1], "uint8": [0, 1, 1, 2], "float32": [0, 1, 1, 0.5], "float64": [0, 1, 1, 0.5, 2]}[mdt]
            flags = [[rng.choice(vals) if rng.random() < 0.9 else 0 for _ in range(nx)] for _ in range(nx)]
            mask = numpy.array(flags, dtype={"int": int, "bool": bool, "uint8": numpy.uint8, "float32": numpy.float32, "float64": float}[mdt])
            if rng.random() < 0.25:
                mask = as_view(rng, mask)[1]
            nv = int((mask == 1).sum())
            extra = rng.choice([0, 0, 1])                       # more data than valid positions: the surplus is ignored
            frames = rng.randint(1, 3)
            data = numpy.array([[[rng.randint(-99, 99) for _ in range(nv + extra)] for _ in range(2)] for _ in range(frames)],
                               dtype=int).reshape(frames, 2, nv + extra)
            out = wfslib.make_subaps_2d(data, mask)
            for f in range(frames):
                for c in range(2):
                    exp = "%s | %s | %d" % (" ".join(str(int(v)) for v in out[f, c].ravel()),
                                            " ".join(str(int(v)) for v in out[f, c][mask == 1]), nv)
                    add("C14 scatter %d %s %s" % (nx, " ".join(str(1 if v == 1 else 0) for v in mask.ravel()),
                                                  " ".join(str(int(v)) for v in data[f, c])), exp.replace("  ", " "),
                        ("scatter", nx, mdt, str(flags), f, c))
            chk.count("corr:scatter:nx%d" % nx)
            chk.count("corr:scatter:mask-%s" % mdt)
    # malformed lines: the driver must refuse, never default
    for bad in ("C14 circle 3ff0000000000000 5", "C14 active 0 2 2 3ff0000000000000 0 0 0 0", "C14 nosuch", "C14 round 12"):
        add(bad, "bad-op", ("malformed", bad))
    ans = common.run_driver(lines, "C14")
    nbad = 0
    for line, a, e, d in zip(lines, ans, expect, descr):
        chk.corr_cases += 1
        chk.case(("corr",) + tuple(d), sample={"op": line[:160], "impl": e[:160]} if chk.corr_cases % 97 == 1 else None)
        if " ".join(a.split()) != " ".join(e.split()):
            nbad += 1
            if nbad <= 5:
                chk.broke("correspondence", "model (Float) and implementation disagree on `%s`" % line[:300],
                          "model: %s\nimpl : %s" % (a[:1500], e[:1500]))
    return nbad


# ----------------------------------------------------------------------------------------------- oracle
class Guard:
    """an exception raised by the real code on an input of the property's domain is a failure of the property on that input
    (recorded with the inputs noted so far in `g`), not an infrastructure error"""

    def __init__(self, chk, section):
        self.chk, self.section, self.info = chk, section, {}

    def __enter__(self):
        return self.info

    def __exit__(self, et, ev, tb):
        if et is None or not issubclass(et, Exception) or issubclass(et, (common.LeanError, AssertionError)):
            return False
        import traceback
        frames = [f for f in traceback.extract_tb(tb) if "/aotools/" in f.filename]
        if not frames:
            return False                                    # a bug of this harness: let it surface as exit 2
        where = frames[-1]
        self.chk.fail("%s:raises:%s" % (self.section, et.__name__),
                      "%s: the library raised %s(%s) at %s:%d on an in-domain input %s"
                      % (self.section, et.__name__, ev, where.filename.split("/")[-1], where.lineno, str(self.info)[:300]), dict(self.info))
        return True


def cell_indices(coords, subaps, n0, n1):
    """grid indices (x, y) of returned coordinate rows [x*xSpacing, y*ySpacing]; None for a row that is no such pair"""
    s0, s1 = n0 / float(subaps), n1 / float(subaps)
    lx = {x * s0: x for x in range(subaps)}
    ly = {y * s1: y for y in range(subaps)}
    return [(lx[float(a)], ly[float(b)]) if (float(a) in lx and float(b) in ly) else None
            for a, b in numpy.asarray(coords, dtype=float).reshape(-1, 2)]


def cells_by_probing(wfslib, subaps, n0, n1):
    """recover, from the REAL findActiveSubaps alone, which grid cell(s) every pixel belongs to: a one-hot mask with a tiny positive
    threshold activates exactly the cells containing the hot pixel.  Returns dict pixel -> list of (x, y, fill)."""
    owner = {}
    for p in range(n0):
        for q in range(n1):
            m = numpy.zeros((n0, n1))
            m[p, q] = 1.0
            with numpy.errstate(all="ignore"):
                coords, fills = wfslib.findActiveSubaps(subaps, m, 2.0 ** -40, returnFill=True)
            idx = cell_indices(coords, subaps, n0, n1)
            owner[(p, q)] = [(xy, float(f)) for xy, f in zip(idx, fills)]
    return owner


def _flt(x):
    """float(x) for messages; exact rationals beyond the binary64 range print as ±inf instead of raising"""
    try:
        return float(x)
    except OverflowError:
        return float("inf") if x > 0 else float("-inf")


def oracle(chk, quick):
    from aotools.functions.pupil import circle
    from aotools.wfs import wfslib
    rng = chk.rng

    def bad(key, what, **replay):
        chk.fail(key, what, replay)

    # ---- circle: exact indicator, nesting, symmetry, translation
    for it in range(800 if quick else 6000):
        with Guard(chk, 'circle') as g:
            cls, r, n, cx, cy, origin = gen_circle(rng, 14 if quick else 40)
            chk.oracle_cases += 1
            chk.count("oracle:circle:%s:%s:%s" % (cls, origin, "odd" if n % 2 else "even"))
            chk.case(("oracle", "circle", cls, origin, repr((r, n, cx, cy))),
                     sample={"circle": [r, n, [cx, cy], origin]} if it < 2 else None)
            rep = dict(radius=r, size=n, circle_centre=[cx, cy], origin=origin)
            g.update(rep)
            got = circle(r, n, (cx, cy), origin)
            if got.shape != (n, n) or not numpy.isin(got, (0.0, 1.0)).all():
                bad("circle:values", "circle(%r,%d,(%r,%r),%r) is not an n×n array of zeros and ones" % (r, n, cx, cy, origin), **rep)
                continue
            want, marg = exact_circle(r, n, cx, cy, origin)
            for i in range(n):
                for j in range(n):
                    if got[i, j] != want[i, j]:
                        mg = marg[i][j]
                        if cls in ("float", "huge") and abs(mg) <= Fr(1, 10 ** 9) * max(1, Fr(r) ** 2, Fr(cx) ** 2, Fr(cy) ** 2):
                            continue                          # binary64 rounding may decide a near-tie either way
                        bad("circle:indicator:%s%s" % (origin, ":tie" if mg == 0 else ""),
                            "circle(%r,%d,(%r,%r),%r)[%d,%d]=%g but the pixel centre (%s,%s) is at squared distance r²%+g from the centre"
                            % (r, n, cx, cy, origin, i, j, got[i, j], j + .5, i + .5, _flt(mg)), pixel=[i, j], **rep)
                        break
                else:
                    continue
                break
            # nested in r
            r2 = r + dy(rng, 0, 3, 3) if cls not in ("float", "huge") else r + rng.uniform(0, 3) * rng.choice([1.0, max(r, 1.0) * 2.0 ** -40])
            big = circle(r2, n, (cx, cy), origin)
            if (got > big).any():
                i, j = map(int, numpy.argwhere(got > big)[0])
                bad("circle:nested", "circle(%r)⊄circle(%r) at [%d,%d] (n=%d, c=(%r,%r), %s)" % (r, r2, i, j, n, cx, cy, origin),
                    radius2=r2, pixel=[i, j], **rep)
            # eight symmetries when centred
            if cls == "centred":
                cen = circle(r, n) if origin == "middle" else got
                imgs = {"transpose": cen.T, "flipud": cen[::-1], "fliplr": cen[:, ::-1], "rot180": cen[::-1, ::-1],
                        "rot90": numpy.rot90(cen), "rot270": numpy.rot90(cen, 3), "antitranspose": cen[::-1, ::-1].T}
                for nm, im in imgs.items():
                    if not numpy.array_equal(im, cen):
                        bad("circle:symmetry:" + nm, "centred circle(%r,%d) differs from its %s" % (r, n, nm), **rep)
                        break
            # integer translation of the centre moves the pattern
            if cls not in ("float", "huge"):
                a, b = rng.randint(-3, 3), rng.randint(-3, 3)
                sh = circle(r, n, (cx + a, cy + b), origin)
                # sh[i+b, j+a] == got[i, j] wherever both are inside the array
                i0, i1 = max(0, -b), min(n, n - b)
                j0, j1 = max(0, -a), min(n, n - a)
                if i0 < i1 and j0 < j1 and not numpy.array_equal(sh[i0 + b:i1 + b, j0 + a:j1 + a], got[i0:i1, j0:j1]):
                    bad("circle:translate", "shifting the centre of circle(%r,%d,(%r,%r),%s) by (%d,%d) does not shift the pattern"
                        % (r, n, cx, cy, origin, a, b), shift=[a, b], **rep)
    # ---- area → π r²: the sandwich of theorems circle_area_le / circle_area_ge, on the real code, for discs inside the array
    for it in range(12 if quick else 120):
        with Guard(chk, 'circle:area') as g:
            n = rng.choice([32, 64, 96, 128] if quick else [32, 64, 128, 256, 384])
            cx, cy = dy(rng, -2, 2, 2), dy(rng, -2, 2, 2)
            r = dy(rng, 1, n / 2 - 4, 3)
            origin = rng.choice(["middle", "corner"])
            c = (cx, cy) if origin == "middle" else (cx + n / 2, cy + n / 2)
            area = float(circle(r, n, c, origin).sum())
            chk.oracle_cases += 1
            chk.count("oracle:area")
            chk.case(("oracle", "area", n, r, cx, cy, origin))
            lo, hi = math.pi * max(r - math.sqrt(.5), 0) ** 2, math.pi * (r + math.sqrt(.5)) ** 2
            if not (lo * (1 - 1e-12) <= area <= hi * (1 + 1e-12)):
                bad("circle:area", "area of circle(%r,%d,%r,%s) is %g, outside [π(r-1/√2)², π(r+1/√2)²]=[%g,%g]" % (r, n, c, origin, area, lo, hi),
                    radius=r, size=n, circle_centre=list(c), origin=origin, area=area)
    # ---- findActiveSubaps: geometry recovered by probing the real code, then the mean ≥ threshold rule in exact arithmetic
    geo = {}
    shapes = [(n, n) for n in range(1, 7 if quick else 11)] + [(4, 6), (6, 4), (3, 5), (7, 2)] + ([(12, 12)] if quick else [(12, 12), (16, 16), (9, 12)])
    for (n0, n1) in shapes:
        for subaps in sorted(set([1, 2, 3, n0, n0 + 1] + [d for d in range(1, n0 + 1) if n0 % d == 0] + ([4, 5] if not quick else []))):
            with Guard(chk, 'active:probe') as g:
                if (n0 * n1) > 64 and subaps not in (2, 3, 4, n0 // 2, n0):
                    continue
                g.update(subaps=subaps, mask_shape=[n0, n1])
                owner = cells_by_probing(wfslib, subaps, n0, n1)
                chk.oracle_cases += 1
                chk.count("oracle:partition:%s" % ("dvd" if n0 % subaps == 0 and n1 % subaps == 0 else "ndvd"))
                chk.case(("oracle", "partition", subaps, n0, n1))
                rep = dict(subaps=subaps, mask_shape=[n0, n1])
                cells = {}
                ok = True
                for (p, q), cl in sorted(owner.items()):
                    if len(cl) != 1 or cl[0][0] is None:
                        bad("active:partition", "findActiveSubaps(%d, one-hot %dx%d mask at [%d,%d], 2^-40): pixel lies in %d grid cells (must be 1)"
                            % (subaps, n0, n1, p, q, len(cl)), pixel=[p, q], **rep)
                        ok = False
                        break
                    x, y = cl[0][0]
                    cells.setdefault((x, y), []).append((p, q))
                    # the cell [x, x+1)·spacing, rounded to pixels: never off by more than half a pixel
                    if not (Fr(x * n0, subaps) - Fr(1, 2) <= p and p + 1 <= Fr((x + 1) * n0, subaps) + Fr(1, 2)
                            and Fr(y * n1, subaps) - Fr(1, 2) <= q and q + 1 <= Fr((y + 1) * n1, subaps) + Fr(1, 2)):
                        bad("active:cell-geometry", "findActiveSubaps(%d, %dx%d mask): pixel [%d,%d] is attributed to grid cell (%d,%d), more than "
                            "half a pixel outside [x,x+1)·spacing" % (subaps, n0, n1, p, q, x, y), pixel=[p, q], cell=[x, y], **rep)
                        ok = False
                        break
                if not ok:
                    continue
                for (x, y), px in cells.items():                # cells are rectangles and their fill is 1/size
                    rows, cols = sorted({p for p, _ in px}), sorted({q for _, q in px})
                    if len(px) != len(rows) * len(cols) or rows != list(range(rows[0], rows[-1] + 1)) or cols != list(range(cols[0], cols[-1] + 1)):
                        bad("active:cell-geometry", "grid cell (%d,%d) of findActiveSubaps(%d, %dx%d mask) is not a rectangle of pixels"
                            % (x, y, subaps, n0, n1), cell=[x, y], **rep)
                        ok = False
                        break
                    f = owner[px[0]][0][1]
                    if f != 1.0 / len(px):
                        bad("active:fill-value", "fill of a one-hot mask in cell (%d,%d) of %d pixels is %r" % (x, y, len(px), f), cell=[x, y], **rep)
                        ok = False
                        break
                if ok:
                    geo[(subaps, n0, n1)] = cells
    keys = sorted(geo)
    for it in range(1500 if quick else 10000):
        with Guard(chk, 'active') as g:
            subaps, n0, n1 = rng.choice(keys)
            cells = geo[(subaps, n0, n1)]
            kind, mask = gen_mask(rng, n0, n1, nondyadic=True)
            tk, thr = gen_threshold(rng, mask, subaps, [float(m) for m in exact_means(mask, cells).values()])
            check_active(chk, g, wfslib, subaps, mask, thr, cells, kind, tk, sample=it < 2)
    # ---- ties mean == threshold where the mean k/N is NOT a binary fraction (5×5, 10×10, 6×6, 7×7, 3×3 … cells): one cell is given
    # exactly k transparent pixels for EVERY k = 0..N, the threshold is the binary64 number k/N (and its neighbours)
    tie_shapes = [(5, 1), (10, 2), (10, 1), (20, 2), (12, 2), (6, 1), (14, 2), (7, 1), (15, 3), (9, 3), (21, 3), (10, 5), (12, 3)]
    if not quick:
        tie_shapes += [(30, 3), (50, 5), (18, 3), (22, 2), (13, 1), (24, 2), (33, 3)]
    mdts = [float, numpy.float32, numpy.uint8, bool, int]
    for (n, subaps) in tie_shapes:
        cells = block_cells(subaps, n, n)
        N = (n // subaps) ** 2
        for k in range(N + 1):
            with Guard(chk, 'active:tie') as g:
                p = rng.choice([0.2, 0.5, 0.8, k / float(N)])
                mask = numpy.array([[1.0 if rng.random() < p else 0.0 for _ in range(n)] for _ in range(n)])
                target = rng.choice(sorted(cells))
                px = list(cells[target])
                rng.shuffle(px)
                for t, (a, b) in enumerate(px):
                    mask[a, b] = 1.0 if t < k else 0.0
                mdt = mdts[(k + n) % len(mdts)]
                mask = mask.astype(mdt)
                kind = "ktie:" + numpy.dtype(mdt).name
                if rng.random() < 0.2:
                    how, mask = as_view(rng, mask)
                    kind += ":view:" + how
                f = float(Fr(k, N))
                tk, thr = rng.choice([("cellfill", f)] * 4 + [("cellfill+", math.nextafter(f, 2.0)), ("cellfill-", math.nextafter(f, -1.0))])
                check_active(chk, g, wfslib, subaps, mask, thr, cells, kind, tk + ":cell%d" % N, sample=False)
    # ---- the documented use: a telescope pupil cut into sub-apertures, thresholds equal to the fills that occur
    pupils = [(100, 10), (50, 5), (40, 4), (70, 7)] if quick else [(100, 10), (50, 5), (40, 4), (70, 7), (120, 10), (120, 12), (90, 9), (110, 10), (60, 5)]
    for (n, subaps) in pupils:
        cells = block_cells(subaps, n, n)
        for obsc in (0.0, 0.25):
            with Guard(chk, 'active:pupil') as g:
                mask = circle(n / 2.0, n) - (circle(n * obsc / 2.0, n) if obsc else 0.0)
                fl = sorted({float(m) for m in exact_means(mask, cells).values()})
                for mdt in ([float, numpy.float32] if quick else [float, numpy.float32, int, bool]):
                    for thr in fl:
                        check_active(chk, g, wfslib, subaps, mask.astype(mdt), thr, cells, "pupil:" + numpy.dtype(mdt).name,
                                     "cellfill:cell%d" % ((n // subaps) ** 2), sample=False, light=True)
    # ---- make_subaps_2d then masked read-back
    import warnings
    MD = {"float64": float, "float32": numpy.float32, "int64": numpy.int64, "uint8": numpy.uint8, "bool": bool, "int8": numpy.int8}
    for it in range(700 if quick else 5000):
        with Guard(chk, 'scatter') as g:
            nx = rng.randint(1, 8)
            mdt = rng.choice(["float64", "float64", "float32", "int64", "uint8", "bool", "int8"])
            vals = rng.choice([[0, 1], [0, 1, 1, 1]] + ([] if mdt == "bool" else [[0, 1, 2]]) + ([[0, 1, 0.5]] if mdt.startswith("float") else []))
            mask = numpy.array([[rng.choice(vals) for _ in range(nx)] for _ in range(nx)]).astype(MD[mdt])
            if rng.random() < 0.3:
                mask = (circle(nx / 2.0, nx) if rng.random() < .5 else circle(nx / 2.0, nx) - circle(nx / 6.0, nx)).astype(MD[mdt])
            view = ""
            if rng.random() < 0.25:
                view, mask = as_view(rng, mask)
            nv = int((mask == 1).sum())
            frames = rng.randint(1, 4)
            dt = rng.choice(["float64", "float64", "int64", "float32", "complex128", "bigint"])
            nprng = numpy.random.default_rng(rng.getrandbits(32))
            shape = (frames, 2, nv)
            # data that no narrower container can hold: full 53-bit mantissas, non-zero imaginary parts, integers above 2^53
            if dt == "float64":
                data = nprng.uniform(1, 2, shape) * nprng.choice([-1.0, 1.0, 1e-3, 1e3], shape)
            elif dt == "float32":
                data = nprng.uniform(1, 2, shape).astype(numpy.float32)
            elif dt == "int64":
                data = nprng.integers(-1000, 1000, shape)
            elif dt == "bigint":
                data = nprng.integers(2 ** 53 + 1, 2 ** 62, shape) | 1
            else:
                data = nprng.uniform(1, 2, shape) + 1j * nprng.uniform(1, 2, shape)
            if rng.random() < 0.2 and nv:
                big = numpy.zeros((frames, 2, 2 * nv), dtype=data.dtype)
                big[:, :, ::2] = data
                data = big[:, :, ::2]                       # non-contiguous slope data
            chk.oracle_cases += 1
            chk.count("oracle:scatter:data-%s" % dt)
            chk.count("oracle:scatter:mask-%s%s" % (mdt, ":view" if view else ""))
            chk.case(("oracle", "scatter", nx, mask.tolist().__repr__(), mdt, view, dt, it),
                     sample={"make_subaps_2d": [list(data.shape), mask.tolist()]} if it < 1 else None)
            before = data.copy()
            mask_before = mask.copy()
            rep = dict(mask=mask.tolist(), mask_dtype=mdt, data=[[[str(v) for v in row] for row in fr] for fr in before.tolist()],
                       dtype=str(before.dtype))
            g.update(rep)
            with warnings.catch_warnings():
                warnings.simplefilter("ignore")
                out = wfslib.make_subaps_2d(data, mask)
            if not (numpy.array_equal(data, before) and numpy.array_equal(mask, mask_before)):
                note_broke(chk, "make_subaps_2d modifies its %s argument (the model is a pure function); mask dtype %s, data dtype %s"
                           % ("data" if not numpy.array_equal(data, before) else "mask", mdt, before.dtype))
            if getattr(out, "shape", None) != (frames, 2, nx, nx):
                bad("scatter:shape", "make_subaps_2d output has shape %s for data %s and a %dx%d mask" % (getattr(out, "shape", None), shape, nx, nx), **rep)
                continue
            back = out[:, :, mask_before == 1]
            if back.shape != before.shape or not numpy.array_equal(back, before):
                w = numpy.argwhere(back != before)[0] if back.shape == before.shape else None
                bad("scatter:roundtrip:mask-%s" % mdt,
                    "make_subaps_2d(data, mask)[:, :, mask == 1] ≠ data for a %dx%d %s mask with %d valid sub-apertures and %s data%s (map dtype %s)"
                    % (nx, nx, mdt, nv, before.dtype, "" if w is None else ": data%s = %r comes back as %r" % (list(map(int, w)), before[tuple(w)], back[tuple(w)]),
                       out.dtype), **rep)
                continue
            if (out[:, :, mask_before != 1] != 0).any():
                bad("scatter:off-mask", "make_subaps_2d writes outside the mask (%dx%d mask)" % (nx, nx), **rep)
            if out.dtype != before.dtype:
                note_broke(chk, "make_subaps_2d returns a %s map for %s data and a %s mask (values identical; the model's map has the "
                                "payload type of the data)" % (out.dtype, before.dtype, mdt))


def note_broke(chk, what):
    """behaviour that differs from the model but is not part of the property's statement (in-place modification of an argument, the
    dtype of a result whose values are right): a correspondence break, reported at most three times per run"""
    if sum(1 for b in chk.broken if b["kind"] == "correspondence") < 3:
        chk.broke("correspondence", what)


STATS = {}
FILL_ULP = 1.0          # fills of exact-sum masks: one correctly rounded division — observed 0 ulp on the clean tree
NONDY_RTOL = 2.0 ** -43  # masks with arbitrary values (summation order unspecified): rigorous bound (N+1)·2^-53 ≤ 2^-44 for the cells used (N ≤ 400);
                        # observed on the clean tree, 12 seeds: ≤ 3 ulp (2^-43 is 512…1024 ulp)


def check_active(chk, g, wfslib, subaps, mask, thr, cells, kind, tk, sample=False, light=False):
    """the property on one input of findActiveSubaps / computeFillFactor; `cells` maps grid index -> pixel list"""
    rng = chk.rng
    n0, n1 = mask.shape
    wk, wthr = wrap_threshold(rng, thr)
    mdt = mask.dtype.name
    sfx = "" if mdt == "float64" else ":" + mdt
    chk.oracle_cases += 1
    chk.count("oracle:active:%s:%s" % (kind, tk))
    chk.count("oracle:active:threshold-type:%s" % wk)
    chk.case(("oracle", "active", subaps, n0, n1, repr(thr), wk, mdt, mask_wire(mask)[:400]),
             sample={"findActiveSubaps": [subaps, numpy.asarray(mask, dtype=float).tolist(), thr]} if sample else None)
    rep = dict(subaps=subaps, mask=numpy.asarray(mask, dtype=float).tolist(), mask_dtype=mdt, threshold=thr, threshold_type=type(wthr).__name__)
    g.clear()
    g.update(rep)

    def bad(key, what, **kw):
        chk.fail(key, what, dict(rep, **kw))

    mask_before = numpy.array(mask, copy=True)
    with numpy.errstate(all="ignore"):
        coords, fills = wfslib.findActiveSubaps(subaps, mask, wthr, returnFill=True)
        coords_nf = wfslib.findActiveSubaps(subaps, mask, wthr)
    if not numpy.array_equal(mask, mask_before):
        note_broke(chk, "findActiveSubaps modifies its mask argument (the model is a pure function)")
        mask = mask_before
    exact = exact_sums(mask)
    M = exact_means(mask, cells)
    # exact-sum masks: the binary64 mean is the correctly rounded quotient of the (exactly representable) sum by the count, and the
    # rule is fl(mean) >= threshold; arbitrary masks: cells whose exact mean is within the summation error of the threshold are undecided
    means = {xy: float(m) for xy, m in M.items()}
    undecided = set() if exact else {xy for xy, m in M.items() if abs(m - Fr(thr)) <= Fr(NONDY_RTOL) * max(abs(m), abs(Fr(thr)))}
    want = [xy for xy in sorted(means) if means[xy] >= thr]            # row-major order of the grid
    s0, s1 = n0 / float(subaps), n1 / float(subaps)
    got = cell_indices(coords, subaps, n0, n1)
    if [x for x in got if x not in undecided] != [x for x in want if x not in undecided] or (None in got) or len(set(got)) != len(got):
        miss = [xy for xy in want if xy not in got and xy not in undecided]
        extra = [x for x in got if x not in want and x not in undecided]
        tie = any(means[xy] == thr for xy in miss)
        bad(("active:mean-ge" + (":tie" if tie else "") + sfx) if (miss or extra) else "active:order",
            "findActiveSubaps(%d, %s %dx%d %s mask, %s(%r)): returned cells %s, cells with mean ≥ threshold are %s%s"
            % (subaps, kind, n0, n1, mdt, type(wthr).__name__, thr, got[:8], want[:8],
               "; missing cell %s has %s of its %d pixels transparent, mean %r" % (miss[0], sum(Fr(float(mask[p, q])) for p, q in cells[miss[0]]),
                                                                                   len(cells[miss[0]]), means[miss[0]]) if miss else ""))
        return
    sel = got
    if [tuple(c) for c in numpy.asarray(coords, dtype=float).reshape(-1, 2).tolist()] != [(x * s0, y * s1) for x, y in sel]:
        bad("active:coords", "findActiveSubaps(%d, %dx%d mask): coordinates are not [x·xSpacing, y·ySpacing]" % (subaps, n0, n1))
    if not numpy.array_equal(coords, coords_nf):
        bad("active:returnFill", "returnFill changes the selected sub-apertures")
    if len(fills) != len(sel):
        bad("active:fills", "findActiveSubaps(%d, %s %dx%d mask, %r) returns %d fills for %d sub-apertures" % (subaps, kind, n0, n1, thr, len(fills), len(sel)))
        return
    for xy, f in zip(sel, fills):
        f = float(f)
        okf = (ulps(f, means[xy]) <= FILL_ULP) if exact else (abs(f - means[xy]) <= NONDY_RTOL * abs(means[xy]))
        if not okf:
            bad("active:fills" + sfx, "fill of cell %s returned by findActiveSubaps(%d, %s %dx%d %s mask, %r) is %r, the cell mean is %r"
                % (xy, subaps, kind, n0, n1, mdt, thr, f, means[xy]), cell=list(xy))
            break
        key = "fill_ulp_exact" if exact else "fill_ulp_nondy"
        STATS[key] = max(STATS.get(key, 0.0), ulps(f, means[xy]))
    if not exact:
        STATS["nondy_undecided_cells"] = STATS.get("nondy_undecided_cells", 0) + len(undecided)
        STATS["nondy_cases"] = STATS.get("nondy_cases", 0) + 1
    if light:
        return
    # antitone in the threshold
    thr2 = thr + dy(rng, 0, 1, 4) * rng.choice([0.25, 1.0, 2.0 ** -30])
    with numpy.errstate(all="ignore"):
        c2 = wfslib.findActiveSubaps(subaps, mask, thr2)
    small, large = [tuple(c) for c in numpy.asarray(c2).reshape(-1, 2).tolist()], [tuple(c) for c in numpy.asarray(coords).reshape(-1, 2).tolist()]
    itl = iter(large)
    if not all(any(s == l for l in itl) for s in small):
        bad("active:antitone", "raising the threshold %r→%r adds sub-apertures (subaps=%d, %dx%d %s mask)" % (thr, thr2, subaps, n0, n1, kind),
            threshold2=thr2)
    # fill factors agree with computeFillFactor when the mask size is a multiple of the sub-aperture count
    if n0 == n1 and n0 % subaps == 0 and len(sel):
        with numpy.errstate(all="ignore"):
            ff = wfslib.computeFillFactor(mask, coords, n0 // subaps)
            ff2 = wfslib.computeFillFactor(mask, coords, n0 / float(subaps))
        for nm, v in (("%d" % (n0 // subaps), ff), ("%r" % (n0 / float(subaps)), ff2)):
            v = numpy.asarray(v, dtype=float)
            fl = numpy.asarray(fills, dtype=float)
            if v.shape == fl.shape and len(v):
                key = "agree_ulp_exact" if exact else "agree_ulp_nondy"
                STATS[key] = max(STATS.get(key, 0.0), max(ulps(a, b) for a, b in zip(v, fl)))
            agree = v.shape == fl.shape and all((ulps(a, b) <= FILL_ULP) if exact else (abs(a - b) <= NONDY_RTOL * abs(b)) for a, b in zip(v, fl))
            if not agree:
                bad("fill:agree" + sfx, "computeFillFactor(mask, coords, %s) = %s ≠ fills of findActiveSubaps = %s (subaps=%d, n=%d, %s %s mask)"
                    % (nm, v[:6], fl[:6], subaps, n0, kind, mdt))
                break
        chk.count("oracle:fill-agree")


def exhaustive_small(chk, quick):
    """every 0/1 mask up to 3×3 (quick) / 4×4 (thorough), every sub-aperture count, a threshold ladder: the oracle rule with the
    cell geometry taken from the divisibility-free definition (bounds recovered by probing)"""
    from aotools.wfs import wfslib
    sizes = [1, 2, 3] if quick else [1, 2, 3, 4]
    for n in sizes:
        for subaps in range(1, n + 2):
            with Guard(chk, 'active:exhaustive') as g:
                owner = cells_by_probing(wfslib, subaps, n, n)
                if any(len(v) != 1 for v in owner.values()):
                    continue                                   # already reported by oracle()
                if any(cl[0][0] is None for cl in owner.values()):
                    continue
                cells = {}
                for pq, cl in owner.items():
                    cells.setdefault(cl[0][0], []).append(pq)
                thrs = sorted({float(Fr(k, c)) for c in {len(v) for v in cells.values()} for k in range(c + 1)} | {0.3, 9 / 8.})
                for bits in itertools.product((0.0, 1.0), repeat=n * n):
                    if n == 4 and quick:
                        break
                    mask = numpy.array(bits).reshape(n, n)
                    means = {xy: float(Fr(int(sum(mask[p, q] for p, q in px)), len(px))) for xy, px in cells.items()}
                    for t in thrs:
                        chk.oracle_cases += 1
                        with numpy.errstate(all="ignore"):
                            coords = wfslib.findActiveSubaps(subaps, mask, t)
                        want = [(x * (n / float(subaps)), y * (n / float(subaps))) for (x, y) in sorted(means) if means[(x, y)] >= t]
                        if [tuple(c) for c in numpy.asarray(coords).reshape(-1, 2).tolist()] != want:
                            chk.fail("active:mean-ge:exhaustive", "findActiveSubaps(%d, %s, %r) ≠ cells with mean ≥ threshold" % (subaps, mask.tolist(), t),
                                     dict(subaps=subaps, mask=mask.tolist(), threshold=t))
                            return
                chk.count("oracle:exhaustive:n%d:subaps%d" % (n, subaps))
                chk.case(("oracle", "exhaustive", n, subaps))


# ----------------------------------------------------------------------------------------------- round 5: generator audit
def _exact_circle_int(r, n, cx, cy, origin, bits=3):
    """exact_circle for data with at most `bits` fractional bits, vectorised in int64: everything is scaled by q = 2^bits, so
    (pixel - centre)·q and r·q are integers (|·| < 2^20 for the sizes used: squares fit int64 with room to spare)"""
    q = 1 << bits
    R, CX, CY = int(round(r * q)), int(round(cx * q)), int(round(cy * q))
    assert R == r * q and CX == cx * q and CY == cy * q
    if origin == "middle":
        assert (n * q) % 2 == 0
        CX, CY = CX + n * q // 2, CY + n * q // 2
    k = numpy.arange(n, dtype=numpy.int64) * q + q // 2
    X, Y = numpy.meshgrid(k - CX, k - CY)
    return (X * X + Y * Y <= R * R).astype(float)


def circle_arg_variants(rng, r, n, cx, cy, origin):
    """the same mathematical arguments in the other spellings a caller uses: [(name, args, kwargs, centre object or None)].
    Every value is a dyadic rational with at most 3 fractional bits and magnitude < 2^7: exactly representable (and its square
    exactly computed) in binary32 as well, so a NumPy float32 scalar is the same number"""
    f32ok = all(float(numpy.float32(v)) == v for v in (r, cx, cy))
    out = []
    lst = [cx, cy]
    out.append(("centre:list", (r, n, lst, origin), {}, lst))
    arr = numpy.array([cx, cy])
    out.append(("centre:ndarray", (r, n, arr, origin), {}, arr))
    if cx == int(cx) and cy == int(cy):
        ai = numpy.array([int(cx), int(cy)])
        out.append(("centre:int-ndarray", (r, n, ai, origin), {}, ai))
        out.append(("centre:int-tuple", (r, n, (int(cx), int(cy)), origin), {}, None))
    out.append(("centre:numpy-float64-tuple", (r, n, (numpy.float64(cx), numpy.float64(cy)), origin), {}, None))
    if f32ok:
        out.append(("centre:numpy-float32-tuple", (r, n, (numpy.float32(cx), numpy.float32(cy)), origin), {}, None))
        out.append(("radius:numpy-float32", (numpy.float32(r), n, (cx, cy), origin), {}, None))
    out.append(("radius:numpy-float64", (numpy.float64(r), n, (cx, cy), origin), {}, None))
    out.append(("radius:0-d-array", (numpy.array(r), n, (cx, cy), origin), {}, None))
    if r == int(r):
        out.append(("radius:int", (int(r), n, (cx, cy), origin), {}, None))
        out.append(("radius:numpy-int64", (numpy.int64(int(r)), n, (cx, cy), origin), {}, None))
    out.append(("size:numpy-int64", (r, numpy.int64(n), (cx, cy), origin), {}, None))
    out.append(("size:numpy-int32", (r, numpy.int32(n), (cx, cy), origin), {}, None))
    out.append(("keywords", (), dict(radius=r, size=n, circle_centre=(cx, cy), origin=origin), None))
    out.append(("keywords:reordered", (), dict(origin=origin, circle_centre=(cx, cy), size=n, radius=r), None))
    if origin == "middle":
        out.append(("origin:default", (r, n, (cx, cy)), {}, None))
        if cx == 0 and cy == 0:
            out.append(("centre:default", (r, n), {}, None))
            out.append(("centre:default+origin-keyword", (r, n), dict(origin="middle"), None))
    rng.shuffle(out)
    return out


def oracle_round5(chk, quick):
    """input classes and call histories no earlier section produces (generator audit): argument spellings of circle, its result
    being a fresh array, sizes beyond 255 / 2^16 pixels, argument forms of computeFillFactor, sub-aperture maps with more than
    2^8 / 2^16 valid positions, slope data of further dtypes and layouts, the same map shape filled twice"""
    import aotools
    from aotools.functions import pupil
    from aotools.wfs import wfslib
    rng = chk.rng
    circle = pupil.circle

    def bad(key, what, **replay):
        chk.fail(key, what, replay)

    # ---- circle: every spelling of the same arguments gives the exact indicator; arguments are left alone; every call returns
    # a fresh array (a caller that edits a mask in place — mask[obstruction] = 0 — must not change what the next caller gets)
    for it in range(40 if quick else 400):
        with Guard(chk, 'circle:argtype') as g:
            n = rng.randint(1, 14 if quick else 30)
            origin = rng.choice(["middle", "corner"])
            half = n / 2.0
            base = 0.0 if origin == "middle" else half
            k = it % 4
            if k == 0:                                   # the default centre
                r, cx, cy = dy(rng, 0, n, rng.choice([0, 2])), base, base
            elif k == 1:                                 # integers
                r, cx, cy = float(rng.randint(0, n)), float(int(base) + rng.randint(-3, 3)), float(int(base) + rng.randint(-3, 3))
            else:
                r, cx, cy = dy(rng, 0, n, 3), base + dy(rng, -half - 1, half + 1, 3), base + dy(rng, -half - 1, half + 1, 3)
            want, _ = exact_circle(r, n, cx, cy, origin)
            fn = circle if it % 2 else aotools.circle
            variants = circle_arg_variants(rng, r, n, cx, cy, origin)
            for name, args, kw, cobj in variants[:6 if quick else 30]:
                chk.oracle_cases += 1
                chk.count("oracle:circle:argtype:" + name)
                chk.case(("oracle", "circle-argtype", name, origin, repr((r, n, cx, cy))))
                rep = dict(radius=r, size=n, circle_centre=[cx, cy], origin=origin, spelling=name)
                g.clear()
                g.update(rep)
                keep = None if cobj is None else (list(cobj) if isinstance(cobj, list) else cobj.copy())
                got = fn(*args, **kw)
                if getattr(got, "shape", None) != (n, n) or not numpy.array_equal(got, want):
                    bad("circle:argtype:" + name, "circle(%r, %d, (%r, %r), %r) written as [%s] is not the indicator of the pixel centres "
                        "within the radius (%s)" % (r, n, cx, cy, origin, name,
                                                    "shape %s" % (getattr(got, "shape", None),) if getattr(got, "shape", None) != (n, n)
                                                    else "%d pixels differ" % int((got != want).sum())), **rep)
                if keep is not None and not numpy.array_equal(numpy.asarray(cobj), numpy.asarray(keep)):
                    bad("circle:argtype:centre-modified", "circle(%r, %d, %s, %r) changes its circle_centre argument %r -> %r"
                        % (r, n, name, origin, list(keep), list(cobj)), **rep)
            # history: the caller edits the mask it got, then the same arguments are asked for again
            chk.oracle_cases += 1
            chk.count("oracle:circle:history:result-reused")
            rep = dict(radius=r, size=n, circle_centre=[cx, cy], origin=origin, history="circle(args); result[...] edited in place; circle(args)")
            g.clear()
            g.update(rep)
            first = fn(r, n, (cx, cy), origin)
            if first.shape == (n, n):
                first[...] = 7.0
                first[::2] -= 9.0
                again = fn(r, n, (cx, cy), origin)
                other = fn(r + 0.5, n, (cx, cy), origin)       # and a different request of the same size in between
                third = fn(r, n, (cx, cy), origin)
                if not (numpy.array_equal(again, want) and numpy.array_equal(third, want)):
                    bad("circle:history:result-reused", "circle(%r, %d, (%r, %r), %r) called again after the caller edited the first result "
                        "in place returns %d wrong pixels (the first call was right): results must be fresh arrays"
                        % (r, n, cx, cy, origin, int((again != want).sum()) if again.shape == want.shape else -1), **rep)
                if numpy.shares_memory(again, third) or numpy.shares_memory(other, third):
                    bad("circle:history:result-reused", "two calls of circle(%r, %d, …) return arrays sharing memory" % (r, n), **rep)
    # ---- circle beyond 255 pixels and beyond 2^16 / 2^18 / 2^20 elements (real pupils: 256 … 1024 pixels), exact
    big_sizes = [255, 256, 257, 300, 512, 1000] if quick else [255, 256, 257, 300, 511, 512, 513, 640, 1000, 1024, 1025, 2048]
    for n in big_sizes:
        for rep_ in range(2 if quick else 4):
            with Guard(chk, 'circle:large-n') as g:
                origin = ["middle", "corner"][rep_ % 2]
                half = n / 2.0
                base = 0.0 if origin == "middle" else half
                kind = rng.choice(["pupil", "offset", "tie"])
                if kind == "pupil":                           # the telescope pupil: radius n/2, centred
                    r, cx, cy = half, base, base
                elif kind == "offset":
                    r, cx, cy = dy(rng, n / 8, n, 3), base + dy(rng, -half, half, 3), base + dy(rng, -half, half, 3)
                else:                                         # a pixel centre exactly on the boundary, far from the centre
                    a, b, c = rng.choice(TRIPLES)
                    s = float(rng.choice([8, 16, 32]) * (n // 256 + 1))
                    i, j = rng.randrange(n), rng.randrange(n)
                    ccx, ccy = j + 0.5 - rng.choice([-1, 1]) * a * s, i + 0.5 - rng.choice([-1, 1]) * b * s
                    r = c * s
                    cx, cy = (ccx - half, ccy - half) if origin == "middle" else (ccx, ccy)
                rep = dict(radius=r, size=n, circle_centre=[cx, cy], origin=origin)
                g.update(rep)
                chk.oracle_cases += 1
                chk.count("oracle:circle:large-n:%s" % kind)
                chk.case(("oracle", "circle-large", n, origin, kind, repr((r, cx, cy))))
                got = circle(r, n, (cx, cy), origin)
                want = _exact_circle_int(r, n, cx, cy, origin)
                if getattr(got, "shape", None) != (n, n) or got.dtype != numpy.float64 or not numpy.array_equal(got, want):
                    w = numpy.argwhere(got != want)[0].tolist() if getattr(got, "shape", None) == (n, n) else None
                    bad("circle:indicator:large-n", "circle(%r, %d, (%r, %r), %r): %s" % (
                        r, n, cx, cy, origin, "shape %s dtype %s" % (getattr(got, "shape", None), getattr(got, "dtype", None)) if w is None else
                        "%d of %d pixels are not the indicator of |pixel centre - centre| <= r, first at [%d, %d]"
                        % (int((got != want).sum()), n * n, w[0], w[1])), pixel=w, **rep)
    # ---- computeFillFactor: the coordinates in the forms a caller holds them (list of rows, integer array, a permuted subset,
    # none at all), the spacing as Python / NumPy integer or float: one fill per given coordinate, in the given order
    for it in range(40 if quick else 400):
        with Guard(chk, 'fill:argform') as g:
            subaps = rng.choice([1, 2, 3, 4, 5])
            n = subaps * rng.randint(1, 6)
            kind, mask = gen_mask(rng, n, n)
            if not exact_sums(mask):
                continue
            cells = block_cells(subaps, n, n)
            M = {xy: float(m) for xy, m in exact_means(mask, cells).items()}
            sp = n // subaps
            sel = [xy for xy in sorted(cells) if rng.random() < 0.7]
            rng.shuffle(sel)
            if it % 8 == 0:
                sel = []
            pos = [[float(x * sp), float(y * sp)] for x, y in sel]
            form = rng.choice(["ndarray", "list-of-lists", "list-of-tuples", "int-ndarray", "int-lists", "fortran", "strided", "readonly"])
            if form == "ndarray":
                arg = numpy.array(pos).reshape(-1, 2)
            elif form == "list-of-lists":
                arg = [list(p) for p in pos]
            elif form == "list-of-tuples":
                arg = [tuple(p) for p in pos]
            elif form == "int-ndarray":
                arg = numpy.array(pos, dtype=int).reshape(-1, 2)
            elif form == "int-lists":
                arg = [[int(a), int(b)] for a, b in pos]
            elif form == "fortran":
                arg = numpy.asfortranarray(numpy.array(pos).reshape(-1, 2))
            elif form == "strided":
                bigp = numpy.full((len(pos), 6), -3.0)
                bigp[:, 1::3] = numpy.array(pos).reshape(-1, 2)
                arg = bigp[:, 1::3]
            else:
                arg = numpy.array(pos).reshape(-1, 2)
                arg.setflags(write=False)
            spk, spv = rng.choice([("int", sp), ("float", float(sp)), ("numpy-int64", numpy.int64(sp)), ("numpy-float64", numpy.float64(sp)),
                                   ("numpy-int32", numpy.int32(sp)), ("numpy-float32", numpy.float32(sp))])
            rep = dict(mask=numpy.asarray(mask, dtype=float).tolist(), mask_dtype=mask.dtype.name, subapPos=pos, subapPos_form=form,
                       subapSpacing=sp, subapSpacing_type=spk)
            g.update(rep)
            chk.oracle_cases += 1
            chk.count("oracle:fill:argform:%s" % form)
            chk.count("oracle:fill:spacing-type:%s" % spk)
            chk.case(("oracle", "fill-argform", form, spk, subaps, n, kind, repr(pos)[:200], mask_wire(mask)[:200]))
            mask_before = numpy.array(mask, copy=True)
            with numpy.errstate(all="ignore"):
                ff = numpy.asarray(wfslib.computeFillFactor(mask, arg, spv), dtype=float)
            want = [M[xy] for xy in sel]
            if ff.shape != (len(sel),) or any(ulps(a, b) > FILL_ULP for a, b in zip(ff, want)):
                bad("fill:agree:argform:%s" % ("empty" if not sel else form),
                    "computeFillFactor(%s %dx%d %s mask, %d coordinates as %s, spacing %s(%d)) = %s; the means of those cells, in the order "
                    "given, are %s" % (kind, n, n, mask.dtype.name, len(sel), form, spk, sp, ff.tolist()[:8], want[:8]), **rep)
            if not numpy.array_equal(mask, mask_before):
                note_broke(chk, "computeFillFactor modifies its mask argument (the model is a pure function)")
            # findActiveSubaps with the sub-aperture count as a NumPy integer is the same call
            thr = rng.choice(sorted(set(M.values())))
            with numpy.errstate(all="ignore"):
                c0, f0 = wfslib.findActiveSubaps(subaps, mask, thr, returnFill=True)
                st = rng.choice([numpy.int64, numpy.int32, numpy.uint8])
                c1, f1 = wfslib.findActiveSubaps(st(subaps), mask, thr, True)
            if not (numpy.array_equal(c0, c1) and numpy.array_equal(f0, f1)):
                bad("active:argtype:subaps-%s" % st.__name__, "findActiveSubaps(%s(%d), %s %dx%d mask, %r, True) differs from the call with the "
                    "Python int %d: %d vs %d sub-apertures" % (st.__name__, subaps, kind, n, n, thr, subaps, len(c1), len(c0)),
                    subaps=subaps, threshold=thr, **rep)
    # ---- the documented non-divisible examples (10 px / 3 sub-apertures, 31 px / 7) with geometry recovered by probing
    for (n, subaps) in ([(10, 3), (31, 7)] if quick else [(10, 3), (31, 7), (17, 4), (23, 5), (40, 7)]):
        cells = None
        with Guard(chk, 'active:probe') as g:
            g.update(subaps=subaps, mask_shape=[n, n])
            owner = cells_by_probing(wfslib, subaps, n, n)
            if any(len(cl) != 1 or cl[0][0] is None for cl in owner.values()):
                p, q = sorted(pq for pq, cl in owner.items() if len(cl) != 1 or cl[0][0] is None)[0]
                bad("active:partition", "findActiveSubaps(%d, one-hot %dx%d mask at [%d,%d], 2^-40): pixel lies in %d grid cells (must be 1)"
                    % (subaps, n, n, p, q, len(owner[(p, q)])), pixel=[p, q], subaps=subaps, mask_shape=[n, n])
                continue
            cells = {}
            for pq, cl in sorted(owner.items()):
                cells.setdefault(cl[0][0], []).append(pq)
            if len(cells) != subaps * subaps or any(
                    not (Fr(x * n, subaps) - Fr(1, 2) <= p and p + 1 <= Fr((x + 1) * n, subaps) + Fr(1, 2)
                         and Fr(y * n, subaps) - Fr(1, 2) <= q and q + 1 <= Fr((y + 1) * n, subaps) + Fr(1, 2))
                    for (x, y), px in cells.items() for p, q in px):
                bad("active:cell-geometry", "findActiveSubaps(%d, %dx%d mask): the grid cells are not [x,x+1)·spacing rounded to pixels "
                    "(%d non-empty cells)" % (subaps, n, n, len(cells)), subaps=subaps, mask_shape=[n, n])
                cells = None
                continue
            chk.count("oracle:partition:ndvd:large")
        for it in range((12 if quick else 100) if cells else 0):
            with Guard(chk, 'active') as g:
                kind, mask = gen_mask(rng, n, n, nondyadic=True)
                tk, thr = gen_threshold(rng, mask, subaps, [float(m) for m in exact_means(mask, cells).values()])
                check_active(chk, g, wfslib, subaps, mask, thr, cells, kind, tk + ":ndvd%d/%d" % (n, subaps), sample=False)
    # ---- make_subaps_2d: more valid positions than 2^8 and 2^16 (a 20x20 … 80x80 Shack-Hartmann has 300 … 5000), distinct values
    # everywhere so that a position written twice or skipped shows; further payload dtypes and layouts of the slope array
    big = [(17, "ones"), (20, "circle"), (40, "ring"), (257, "ones")] if quick else \
        [(16, "ones"), (17, "ones"), (20, "circle"), (40, "ring"), (80, "circle"), (256, "ones"), (257, "ones"), (300, "circle")]
    for nx, shape_kind in big:
        with Guard(chk, 'scatter:large') as g:
            if shape_kind == "ones":
                mask = numpy.ones((nx, nx))
            elif shape_kind == "circle":
                mask = circle(nx / 2.0, nx)
            else:
                mask = circle(nx / 2.0, nx) - circle(nx / 6.0, nx)
            mdt = rng.choice([float, int, bool, numpy.uint8])
            mask = mask.astype(mdt)
            nv = int((mask == 1).sum())
            frames = 1 if nv > 10000 else rng.randint(1, 3)
            dt = rng.choice(["float64", "int64", "float32"]) if nv < 2 ** 23 else "float64"
            data = (numpy.arange(frames * 2 * nv).reshape(frames, 2, nv) * 3 + 1).astype(dt)
            rep = dict(mask_size=nx, mask_kind=shape_kind, mask_dtype=numpy.dtype(mdt).name, valid=nv, frames=frames, dtype=dt,
                       data="(arange(frames*2*valid).reshape(frames, 2, valid)*3 + 1).astype(dtype)")
            g.update(rep)
            chk.oracle_cases += 1
            chk.count("oracle:scatter:large:%s" % ("gt-2^16" if nv > 65536 else "gt-2^8"))
            chk.case(("oracle", "scatter-large", nx, shape_kind, numpy.dtype(mdt).name, frames, dt))
            import warnings
            with warnings.catch_warnings():
                warnings.simplefilter("ignore")
                out = wfslib.make_subaps_2d(data, mask)
            if getattr(out, "shape", None) != (frames, 2, nx, nx):
                bad("scatter:shape", "make_subaps_2d output has shape %s for data %s and a %dx%d mask"
                    % (getattr(out, "shape", None), data.shape, nx, nx), **rep)
                continue
            back = out[:, :, mask == 1]
            if back.shape != data.shape or not numpy.array_equal(back, data):
                w = numpy.argwhere(back != data)[0].tolist() if back.shape == data.shape else None
                bad("scatter:roundtrip:large", "make_subaps_2d(data, mask)[:, :, mask == 1] ≠ data for a %dx%d %s mask with %d valid "
                    "sub-apertures%s" % (nx, nx, shape_kind, nv, "" if w is None else ": data%s = %r comes back as %r"
                                         % (w, data[tuple(w)].item(), back[tuple(w)].item())), **rep)
            elif (out[:, :, mask != 1] != 0).any():
                bad("scatter:off-mask", "make_subaps_2d writes outside the mask (%dx%d %s mask)" % (nx, nx, shape_kind), **rep)
    DT = {"bool": lambda g_, s: g_.integers(0, 2, s).astype(bool),
          "int8": lambda g_, s: g_.integers(-128, 128, s).astype(numpy.int8),
          "uint16": lambda g_, s: g_.integers(0, 65536, s).astype(numpy.uint16),
          "uint64": lambda g_, s: g_.integers(2 ** 63, 2 ** 64 - 1, s, dtype=numpy.uint64),
          "float16": lambda g_, s: g_.uniform(1, 2, s).astype(numpy.float16),
          "complex64": lambda g_, s: (g_.uniform(1, 2, s) + 1j * g_.uniform(1, 2, s)).astype(numpy.complex64),
          ">f8": lambda g_, s: g_.uniform(1, 2, s).astype(">f8"),
          ">i4": lambda g_, s: g_.integers(-2 ** 31, 2 ** 31, s).astype(">i4"),
          "longdouble": lambda g_, s: g_.uniform(1, 2, s).astype(numpy.longdouble) + numpy.longdouble(2) ** -60}
    for it in range(60 if quick else 600):
        with Guard(chk, 'scatter') as g:
            nx = rng.randint(1, 8)
            mdt = rng.choice([float, numpy.float32, int, bool, numpy.uint8])
            maskA = numpy.array([[1 if rng.random() < 0.6 else 0 for _ in range(nx)] for _ in range(nx)]).astype(mdt)
            nv = int((maskA == 1).sum())
            frames = rng.randint(1, 4)
            dt = rng.choice(sorted(DT))
            nprng = numpy.random.default_rng(rng.getrandbits(32))
            data = DT[dt](nprng, (frames, 2, nv))
            layout = rng.choice(["C", "fortran", "readonly", "frame-last", "reversed", "broadcast"])
            if layout == "fortran":
                data = numpy.asfortranarray(data)
            elif layout == "readonly":
                data.setflags(write=False)
                maskA.setflags(write=False)
            elif layout == "frame-last":
                data = numpy.moveaxis(numpy.ascontiguousarray(numpy.moveaxis(data, 0, -1)), -1, 0)
            elif layout == "reversed":
                data = numpy.ascontiguousarray(data[:, ::-1, ::-1])[:, ::-1, ::-1]
            elif layout == "broadcast":                      # every frame the same slopes: a zero-stride, read-only view
                data = numpy.broadcast_to(data[:1], data.shape)
            before = numpy.array(data, copy=True)
            rep = dict(mask=maskA.tolist(), mask_dtype=numpy.dtype(mdt).name, data=[[[str(v) for v in row] for row in fr] for fr in before.tolist()],
                       dtype=dt, layout=layout)
            g.update(rep)
            chk.oracle_cases += 1
            chk.count("oracle:scatter:data-%s" % dt)
            chk.count("oracle:scatter:data-layout:%s" % layout)
            chk.case(("oracle", "scatter5", nx, repr(maskA.tolist()), numpy.dtype(mdt).name, dt, layout, frames, it))
            import warnings
            with warnings.catch_warnings():
                warnings.simplefilter("ignore")
                out = wfslib.make_subaps_2d(data, maskA)
                # history: the same shapes again with a sparser mask (a buffer kept from the first call would show through)
                maskB = maskA.copy()
                maskB[rng.randrange(nx)] = 0
                nvB = int((maskB == 1).sum())
                dataB = before[:, :, :nvB]
                outB = wfslib.make_subaps_2d(dataB, maskB)
                outA2 = wfslib.make_subaps_2d(data, maskA)
            if getattr(out, "shape", None) != (frames, 2, nx, nx):
                bad("scatter:shape", "make_subaps_2d output has shape %s for data %s and a %dx%d mask" % (getattr(out, "shape", None), data.shape, nx, nx), **rep)
                continue
            back = out[:, :, maskA == 1]
            if back.shape != before.shape or not numpy.array_equal(back, before) or (out[:, :, maskA != 1] != 0).any():
                bad("scatter:roundtrip:data-%s:%s" % (dt, layout), "make_subaps_2d(data, mask)[:, :, mask == 1] ≠ data (or the map is non-zero off "
                    "the mask) for a %dx%d %s mask with %d valid sub-apertures and %s data in %s layout (map dtype %s)"
                    % (nx, nx, numpy.dtype(mdt).name, nv, dt, layout, out.dtype), **rep)
                continue
            okB = getattr(outB, "shape", None) == (frames, 2, nx, nx) and numpy.array_equal(outB[:, :, maskB == 1], dataB) \
                and not (outB[:, :, maskB != 1] != 0).any()
            okA2 = getattr(outA2, "shape", None) == out.shape and numpy.array_equal(outA2, out) and not numpy.shares_memory(outA2, out)
            if not (okB and okA2):
                bad("scatter:history", "make_subaps_2d called three times with maps of the same shape (%dx%d, %d frames, %s data): mask A, a "
                    "sparser mask B, mask A again — %s" % (nx, nx, frames, dt, "the map of B is wrong (values of A off its mask?)" if not okB
                                                           else "the second map of A differs from / shares memory with the first"),
                    maskB=maskB.tolist(), **rep)
            if not numpy.array_equal(data, before):
                note_broke(chk, "make_subaps_2d modifies its data argument (the model is a pure function); data dtype %s, layout %s" % (dt, layout))


def run(chk):
    quick = chk.tier == "quick"
    chk.rule = ("correspondence: the Lean model run at binary64 vs the real code, compared EXACTLY (bit patterns of coordinates and "
                "fills, 0/1 patterns, integers) - every model operation is one IEEE operation in both worlds (masks there hold multiples "
                "of 1/8, so no partial sum is rounded and the order of summation does not matter); oracle: the property evaluated on the "
                "real code in exact rational arithmetic - circle: exact on dyadic inputs incl. ties distance==radius near and 2^8..2^20 "
                "pixels away, near-ties (|d²-r²| ≤ 1e-9·max(1,r²,c²)) skipped only for the arbitrary-double and the 1e9..1e300 classes; "
                "findActiveSubaps: cells with fl(exact mean) >= threshold, fl = correctly rounded to binary64, for masks with exact sums "
                "(0/1, k/8; every dtype), ties mean==threshold=k/N for EVERY k on cells of 9/25/36/49/100 pixels and the two "
                "neighbouring doubles of k/N; masks with arbitrary values: cells with |mean-threshold| ≤ 2^-43 relative are undecided; "
                "fills within 1 ulp (exact-sum masks; observed 0) / 2^-43 relative (arbitrary masks; observed ≤ 3 ulp) of the exact mean "
                "and of computeFillFactor; make_subaps_2d: read-back through mask==1 equals the data VALUE for value (bool, int8, uint8, "
                "int64, float32, float64 masks × float64, float32, int64, >2^53 integers, complex data); distinct = distinct input tuples")
    chk.assumptions = [
        "no clause of the property is left unproved about the model (the area clause is circle_area_le/_ge/_tendsto); what is "
        "assumed is the model-to-code tie, checked exactly on generated inputs on every run",
        "theorems are exact-arithmetic statements over an ordered field; at binary64 they apply verbatim when the arithmetic is exact "
        "(dyadic radii/centres; integer sub-aperture spacing, i.e. subaps | n; cell means k/N with N a power of two); IEEE rounding "
        "(e.g. the mean k/N of a 5x5 or 10x10 cell, one correctly rounded division) is exercised by the bit-exact correspondence and "
        "by the oracle's reference fl(mean) >= threshold, not proved",
        "the model adds the pixels of a cell left to right (sumOver) while ndarray.mean adds pairwise/blocked: the bit-exact tie holds "
        "only because the correspondence masks hold zeros and ones or multiples of 1/8 (every partial sum exact); for masks with "
        "arbitrary values the order of summation is NOT modelled and the oracle allows the rigorous summation error (N+1)·2^-53 "
        "(bounded by the tolerance 2^-43) around the exact mean",
        "NumPy slicing, boolean indexing, dtype promotion (a float64 mean against float/numpy.float64/numpy.float32/int thresholds; the "
        "map allocated with the data's dtype) and mean() semantics are mirrored by the model and exercised by the correspondence only",
        "in-place modification of an argument and the dtype of a result whose values are right are not part of the property: they are "
        "reported as a correspondence break (the model is a pure function with the payload type of the data), not as a violation",
        "circle with radius and centre BOTH beyond ~1e154 overflows x*x+y*y and r*r to +inf (every pixel selected); such inputs are "
        "not generated (the 1e9..1e300 class keeps one of the two moderate or both ≤ 2e150)",
    ]
    chk.notes = [
        "domain: r >= 0; subaps >= 1; make_subaps_2d masks are square (its docstring: shape (nxSubaps, nxSubaps)) and data has one entry "
        "per valid sub-aperture; observation outside that domain (not a finding): for a non-square mask the loops use mask.shape[0] "
        "for both axes, so a (2,3) mask loses its last column and a (3,2) mask raises IndexError",
        "numpy.round (findActiveSubaps) and Python round (computeFillFactor) are both round-half-to-even; one model function roundHE "
        "serves both and the `round` correspondence op checks on every run that the two library roundings still agree",
        "defect repaired on the pinned tree (fixes/C14-float32-mask-mean.diff): the cell mean of a float32 mask was taken in single "
        "precision, so a cell filled exactly to the threshold was dropped (70 of 100 pixels, threshold numpy.float64(0.7)) or a cell "
        "below it selected (threshold 1.0000000000000002 as a Python float is a weak scalar and became float32(1.0)); fills of "
        "findActiveSubaps were float32; the mean is now taken in double precision in findActiveSubaps and computeFillFactor",
        "a sub-aperture count larger than the mask size gives empty cells whose mean is NaN: they are never selected (model: guard "
        "count != 0; theorem active_iff_mean_ge carries the guard, active_iff_mean_ge' shows it is vacuous for subaps <= n)",
    ]
    chk.build_and_audit("AoVerif.Props.C14", "AoVerif.Props.C14", REQUIRED)
    try:
        correspondence(chk, quick)
    except common.LeanError as ex:
        chk.broke("correspondence", "the C14 driver does not build / run", str(ex))
    STATS.clear()
    oracle(chk, quick)
    exhaustive_small(chk, quick)
    oracle_round5(chk, quick)
    chk.notes.append("observed in this run (largest deviations, in units in the last place): %s"
                     % ", ".join("%s=%g" % kv for kv in sorted(STATS.items())))
