"""C01 — the slope covariance matrix equals the true covariance of the WFS slopes."""
import copy
import json
import math

import numpy
import scipy.special

from .. import common, t1check

MANIFEST = {
    "text": "Lean 4 theorems, for every number of sensors, every 0/1 mask, every geometry, wavelength, diameter and layer list: "
            "each per-pair kernel (the definitions REGENERATED from compute_covariance_xx/yy/xy on every run, tied by rfl to the "
            "model) is twice the inner product of two finite differences of the phase whenever the structure function is a "
            "squared-distance kernel (polarisation identity); the modelled assembly (program-ordered block writes + mirror) then has "
            "EVERY entry equal to the sum over layers of the inner product of the two corresponding finite-difference slopes at the "
            "cone-projected positions, is a sum of Gram matrices, symmetric and positive semi-definite, ordered per sensor x then y, "
            "additive over layers, proportional to r0^(-5/3) and to the product of the two wavelengths. The model is tied to the "
            "code by a Float correspondence (geometry bit-exact, block placement with an integer stand-in structure function, "
            "values with the library's von Karman function) and a brute-force Gram oracle on the real code supplies failing inputs.",
    "note": "Trusted: Lean kernel + propext/Classical.choice/Quot.sound; Mathlib inner-product spaces and Matrix.PosSemidef; translator T1 "
            "(self-checked); the hand-written assembly model (checked by correspondence only). Not proved: that the von Karman closed "
            "form IS a squared-distance kernel (H2, needs Bessel functions; sampled via min-eigenvalue), the effect of the 1e-20 "
            "regularisation of separations (theorems Gram/PSD are for eps=0; the per-entry theorem holds for every eps), float32 "
            "storage and IEEE rounding. A layer exactly AT the altitude of a laser guide star is outside the domain (projected "
            "diameter 0: the code divides by zero, Lean's x/0=0 makes the statements empty there; `WellPosed`, `entry_eq_cov_wellposed`). "
            "The pinned tree violated the property in four ways; fixes/C01-*.diff repair them.",
    "technique": "Lean 4 proof (polarisation/Gram argument, index arithmetic by induction) over a hand-written model tied to "
                 "translator-regenerated kernels + differential correspondence + brute-force Gram oracle",
}
REQUIRED = ["kernel_xx_is_generated", "kernel_yy_is_generated", "kernel_xy_is_generated",
            "kernel_xx_eq_cov", "kernel_yy_eq_cov", "kernel_xy_eq_cov", "kernel_yx_eq_cov",
            "projection_lgs", "projection_ngs", "subapPos_eq",
            "entry_lower_eq_cov", "upper_zero_before_mirror", "entry_eq_cov",
            "ordering_onto", "ordering_injective", "ordering_sensors", "ordering_x_then_y",
            "mirror_correct", "assembled_symm", "assembled_eq_gram", "assembled_posSemidef",
            "additive_layers", "scale_wavelength", "scale_r0", "vk_scales_r0", "where_ordering",
            "scale_r0_layers", "scale_r0_vk", "layerDiam_ne_zero", "layer_at_gs_altitude", "slope_is_quotient",
            "entry_eq_cov_wellposed", "where_links_cfg", "nsub_eq_mask_sum"]
T1_NAMES = ["structure_function_vk", "compute_covariance_xx", "compute_covariance_yy", "compute_covariance_xy"]
EPS = 1e-20
TOL = 1e-5          # relative to the largest |entry| of the expected matrix (float32 storage: 6e-8 per accumulation)
KINDS = {(0, 0): "xx", (1, 1): "yy", (0, 1): "xy", (1, 0): "yx"}


# --------------------------------------------------------------------------------------------- configurations
def random_mask(rng, nr, nc, style):
    while True:
        if style == "full":
            m = [[1] * nc for _ in range(nr)]
        elif style == "disc":
            cy, cx, rad = (nr - 1) / 2., (nc - 1) / 2., max(nr, nc) / 2.
            m = [[1 if (r - cy) ** 2 + (c - cx) ** 2 <= rad ** 2 * 0.8 else 0 for c in range(nc)] for r in range(nr)]
        else:
            m = [[rng.randint(0, 1) for _ in range(nc)] for _ in range(nr)]
        if sum(map(sum, m)) > 0:
            return m


def point_symmetric(m):
    a = numpy.array(m)
    return bool((a == a[::-1, ::-1]).all())


# how each constructor argument is handed over: the property quantifies over the VALUES; the library's docstring says
# "ndarray" but lists, tuples, integer and single-precision arrays of the same values are the same configuration
FIELDS = ("diam", "gs_alt", "gs_pos", "lam", "lalt", "r0", "L0")
# round 5: "npslist" = list of numpy.float64 scalars, "i32" = int32 ndarray, "u64" = uint64 ndarray (never for gs_pos, which is signed), and float64 ndarrays in other memory layouts: "strided" (every second element of
# a NaN-filled buffer), "neg" (negative strides), "ro" (read-only), "F" (Fortran order; 2-D gs_positions), "bcast" (stride-0
# read-only broadcast when all entries are equal, else read-only)
LAYOUT_KINDS = ("strided", "neg", "ro", "F", "bcast")
INT_KINDS = ("int", "intlist", "i32", "u64")
EXACT_KINDS = ("f64", "list", "tuple", "int", "intlist", "npslist", "i32", "u64") + LAYOUT_KINDS     # same binary64 arithmetic as the model (geometry bit-exact)
ALL_KINDS = EXACT_KINDS + ("f32",)
MASK_DTYPES = ("int64", "bool", "uint8", "int32", "float64", "float32")
MASK_CONTAINERS = ("list", "tuple", "3d")          # "3d": one (n_wfs, ny, nx) ndarray when every mask has the same shape (as the test-suite does)
MASK_LAYOUTS = ("C", "F", "strided", "ro")
D_KINDS = ("float", "pyint", "np64", "np32", "0d")   # telescope_diameter: Python float / int, NumPy scalars, 0-d array (of the same value)
N_KINDS = ("pyint", "np64", "np32")                 # n_wfs, n_layers
CALL_KINDS = ("kw", "pos", "pos-nothreads", "kw-nothreads", "pkg", "pkg-pos")


def _field_values(cfg, f):
    if f in ("lalt", "r0", "L0"):
        key = {"lalt": "alt", "r0": "r0", "L0": "L0"}[f]
        return [l[key] for l in cfg["layers"]], lambda i, v: cfg["layers"][i].__setitem__(key, v)
    if f == "gs_pos":
        return None, None
    return [w[f] for w in cfg["wfs"]], lambda i, v: cfg["wfs"][i].__setitem__(f, v)


def assign_types(cfg, rng, kinds=ALL_KINDS, p_plain=0.35):
    """choose container/dtype per argument and make the VALUES representable in it (integers for the integer kinds,
    single-precision numbers for float32), so that the oracle and the model see the numbers the library receives"""
    types = {}
    if rng.random() >= p_plain:
        for f in FIELDS:
            types[f] = rng.choice(kinds) if rng.random() < 0.6 else "f64"
            # unsigned sub-aperture diameters are generated too: finding entry:uint-diameters (`subap2_diam - subap1_diam` wrapped
            # around in compute_covariance_xx/yy for natural guide stars), fixed by e94659e
            if types[f] == "u64" and f == "gs_pos":
                types[f] = "i32"
        # round 5: how the masks, the scalars and the call itself are handed over (values unchanged)
        if rng.random() < 0.6:
            types["mask"] = "%s|%s|%s" % (rng.choice(MASK_DTYPES), rng.choice(MASK_CONTAINERS), rng.choice(MASK_LAYOUTS))
        if rng.random() < 0.4:
            dk = rng.choice(D_KINDS)
            if dk == "pyint" and cfg["D"] != int(cfg["D"]):
                dk = "np64"
            if dk == "np32" and float(numpy.float32(cfg["D"])) != cfg["D"]:
                dk = "0d"
            types["D"] = dk
        if rng.random() < 0.3:
            types["n"] = rng.choice(N_KINDS)
        if rng.random() < 0.5:
            types["call"] = rng.choice(CALL_KINDS)
    for f, k in list(types.items()):
        if f not in FIELDS:
            continue
        if k in INT_KINDS:
            if f == "gs_pos":
                for w in cfg["wfs"]:
                    w["gs_pos"] = [float(round(v)) for v in w["gs_pos"]]
                continue
            vals, put = _field_values(cfg, f)
            for i, v in enumerate(vals):
                iv = float(round(v))
                if f in ("diam", "lam", "r0", "L0") and iv < 1:
                    iv = 1.0                  # positive quantities stay positive
                put(i, iv)
            # a layer must stay strictly below every finite guide-star altitude: rounding keeps 18000 < 20000
        elif k == "f32":
            if f == "gs_pos":
                for w in cfg["wfs"]:
                    w["gs_pos"] = [float(numpy.float32(v)) for v in w["gs_pos"]]
                continue
            vals, put = _field_values(cfg, f)
            for i, v in enumerate(vals):
                put(i, float(numpy.float32(v)))
    if types:
        cfg["types"] = types
    return cfg


def gen_cfg(rng, max_wfs=3, max_n=4, max_total=12, dyadic=False, lam_units=True, types=True, kinds=ALL_KINDS):
    """a configuration drawn from the property's domain: positive diameters / r0 / L0 / wavelengths, layers strictly below
    every finite guide-star altitude"""
    while True:
        nw = rng.randint(1, max_wfs)
        wfs = []
        for _ in range(nw):
            nr = rng.randint(1, max_n)
            nc = nr if rng.random() < 0.7 else rng.randint(1, max_n)
            wfs.append({"mask": random_mask(rng, nr, nc, rng.choice(["rand", "rand", "rand", "disc", "full"]))})
        if sum(sum(map(sum, w["mask"])) for w in wfs) <= max_total:
            break
    if dyadic:
        D = rng.choice([1.0, 2.0, 4.0, 8.0])
        nl = rng.randint(1, 3)
        layers = [{"alt": rng.choice([0.0, 4096.0, 8192.0]), "r0": float(rng.randint(1, 4)), "L0": float(rng.randint(1, 64))}
                  for _ in range(nl)]
        if rng.random() < 0.3:
            layers.append(dict(layers[0], r0=float(rng.choice([x for x in (1, 2, 3, 4, 8) if x != layers[0]["r0"]]))))
        for w in wfs:
            w["diam"] = rng.choice([0.25, 0.5, 1.0, 2.0])
            w["gs_alt"] = rng.choice([0.0, 0.0, 16384.0, 32768.0])
            # off-axis too: the translation θ·π/180/3600·h is not dyadic, but model and code perform the same binary64
            # operations in the same order (the `geom` comparison is bit-exact), so the stand-in stays exact
            w["gs_pos"] = [0.0, 0.0] if rng.random() < 0.4 else [float(rng.randint(-40, 40)), float(rng.randint(-40, 40))]
            w["lam"] = rng.choice([1.0, 2.0, 0.5, 5e-7, 1.65e-6])
        cfg = {"D": D, "wfs": wfs, "layers": layers}
        return assign_types(cfg, rng, kinds=EXACT_KINDS) if types else cfg
    D = rng.choice([1.0, 4.0, 4.2, 8.0, 39.0])
    nl = rng.randint(1, 3)
    layers = []
    for _ in range(nl):
        layers.append({"alt": rng.choice([0.0, rng.uniform(100., 18000.)]),
                       "r0": math.exp(rng.uniform(math.log(0.05), math.log(1.0))),
                       # outer scales from a few metres to several km (the near-Kolmogorov regime users ask for with a huge L0)
                       "L0": math.exp(rng.uniform(math.log(2.0), math.log(200.))) if rng.random() < 0.7
                       else math.exp(rng.uniform(math.log(200.), math.log(2e4)))})
    if rng.random() < 0.3:
        # two sheets of turbulence in one place: dome seeing on top of the ground layer, two layers of one altitude bin — the same
        # altitude and outer scale, another strength (anything keyed on geometry alone sees these two layers as one)
        layers.insert(rng.randrange(len(layers) + 1), dict(layers[0], r0=layers[0]["r0"] * rng.choice([0.37, 0.5, 2.0, 3.1])))
    unit = rng.choice([1.0, 1.0, 1.0, 1e6, 1e9]) if lam_units else 1.0     # metres, microns, nanometres
    same_d = rng.random() < 0.5
    base_n = max(len(wfs[0]["mask"]), len(wfs[0]["mask"][0]))
    for w in wfs:
        n = max(len(w["mask"]), len(w["mask"][0]))
        w["diam"] = D / (base_n if same_d else n) * (1.0 if rng.random() < 0.7 else rng.choice([0.8, 1.25, 0.5]))
        w["gs_alt"] = rng.choice([0.0, rng.uniform(20000., 30000.), 90000.0])
        w["gs_pos"] = [0.0, 0.0] if rng.random() < 0.3 else [rng.uniform(-40, 40), rng.uniform(-40, 40)]
        w["lam"] = rng.choice([5e-7, 5.89e-7, 1.65e-6]) * unit
    cfg = {"D": D, "wfs": wfs, "layers": layers}
    return assign_types(cfg, rng, kinds=kinds) if types else cfg


def retyped(cfg, field, **changes):
    """cfg with `changes`, the modified argument handed over as float64 where its old container could not hold the new values"""
    t = dict(cfg.get("types") or {})
    if t.get(field) in INT_KINDS + ("f32",):
        t[field] = "f64"
    out = dict(cfg, **changes)
    if t:
        out["types"] = t
    return out


def classes(cfg):
    out = ["nwfs=%d" % len(cfg["wfs"]), "nlayers=%d" % len(cfg["layers"])]
    alts = [w["gs_alt"] for w in cfg["wfs"]]
    out.append("gs:" + ("ngs" if all(a == 0 for a in alts) else "lgs" if all(a != 0 for a in alts) else "mixed"))
    out.append("mask:" + ("all-point-symmetric" if all(point_symmetric(w["mask"]) for w in cfg["wfs"]) else "some-asymmetric"))
    out.append("offaxis" if any(w["gs_pos"] != [0.0, 0.0] for w in cfg["wfs"]) else "onaxis")
    out.append("diam:" + ("equal" if len({w["diam"] for w in cfg["wfs"]}) == 1 else "unequal"))
    out.append("lam:" + ("equal" if len({w["lam"] for w in cfg["wfs"]}) == 1 else "unequal"))
    out.append("elevated-layer" if any(l["alt"] != 0 for l in cfg["layers"]) else "ground-only")
    out.append("nsub:" + ("equal" if len({sum(map(sum, w["mask"])) for w in cfg["wfs"]}) == 1 else "unequal"))
    for f, k in sorted((cfg.get("types") or {}).items()):
        if f == "mask":
            out += ["arg:mask:%s:%s" % kv for kv in zip(("dtype", "container", "layout"), k.split("|"))]
        elif k != "f64":
            out.append("arg:%s:%s" % (f, k))
    return out


def _layout(a, kind):
    """the float64 array `a` (1-D or (n, 2)) in another memory layout, values unchanged"""
    if kind == "strided":
        big = numpy.full(tuple(2 * n + 1 for n in a.shape), numpy.nan)
        v = big[tuple(slice(1, None, 2) for _ in a.shape)]
        v[...] = a
        return v
    if kind == "neg":
        rev = tuple(slice(None, None, -1) for _ in a.shape)
        return a[rev].copy()[rev]
    if kind == "F":
        return numpy.asfortranarray(a)
    if kind == "bcast" and len(a) and all(numpy.array_equal(a[0], r) for r in a):
        return numpy.broadcast_to(numpy.array(a[0]), a.shape)
    a = a.copy()
    a.setflags(write=False)
    return a


def _conv(values, kind):
    if kind in LAYOUT_KINDS:
        return _layout(numpy.array(values, dtype=float), kind)
    if kind == "npslist":
        return [numpy.float64(v) for v in values]
    if kind == "i32":
        return numpy.array([int(v) for v in values], dtype=numpy.int32)
    if kind == "u64":
        return numpy.array([int(v) for v in values], dtype=numpy.uint64)
    if kind == "list":
        return [float(v) for v in values]
    if kind == "tuple":
        return tuple(float(v) for v in values)
    if kind == "intlist":
        return [int(v) for v in values]
    if kind == "int":
        return numpy.array([int(v) for v in values], dtype=int)
    if kind == "f32":
        return numpy.array(values, dtype=numpy.float32)
    return numpy.array(values, dtype=float)


def _conv2(rows, kind):
    if kind in LAYOUT_KINDS:
        return _layout(numpy.array(rows, dtype=float), kind)
    if kind == "npslist":
        return [numpy.array(r, dtype=float) for r in rows]          # a list of float64 arrays, one per sensor
    if kind == "i32":
        return numpy.array([[int(v) for v in r] for r in rows], dtype=numpy.int32)
    if kind in ("list", "tuple", "intlist"):
        rows = [_conv(r, kind) for r in rows]
        return tuple(rows) if kind == "tuple" else rows
    if kind == "int":
        return numpy.array([[int(v) for v in r] for r in rows], dtype=int)
    return numpy.array(rows, dtype=numpy.float32 if kind == "f32" else float)


def _masks(ws, kind):
    dt, cont, lay = (kind or "int64|list|C").split("|")
    arrs = [numpy.array(w["mask"]).astype(dt) for w in ws]

    def place(a):
        if lay == "F":
            return numpy.asfortranarray(a)
        if lay == "strided":
            big = numpy.full(tuple(2 * n + 1 for n in a.shape), 1 if dt == "bool" else 7, dtype=a.dtype)   # junk between the cells
            v = big[tuple(slice(1, None, 2) for _ in a.shape)]
            v[...] = a
            return v
        if lay == "ro":
            a = a.copy()
            a.setflags(write=False)
        return a
    if cont == "3d" and len({a.shape for a in arrs}) == 1:
        return place(numpy.array(arrs))
    arrs = [place(a) for a in arrs]
    return tuple(arrs) if cont == "tuple" else arrs


def _scalar(v, kind):
    if kind == "pyint":
        return int(v)
    if kind == "np64":
        return numpy.float64(v) if isinstance(v, float) else numpy.int64(v)
    if kind == "np32":
        return numpy.float32(v) if isinstance(v, float) else numpy.int32(v)
    if kind == "0d":
        return numpy.array(v)
    return v


def make_inputs(cfg, as_lists=False):
    """the constructor arguments, in the containers / dtypes `cfg["types"]` asks for (default: float64 ndarrays)"""
    ws, ls = cfg["wfs"], cfg["layers"]
    t = dict(cfg.get("types") or {})
    if as_lists:
        t = {f: "list" for f in FIELDS}
    k = lambda f: t.get(f, "f64")
    return {"n_wfs": _scalar(len(ws), t.get("n", "pyint")), "pupil_masks": _masks(ws, t.get("mask")),
            "telescope_diameter": _scalar(cfg["D"], t.get("D", "float")),
            "subap_diameters": _conv([w["diam"] for w in ws], k("diam")),
            "gs_altitudes": _conv([w["gs_alt"] for w in ws], k("gs_alt")),
            "gs_positions": _conv2([w["gs_pos"] for w in ws], k("gs_pos")),
            "wfs_wavelengths": _conv([w["lam"] for w in ws], k("lam")),
            "n_layers": _scalar(len(ls), t.get("n", "pyint")), "layer_altitudes": _conv([l["alt"] for l in ls], k("lalt")),
            "layer_r0s": _conv([l["r0"] for l in ls], k("r0")), "layer_L0s": _conv([l["L0"] for l in ls], k("L0"))}


ARG_ORDER = ("n_wfs", "pupil_masks", "telescope_diameter", "subap_diameters", "gs_altitudes", "gs_positions", "wfs_wavelengths",
             "n_layers", "layer_altitudes", "layer_r0s", "layer_L0s")


def object_from(inputs, threads=1, call=None):
    """construct the object; `call` = how: keywords (default) / positionally, `threads` given or left to its default (serial only),
    through the module or through the package-level names the test-suite uses"""
    import aotools
    from aotools.turbulence import slopecovariance as sc
    call = call or "kw"
    cls = {"pkg": aotools.CovarianceMatrix, "pkg-pos": aotools.turbulence.CovarianceMatrix}.get(call, sc.CovarianceMatrix)
    if call in ("pos", "pkg-pos"):
        return cls(*([inputs[a] for a in ARG_ORDER] + [threads]))
    if call == "pos-nothreads":
        return cls(*[inputs[a] for a in ARG_ORDER]) if threads == 1 else cls(*[inputs[a] for a in ARG_ORDER], threads=threads)
    if call == "kw-nothreads" and threads == 1:
        return cls(**inputs)
    return cls(threads=threads, **inputs)


def make_object(cfg, threads=1, as_lists=False):
    return object_from(make_inputs(cfg, as_lists), threads, (cfg.get("types") or {}).get("call"))


def snapshot(x):
    """a deep copy that remembers container type, dtype and every value"""
    if isinstance(x, numpy.ndarray):
        return ("nd", x.dtype.str, x.shape, x.copy())
    if isinstance(x, (list, tuple)):
        return (type(x).__name__, [snapshot(v) for v in x])
    if isinstance(x, dict):
        return ("dict", {k: snapshot(v) for k, v in x.items()})
    return ("v", type(x).__name__, x)


def same_as_snapshot(x, snap):
    if isinstance(x, numpy.ndarray):
        return snap[0] == "nd" and snap[1] == x.dtype.str and snap[2] == x.shape and numpy.array_equal(x, snap[3], equal_nan=True)
    if isinstance(x, (list, tuple)):
        return snap[0] == type(x).__name__ and len(snap[1]) == len(x) and all(same_as_snapshot(v, sv) for v, sv in zip(x, snap[1]))
    if isinstance(x, dict):
        return snap[0] == "dict" and set(snap[1]) == set(x) and all(same_as_snapshot(v, snap[1][k]) for k, v in x.items())
    return snap[0] == "v" and snap[1] == type(x).__name__ and snap[2] == x


def build(cfg, threads=1, as_lists=False):
    with numpy.errstate(all="ignore"):
        return make_object(cfg, threads, as_lists).make_covariance_matrix()


# --------------------------------------------------------------------------------------------- independent oracle
def dvk(r, r0, L0):
    """von Karman structure function, D(0) = 0 (written independently of the library)"""
    r = numpy.asarray(r, dtype=float)
    out = numpy.zeros_like(r)
    m = r > 0
    x = 2 * numpy.pi * r[m] / L0
    out[m] = 0.17253 * (L0 / r0) ** (5. / 3) * (1 - 2 ** (1. / 6) / scipy.special.gamma(5. / 6) * x ** (5. / 6)
                                                 * scipy.special.kv(5. / 6, x))
    return out


def rows_of(cfg):
    """(sensor, axis, sub-aperture) of every row, in the order the property states"""
    rows = []
    for w, W in enumerate(cfg["wfs"]):
        n = int(numpy.array(W["mask"]).sum())
        rows += [(w, e, a) for e in (0, 1) for a in range(n)]
    return rows


def gram_truth(cfg, sf=dvk):
    """brute force: covariance of the finite-difference slopes from the structure function alone,
    cov(φ(A+)-φ(A-), φ(B+)-φ(B-)) = ½[-D(A+,B+) + D(A+,B-) + D(A-,B+) - D(A-,B-)], summed over layers"""
    rows = rows_of(cfg)
    n = len(rows)
    C = numpy.zeros((n, n))
    pos0 = []
    for W in cfg["wfs"]:
        idx = numpy.argwhere(numpy.array(W["mask"]) == 1).astype(float)        # row-major, like numpy.where
        pos0.append(idx * W["diam"] - cfg["D"] / 2. - W["diam"] / 2.)
    for L in cfg["layers"]:
        P, M, g = numpy.zeros((n, 2)), numpy.zeros((n, 2)), numpy.zeros(n)
        for k, (w, e, a) in enumerate(rows):
            W = cfg["wfs"][w]
            s = 1. - L["alt"] / W["gs_alt"] if W["gs_alt"] != 0 else 1.
            centre = pos0[w][a] * s + numpy.array(W["gs_pos"], dtype=float) * (numpy.pi / 180. / 3600.) * L["alt"]
            d = W["diam"] * s
            axis = numpy.array([1., 0.]) if e == 0 else numpy.array([0., 1.])
            P[k], M[k], g[k] = centre + d / 2 * axis, centre - d / 2 * axis, W["lam"] / (2 * numpy.pi * d)

        def DD(U, V):
            return sf(numpy.sqrt(((U[:, None, :] - V[None, :, :]) ** 2).sum(-1)), L["r0"], L["L0"])
        C += g[:, None] * g[None, :] * 0.5 * (-DD(P, P) + DD(P, M) + DD(M, P) - DD(M, M))
    return C, rows


def check_config(cfg, fail, extra=True, tag=""):
    """the property on the real code for one configuration; calls fail(key, what) for each violated clause"""
    before = copy.deepcopy(cfg)
    inputs = make_inputs(cfg)
    snap = snapshot(inputs)              # taken BEFORE the library sees the arguments
    call = (cfg.get("types") or {}).get("call")
    try:
        with numpy.errstate(all="ignore"):
            got = object_from(inputs, call=call).make_covariance_matrix()
    except Exception as ex:
        how = ",".join("%s:%s" % (f, k) for f, k in sorted((cfg.get("types") or {}).items()) if k != "f64")
        fail("raises:" + type(ex).__name__, "%smake_covariance_matrix raised %s: %s%s"
             % (tag, type(ex).__name__, ex, " (arguments given as %s)" % how if how else ""))
        return None
    mutated = [f for f in inputs if not same_as_snapshot(inputs[f], snap[1][f])]
    exp, rows = gram_truth(cfg)
    n = len(rows)
    if got.shape != (n, n):
        fail("shape", "shape %s, expected %s" % (got.shape, (n, n)))
        return None
    g = got.astype(float)
    scale = numpy.abs(exp).max()
    if not numpy.isfinite(g).all():
        fail("nonfinite", "matrix has non-finite entries")
        return None
    # every entry, reported per kind of block
    err = numpy.abs(g - exp)
    if err.max() > TOL * scale:
        seen = set()
        for r, c in zip(*numpy.where(err > TOL * scale)):
            (wi, ei, ai), (wj, ej, bj) = rows[r], rows[c]
            lo, hi = (rows[r], rows[c]) if r >= c else (rows[c], rows[r])
            kind = KINDS[(lo[1], hi[1])]
            where = "same-sensor" if wi == wj else "sensor-pair"
            dd = "eq-diam" if all(abs(cfg["wfs"][wi]["diam"] * (1 - (L["alt"] / cfg["wfs"][wi]["gs_alt"] if cfg["wfs"][wi]["gs_alt"] else 0))
                                      - cfg["wfs"][wj]["diam"] * (1 - (L["alt"] / cfg["wfs"][wj]["gs_alt"] if cfg["wfs"][wj]["gs_alt"] else 0)))
                                  < 1e-12 for L in cfg["layers"]) else "neq-diam"
            key = "entry:%s:%s:%s" % (kind, where, dd)
            if key not in seen:
                seen.add(key)
                fail(key, "%sentry [%d,%d] = slopes %s x %s: got %.9g, covariance of the two slopes is %.9g (max |entry| %.3g)"
                     % (tag, r, c, rows[r], rows[c], g[r, c], exp[r, c], scale))
    if not (got == got.T).all():
        r, c = [int(v[0]) for v in numpy.where(got != got.T)]
        fail("symmetric", "%sM[%d,%d]=%r but M[%d,%d]=%r" % (tag, r, c, float(got[r, c]), c, r, float(got[c, r])))
    ev = numpy.linalg.eigvalsh((g + g.T) / 2)
    if ev.min() < -TOL * max(numpy.trace(g), scale):
        fail("psd", "%ssmallest eigenvalue %.3g, trace %.3g" % (tag, ev.min(), numpy.trace(g)))
    if mutated or cfg != before:
        fail("inputs-mutated", "%sthe caller's constructor arguments were modified by the build: %s" % (tag, ", ".join(mutated) or "cfg"))
    # a second object made from the VERY SAME argument objects must give the same matrix (a view of the caller's array
    # converted or shifted in place shows here even where the first build is right)
    try:
        with numpy.errstate(all="ignore"):
            again = object_from(inputs, call=call).make_covariance_matrix()
        if again.shape != got.shape or not numpy.array_equal(again, got):
            fail("repeat-call:same-arguments", "%sa second CovarianceMatrix built from the same argument objects returns a different "
                 "matrix (max difference %.3g, max |entry| %.3g)" % (
                     tag, numpy.abs(again.astype(float) - g).max() if again.shape == got.shape else float("nan"), scale))
    except Exception as ex:
        fail("raises:" + type(ex).__name__, "%sa second object from the same arguments raised %s: %s" % (tag, type(ex).__name__, ex))
    if not extra:
        return got
    try:
        return _check_extra(cfg, fail, tag, got, g, scale, rows, n)
    except Exception as ex:
        fail("raises:" + type(ex).__name__, "%sa repeated / rescaled call raised %s: %s" % (tag, type(ex).__name__, ex))
        return got


def _check_extra(cfg, fail, tag, got, g, scale, rows, n):
    # the same object, asked again, and a fresh object after it: no state leaks
    cm = make_object(cfg)
    with numpy.errstate(all="ignore"):
        a1 = cm.make_covariance_matrix().copy()
        a2 = cm.make_covariance_matrix().copy()
    if not (numpy.array_equal(a1, a2) and numpy.array_equal(a1, got)):
        fail("repeat-call", "%stwo calls of make_covariance_matrix() (or two objects) on the same configuration differ by %.3g"
             % (tag, max(numpy.abs(a1.astype(float) - a2).max(), numpy.abs(a1.astype(float) - got).max())))
    # mirror: the returned matrix is the lower triangle of the assembled one, reflected
    with numpy.errstate(all="ignore"):
        cm._make_covariance_matrix()
    pre = cm.covariance_matrix
    refl = (numpy.tril(pre) + numpy.tril(pre, -1).T).astype(float)
    if numpy.abs(refl - g).max() > TOL * scale:
        fail("mirror", "%sreturned matrix is not the assembled lower triangle reflected about the diagonal (max diff %.3g, scale %.3g)"
             % (tag, numpy.abs(refl - g).max(), scale))
    # the same system observed at wavelengths λ·2^m: the assembled matrix is then EXACTLY 4^m times this one (binary scaling
    # commutes with every rounding), so the mirror step can be searched cheaply over m; a hit is confirmed through the
    # public entry point with the rescaled wavelengths before it is reported
    from aotools.turbulence import slopecovariance as sc
    nz = numpy.abs(pre[pre != 0])
    for m in range(-45, 46):
        f = 4.0 ** m
        if nz.size == 0 or nz.min() * f < 1e-30 or nz.max() * f > 1e30:
            continue
        P = (pre * numpy.float32(f)).astype(numpy.float32)
        with numpy.errstate(all="ignore"):
            out = numpy.asarray(sc.mirror_covariance_matrix(P.copy())).astype(float)
        want = (numpy.tril(P) + numpy.tril(P, -1).T).astype(float)
        if out.shape != want.shape or not numpy.isfinite(out).all() or numpy.abs(out - want).max() > TOL * numpy.abs(want).max():
            cfg2 = retyped(cfg, "lam", wfs=[dict(w, lam=w["lam"] * 2.0 ** m) for w in cfg["wfs"]])
            got2 = build(cfg2).astype(float)
            exp2, _ = gram_truth(cfg2)
            if not numpy.isfinite(got2).all() or numpy.abs(got2 - exp2).max() > TOL * numpy.abs(exp2).max():
                r, c = numpy.unravel_index(numpy.nanargmax(numpy.abs(got2 - exp2)), got2.shape)
                fail("mirror:wavelength-scale", "%swith the wavelengths multiplied by 2^%d (%s) entry [%d,%d] is %.6g, the covariance of the "
                     "two slopes is %.6g (max |entry| %.3g)" % (tag, m, [w["lam"] for w in cfg2["wfs"]], r, c, got2[r, c], exp2[r, c],
                                                              numpy.abs(exp2).max()), cfg2)
                break
    iu = numpy.triu_indices(n, 1)
    blocks_above = [(r, c) for r, c in zip(*iu) if rows[r][0] < rows[c][0]]
    if any(pre[r, c] != 0 for r, c in blocks_above):
        fail("upper-blocks-nonzero", "%sthe assembled (pre-mirror) matrix has a non-zero entry above the block diagonal" % tag)
    return got


def check_scalings(cfg, rng, fail):
    """additivity over layers, r0^(-5/3), λ_i λ_j"""
    base = build(cfg).astype(float)
    scale = numpy.abs(base).max()
    tol = 2e-6 * scale          # float32 accumulation on both sides
    if len(cfg["layers"]) >= 2:
        k = rng.randint(1, len(cfg["layers"]) - 1)
        a = dict(cfg, layers=cfg["layers"][:k])
        b = dict(cfg, layers=cfg["layers"][k:])
        s = build(a).astype(float) + build(b).astype(float)
        if numpy.abs(s - base).max() > tol:
            fail("additive-layers", "matrix of layers[:%d] + matrix of layers[%d:] differs from the matrix of all layers by %.3g (scale %.3g)"
                 % (k, k, numpy.abs(s - base).max(), scale))
        p = dict(cfg, layers=cfg["layers"][::-1])
        if numpy.abs(build(p).astype(float) - base).max() > tol:
            fail("layer-order", "reversing the layer list changes the matrix by %.3g" % numpy.abs(build(p).astype(float) - base).max())
    f = rng.choice([0.5, 2.0, 3.0, 0.7])
    c2 = retyped(cfg, "r0", layers=[dict(l, r0=l["r0"] * f) for l in cfg["layers"]])
    m2 = build(c2).astype(float)
    if numpy.abs(m2 - f ** (-5. / 3) * base).max() > tol * max(1, f ** (-5. / 3)):
        fail("scale-r0", "all r0 × %g: matrix is not × %g^(-5/3) (max deviation %.3g, scale %.3g)"
             % (f, f, numpy.abs(m2 - f ** (-5. / 3) * base).max(), scale))
    mus = [rng.choice([0.5, 2.0, 3.0, 1.0]) for _ in cfg["wfs"]]
    c3 = retyped(cfg, "lam", wfs=[dict(w, lam=w["lam"] * m) for w, m in zip(cfg["wfs"], mus)])
    m3 = build(c3).astype(float)
    rows = rows_of(cfg)
    fac = numpy.array([mus[w] for (w, _, _) in rows])
    want = base * fac[:, None] * fac[None, :]
    if numpy.abs(m3 - want).max() > tol * max(mus) ** 2:
        fail("scale-wavelength", "wavelengths × %s: block (i,j) is not × μ_i μ_j (max deviation %.3g, scale %.3g)"
             % (mus, numpy.abs(m3 - want).max(), scale))


# --------------------------------------------------------------------------------------------- round 5: sizes, magnitudes, histories
def _sensor(rng, D, n, unit=1.0):
    return {"diam": D / n * (1.0 if rng.random() < 0.7 else rng.choice([0.8, 1.25, 0.5])),
            "gs_alt": rng.choice([0.0, rng.uniform(20000., 30000.), 90000.0]),
            "gs_pos": [0.0, 0.0] if rng.random() < 0.3 else [rng.uniform(-40, 40), rng.uniform(-40, 40)],
            "lam": rng.choice([5e-7, 5.89e-7, 1.65e-6]) * unit}


def _layer(rng):
    return {"alt": rng.choice([0.0, rng.uniform(100., 18000.)]), "r0": math.exp(rng.uniform(math.log(0.05), math.log(1.0))),
            "L0": math.exp(rng.uniform(math.log(2.0), math.log(200.))) if rng.random() < 0.7
            else math.exp(rng.uniform(math.log(200.), math.log(2e4)))}


def gen_big(rng, thorough=False, shape=None):
    """systems beyond gen_cfg's 12 sub-apertures / 4x4 masks / 4 sensors / 4 layers: one large sensor (up to 10x10, thorough 14x14),
    two medium sensors with different counts, many small sensors, many layers, long thin masks"""
    shape = shape or rng.choice(["one-large", "two-medium", "many-sensors", "many-layers", "thin"])
    D = rng.choice([4.0, 4.2, 8.0, 39.0])
    unit = rng.choice([1.0, 1.0, 1e6, 1e9])
    nl = rng.randint(1, 2)
    dims = []
    if shape == "one-large":
        n = rng.randint(7, 14 if thorough else 10)
        dims = [(n, n)] + ([(2, 2)] if rng.random() < 0.3 else [])
    elif shape == "two-medium":
        dims = [(rng.randint(5, 7),) * 2, (rng.randint(4, 7),) * 2]
    elif shape == "many-sensors":
        dims = [(rng.randint(1, 2), rng.randint(1, 2)) for _ in range(rng.randint(5, 12 if thorough else 8))]
    elif shape == "many-layers":
        dims = [(rng.randint(1, 3),) * 2 for _ in range(rng.randint(1, 3))]
        nl = rng.randint(6, 35 if thorough else 12)
    else:
        k = rng.randint(5, 12)
        dims = [rng.choice([(1, k), (k, 1), (2, k), (k, 2)])] + ([(rng.randint(1, 3), rng.randint(1, 6))] if rng.random() < 0.5 else [])
    wfs = []
    for nr, nc in dims:
        w = {"mask": random_mask(rng, nr, nc, rng.choice(["rand", "rand", "disc", "full"]) if nr == nc else rng.choice(["rand", "full"]))}
        w.update(_sensor(rng, D, max(nr, nc), unit))
        wfs.append(w)
    layers = [_layer(rng) for _ in range(nl)]
    if nl >= 6:
        for _ in range(rng.randint(1, 3)):       # several sheets in one altitude bin
            i, j = rng.sample(range(nl), 2)
            layers[j] = dict(layers[i], r0=layers[i]["r0"] * rng.choice([0.37, 2.0, 3.1]))
    cfg = {"D": D, "wfs": wfs, "layers": layers, "class": "big:" + shape}
    return assign_types(cfg, rng)


EXTREMES = ("r0-scale", "L0-small", "wide-field", "low-lgs", "near-gs", "ngs-as-infinity", "small-scale", "huge-telescope",
            "identical-sensors", "unsigned-args")


def gen_extreme(rng, kind=None):
    """parameter magnitudes and boundary values gen_cfg never draws (all inside the property's domain: positive r0, L0, diameters,
    wavelengths; every layer strictly below every finite guide-star altitude)"""
    kind = kind or rng.choice(EXTREMES)
    cfg = gen_cfg(rng, max_total=10, types=False)
    ws, ls = cfg["wfs"], cfg["layers"]
    kinds = ALL_KINDS
    if kind == "r0-scale":                      # Fried parameters of a millimetre / of a hundred metres
        f = 10.0 ** rng.choice([-3, -2, 2, 3])
        for l in ls:
            l["r0"] *= f
    elif kind == "L0-small":                    # outer scale below the sub-aperture / pupil size (saturated structure function)
        for l in ls:
            l["L0"] = math.exp(rng.uniform(math.log(0.05), math.log(2.0)))
    elif kind == "wide-field":                  # guide stars arc-minutes apart
        f = rng.uniform(5, 15)
        for w in ws:
            w["gs_pos"] = [v * f for v in w["gs_pos"]]
        if all(w["gs_pos"] == [0.0, 0.0] for w in ws):
            ws[-1]["gs_pos"] = [rng.uniform(200, 600), -rng.uniform(200, 600)]
    elif kind == "low-lgs":                     # Rayleigh beacons at 8-12 km, layers below them
        g = [rng.uniform(8000., 12000.) for _ in ws]
        for w, a in zip(ws, g):
            if w["gs_alt"] != 0 or rng.random() < 0.5:
                w["gs_alt"] = a
        for l in ls:
            l["alt"] = l["alt"] / 18000. * 0.9 * min(g)
    elif kind == "near-gs":                     # a layer just below a beacon: the projected sub-apertures shrink to 0.5-3 %
        if all(w["gs_alt"] == 0 for w in ws):
            ws[rng.randrange(len(ws))]["gs_alt"] = rng.uniform(20000., 30000.)
        g = min(w["gs_alt"] for w in ws if w["gs_alt"] != 0)
        ls.insert(rng.randrange(len(ls) + 1), dict(_layer(rng), alt=g * rng.uniform(0.97, 0.995)))
        for l in ls:                            # L0 / projected sub-aperture stays <= ~2e5 as in gen_cfg: beyond that the closed form
            l["L0"] = math.exp(rng.uniform(math.log(2.0), math.log(200.)))   # 1 - x^(5/6) K(x) itself loses digits (1.1e-6 seen at 1e7)
        kinds = EXACT_KINDS                     # a single-precision altitude would lose five digits of the cone factor
    elif kind == "ngs-as-infinity":             # the natural guide stars given at infinity / very far / minus zero instead of 0
        if all(w["gs_alt"] != 0 for w in ws):
            ws[rng.randrange(len(ws))]["gs_alt"] = 0.0
        v = rng.choice([float("inf"), 1e12, -0.0])
        for w in ws:
            if w["gs_alt"] == 0:
                w["gs_alt"] = v
        kinds = tuple(k for k in EXACT_KINDS if k not in INT_KINDS)
    elif kind == "small-scale":                 # a centimetre-class pupil
        f = rng.choice([1e-2, 1e-3])
        cfg["D"] *= f
        for w in ws:
            w["diam"] *= f
        for l in ls:
            l["L0"] = math.exp(rng.uniform(math.log(2.0), math.log(200.)))
        kinds = tuple(k for k in ALL_KINDS if k not in INT_KINDS)
    elif kind == "huge-telescope":
        f = 100. / cfg["D"]
        cfg["D"] = 100.
        for w in ws:
            w["diam"] *= f
    elif kind == "identical-sensors":           # one sensor listed twice (exactly singular matrix)
        k = rng.randrange(len(ws))
        ws.insert(rng.randrange(len(ws) + 1), copy.deepcopy(ws[k]))
    cfg["class"] = "extreme:" + kind
    if kind == "unsigned-args":                 # altitudes, wavelengths (nm), r0, L0 ALL as unsigned integer arrays (differences wrap there)
        if all(w["gs_alt"] == 0 for w in ws):
            ws[rng.randrange(len(ws))]["gs_alt"] = rng.uniform(20000., 30000.)
        for w in ws:
            w["lam"] = float(round(w["lam"] * 1e9 if w["lam"] < 1 else w["lam"]))
        assign_types(cfg, rng, kinds=("f64", "list", "i32"), p_plain=0.0)
        cfg["types"].update({f: "u64" for f in ("gs_alt", "lalt", "lam", "r0", "L0")})
        for f in ("gs_alt", "lalt", "lam", "r0", "L0"):
            vals, put = _field_values(cfg, f)
            for i, v in enumerate(vals):
                put(i, max(float(round(v)), 1.0 if f in ("lam", "r0", "L0") else 0.0))
        return cfg
    return assign_types(cfg, rng, kinds=kinds)


def sibling(cfg, field, rng):
    """the same system with ONE constructor argument changed (still inside the domain); returns (attribute name, new cfg)"""
    ws, ls = cfg["wfs"], cfg["layers"]
    if field == "r0":
        f = rng.choice([0.5, 2.0, 3.1])
        return "layer_r0s", retyped(cfg, "r0", layers=[dict(l, r0=l["r0"] * f) for l in ls])
    if field == "L0":
        f = rng.choice([0.5, 2.0, 7.3])
        return "layer_L0s", retyped(cfg, "L0", layers=[dict(l, L0=l["L0"] * f) for l in ls])
    if field == "lalt":
        return "layer_altitudes", retyped(cfg, "lalt", layers=[dict(l, alt=l["alt"] * 0.5 + 300.) for l in ls])
    if field == "gs_pos":
        dx, dy = rng.uniform(5, 25), rng.uniform(-25, -5)
        return "gs_positions", retyped(cfg, "gs_pos", wfs=[dict(w, gs_pos=[w["gs_pos"][0] + dx * (k + 1), w["gs_pos"][1] + dy * (k + 1)])
                                                          for k, w in enumerate(ws)])
    if field == "gs_alt":
        k = rng.randrange(len(ws))
        return "gs_altitudes", retyped(cfg, "gs_alt", wfs=[dict(w, gs_alt=(45000. if w["gs_alt"] == 0 else 0.0) if i == k else w["gs_alt"])
                                                           for i, w in enumerate(ws)])
    if field == "lam":
        return "wfs_wavelengths", retyped(cfg, "lam", wfs=[dict(w, lam=w["lam"] * rng.choice([0.5, 2.0, 3.0])) for w in ws])
    if field == "diam":
        return "subap_diameters", retyped(cfg, "diam", wfs=[dict(w, diam=w["diam"] * rng.choice([0.8, 1.25])) for w in ws])
    out = retyped(cfg, "D", D=cfg["D"] + 1.0)
    if "types" in out:
        out["types"] = {k: v for k, v in out["types"].items() if k != "D"}
    return "telescope_diameter", out


SIBLING_FIELDS = ("r0", "L0", "lalt", "gs_pos", "gs_alt", "lam", "diam", "D")


def check_histories(cfg, rng, fail, threads=1, nsteps=3):
    """ONE object re-used while the caller changes one attribute after the other and rebuilds (a loop over seeing conditions,
    asterisms, wavelengths), and fresh objects built in between: every matrix must be the covariance of the configuration the
    object holds at that moment; putting the old value back must give the first matrix again"""
    def close(m, c):
        exp, _ = gram_truth(c)
        m = numpy.asarray(m).astype(float)
        if m.shape != exp.shape or not numpy.isfinite(m).all():
            return float("inf"), numpy.abs(exp).max()
        return numpy.abs(m - exp).max(), numpy.abs(exp).max()

    with numpy.errstate(all="ignore"):
        cm = make_object(cfg, threads)
        first = cm.make_covariance_matrix().copy()
        cur = cfg
        for field in rng.sample(SIBLING_FIELDS, nsteps):
            attr, nxt = sibling(cur, field, rng)
            old = getattr(cm, attr)
            setattr(cm, attr, make_inputs(nxt)[attr])
            m = cm.make_covariance_matrix().copy()
            err, scale = close(m, nxt)
            if not err <= TOL * scale:
                fail("history:attribute-changed:%s" % attr, "after %s of an existing object was changed and make_covariance_matrix() re-run "
                     "(threads=%d) the matrix differs from the covariance of the slopes of the NEW configuration by %.3g (max |entry| %.3g)"
                     % (attr, threads, err, scale), nxt)
                return
            fresh = build(nxt, threads)
            err, scale = close(fresh, nxt)
            if not err <= TOL * scale:
                fail("history:after-sibling:%s" % attr, "a fresh object (threads=%d) built right after another object that differs only in "
                     "%s: matrix differs from the covariance of the slopes by %.3g (max |entry| %.3g)" % (threads, attr, err, scale), nxt)
                return
            setattr(cm, attr, old)
            back = cm.make_covariance_matrix().copy()
            if back.shape != first.shape or not numpy.array_equal(back, first):
                fail("history:attribute-restored:%s" % attr, "%s changed, rebuilt, changed back, rebuilt (threads=%d): not the first matrix "
                     "again (max difference %.3g)" % (attr, threads, numpy.abs(back.astype(float) - first).max()
                                                      if back.shape == first.shape else float("nan")), cfg)
                return
            setattr(cm, attr, make_inputs(nxt)[attr])      # keep going from the changed system (more steps than one)
            cm.make_covariance_matrix()
            first = build(nxt, threads)
            cur = nxt


# --------------------------------------------------------------------------------------------- Lean driver lines
def line(op, cfg, eps=EPS):
    t = ["C01", op, str(len(cfg["wfs"])), str(len(cfg["layers"])), common.f2h(cfg["D"]), common.f2h(eps)]
    for w in cfg["wfs"]:
        m = w["mask"]
        t += [str(len(m)), str(len(m[0]))] + [str(int(v)) for row in m for v in row]
        t += [common.f2h(w["diam"]), common.f2h(w["gs_alt"]), common.f2h(w["gs_pos"][0]), common.f2h(w["gs_pos"][1]),
              common.f2h(w["lam"])]
    for l in cfg["layers"]:
        t += [common.f2h(l["alt"]), common.f2h(l["r0"]), common.f2h(l["L0"])]
    return " ".join(t)


def stand_in(sep, r0, L0):
    # integer-valued, so that block placement compares exactly.  The offset 1/2 + 2^-12 keeps every separation of a dyadic
    # geometry (16 r² is a multiple of 2^-8 there) at least 2^-12 away from the jumps of floor: off-axis guide stars add a
    # non-dyadic translation whose rounding (1e-17) would otherwise decide on which side of a jump an on-grid value falls
    return numpy.floor(16 * sep * sep + 0.500244140625) * r0


def correspondence(chk, n_geom, n_place, n_build):
    from aotools.turbulence import slopecovariance as sc
    rng = chk.rng
    lines, expect = [], []
    # geometry + where: bit-exact
    def impl_raised(op, cfg, ex):
        chk.count("corr:impl-raised")
        chk.broke("correspondence", "C01 %s: the real code raised %s: %s (the model does not)" % (op, type(ex).__name__, ex),
                  json.dumps(cfg))

    for _ in range(n_geom):
        cfg = gen_cfg(rng, max_total=16, kinds=EXACT_KINDS)       # float32 arguments: the code then rounds to single precision
        try:
            cm = make_object(cfg)
            with numpy.errstate(all="ignore"):
                cm.make_covariance_matrix()
        except Exception as ex:
            impl_raised("geom", cfg, ex)
            continue
        geo = []
        for li in range(len(cfg["layers"])):
            for w in range(len(cfg["wfs"])):
                geo.append(float(cm.subap_layer_diameters[li][w]))
                geo += [float(v) for v in numpy.asarray(cm.subap_layer_positions[li][w]).ravel()]
        lines.append(line("geom", cfg)); expect.append(("geom", cfg, geo))
        wh = []
        for w in cfg["wfs"]:
            idx = numpy.array(numpy.where(numpy.array(w["mask"]) == 1)).T
            wh += [len(idx)] + [int(v) for v in idx.ravel()]
        lines.append(line("where", cfg)); expect.append(("where", cfg, wh))
    # placement with the integer stand-in (monkeypatched into the module)
    orig = sc.structure_function_vk
    sc.structure_function_vk = stand_in
    try:
        for _ in range(n_place):
            cfg = gen_cfg(rng, dyadic=True, max_total=10)
            try:
                cm = make_object(cfg)
                full = cm.make_covariance_matrix().copy()
                cm._make_covariance_matrix()
                pre = cm.covariance_matrix.copy()
            except Exception as ex:
                impl_raised("place", cfg, ex)
                continue
            lines.append(line("place", cfg)); expect.append(("place", cfg, full))
            lines.append(line("pre", cfg)); expect.append(("pre", cfg, pre))
    finally:
        sc.structure_function_vk = orig
    # values with the library's own structure function
    for _ in range(n_build):
        cfg = gen_cfg(rng, max_total=8)
        try:
            full = build(cfg)
        except Exception as ex:
            impl_raised("build", cfg, ex)
            continue
        lines.append(line("build", cfg)); expect.append(("build", cfg, full))
    ans = common.run_driver(lines, "C01")
    bad = 0
    for ln, a, (op, cfg, e) in zip(lines, ans, expect):
        chk.corr_cases += 1
        chk.count("corr:" + op)
        chk.case(("corr", op, json.dumps(cfg, sort_keys=True)), sample={"op": op, "cfg": cfg} if op == "build" else None)
        what = None
        if a == "bad-op":
            what = "driver rejected the operation"
        elif op == "where":
            if [int(x) for x in a.split()] != e:
                what = "where-order differs: lean %s python %s" % (a, e)
        elif op == "geom":
            got = [common.h2f(x) for x in a.split()]
            if len(got) != len(e) or any(common.f2h(x) != common.f2h(y) for x, y in zip(got, e)):
                k = next((i for i, (x, y) in enumerate(zip(got, e)) if common.f2h(x) != common.f2h(y)), -1)
                what = "projected geometry differs (bit-exact comparison) at item %d: lean %r python %r" % (
                    k, got[k] if 0 <= k < len(got) else None, e[k] if 0 <= k < len(e) else None)
        else:
            got = numpy.array([common.h2f(x) for x in a.split()])
            n = e.shape[0]
            if got.size != n * n:
                what = "size %d, expected %d" % (got.size, n * n)
            else:
                got = got.reshape(n, n)
                ef = e.astype(float)
                scale = max(numpy.abs(ef).max(), 1e-300)
                if op in ("place", "pre") and len(cfg["layers"]) == 1:
                    if not numpy.array_equal(got.astype(numpy.float32), e):
                        r, c = [int(v[0]) for v in numpy.where(got.astype(numpy.float32) != e)]
                        what = "single layer, integer stand-in D: float32(model) != code at [%d,%d]: %r vs %r" % (
                            r, c, float(got[r, c]), float(e[r, c]))
                else:
                    tol = 1e-6 if op in ("place", "pre") else TOL
                    if not numpy.isfinite(got).all() or numpy.abs(got - ef).max() > tol * scale:
                        r, c = numpy.unravel_index(numpy.nanargmax(numpy.abs(got - ef)), got.shape)
                        what = "|model - code| = %.3g at [%d,%d] (model %.9g, code %.9g, max |entry| %.3g, tol %g·max)" % (
                            numpy.abs(got - ef).max(), r, c, got[r, c], ef[r, c], scale, tol)
        if what:
            bad += 1
            if bad <= 3:
                chk.broke("correspondence", "C01 %s: %s" % (op, what), json.dumps(cfg))
    return bad


# --------------------------------------------------------------------------------------------- T1 arguments
def arggen(name, rng):
    L0 = math.exp(rng.uniform(math.log(5.), math.log(200.)))
    return {"seperation": [rng.uniform(-6, 6), rng.uniform(-6, 6)] if name != "structure_function_vk"
            else math.exp(rng.uniform(math.log(1e-3), math.log(50.))),
            "subap1_diam": rng.uniform(0.1, 2.), "subap2_diam": rng.uniform(0.1, 2.),
            "r0": math.exp(rng.uniform(math.log(0.05), math.log(1.))), "L0": L0}


# --------------------------------------------------------------------------------------------- oracle driver
def oracle(chk, n, n_scal, n_mp, exhaustive, n_big=0, n_ext=0, n_hist=0):
    rng = chk.rng

    def run_one(cfg, tag, extra=True):
        chk.oracle_cases += 1
        for c in classes(cfg):
            chk.count(c)
        chk.case(("oracle", json.dumps(cfg, sort_keys=True)), sample={"cfg": cfg} if chk.oracle_cases <= 2 else None)
        if "class" in cfg:
            chk.count(cfg["class"])

        def fail(key, what, cfg_replay=None):
            chk.fail(key, what, {"cfg": cfg_replay or cfg, "what": tag})
        return check_config(cfg, fail, extra=extra)

    # the geometry of the repository's own test, reduced (3 LGS on a ring, disc mask)
    disc = random_mask(rng, 4, 4, "disc")
    ring = [[10., 0.], [-5., 8.66], [-5., -8.66]]
    run_one({"D": 8., "wfs": [{"mask": disc, "diam": 2., "gs_alt": 90000., "gs_pos": p, "lam": 550e-9} for p in ring],
             "layers": [{"alt": h, "r0": 1., "L0": 25.} for h in (0., 10000., 20000.)]}, "suite-geometry")
    for _ in range(n):
        run_one(gen_cfg(rng, max_wfs=4 if rng.random() < 0.2 else 3), "random")
    for _ in range(n_scal):
        cfg = gen_cfg(rng, max_total=10, kinds=EXACT_KINDS)     # float32 arguments add single-precision noise of their own
        chk.oracle_cases += 1
        chk.count("scalings")
        chk.case(("scalings", json.dumps(cfg, sort_keys=True)))
        try:
            check_scalings(cfg, rng, lambda key, what: chk.fail(key, what, {"cfg": cfg, "what": "scalings"}))
        except Exception as ex:
            chk.fail("raises:" + type(ex).__name__, "make_covariance_matrix raised %s: %s" % (type(ex).__name__, ex),
                     {"cfg": cfg, "what": "scalings"})
    # round 5: sizes beyond gen_cfg's, parameter magnitudes / boundary values, one object re-used over a sequence of changes
    for i in range(n_big):
        run_one(gen_big(rng, thorough=exhaustive, shape=["one-large", "two-medium", "many-sensors", "many-layers", "thin"][i % 5]),
                "big", extra=False)
    for i in range(n_ext):
        run_one(gen_extreme(rng, EXTREMES[i % len(EXTREMES)]), "extreme", extra=i % 3 == 0)
    for i in range(n_hist):
        cfg = gen_cfg(rng, max_total=8) if i % 5 else gen_extreme(rng)
        chk.oracle_cases += 1
        chk.count("history")
        chk.case(("history", json.dumps(cfg, sort_keys=True)))
        try:
            check_histories(cfg, rng, lambda key, what, c=None: chk.fail(key, what, {"cfg": c or cfg, "start": cfg, "what": "history"}))
        except Exception as ex:
            chk.fail("raises:" + type(ex).__name__, "a changed attribute + make_covariance_matrix raised %s: %s" % (type(ex).__name__, ex),
                     {"cfg": cfg, "what": "history"})
    # the multi-process assembly path (real pool)
    for i in range(n_mp):
        # a system on which the two assembly paths have room to differ: >= 2 sensors whose projected diameters differ at an
        # elevated layer (cov_xy != cov_yx), different numbers of sub-apertures if possible; round 5: in turn also two sheets of
        # turbulence at one altitude, a natural guide star listed after a laser one, unequal sub-aperture counts, a larger system
        for _try in range(400):
            cfg = gen_cfg(rng, max_total=8) if i % 4 != 3 else gen_big(rng, shape=rng.choice(["two-medium", "many-sensors", "many-layers"]))
            ws = cfg["wfs"]
            pd = lambda w, L: w["diam"] * (1 - (L["alt"] / w["gs_alt"] if w["gs_alt"] else 0))
            if not (len(ws) >= 2 and any(L["alt"] > 0 and len({round(pd(w, L), 12) for w in ws}) > 1 for L in cfg["layers"])):
                continue
            if i % 4 == 0 and not any(a["alt"] == b["alt"] and a["L0"] == b["L0"] and a["r0"] != b["r0"]
                                      for k, a in enumerate(cfg["layers"]) for b in cfg["layers"][k + 1:]):
                continue
            if i % 4 == 1 and not any(a["gs_alt"] != 0 and b["gs_alt"] == 0 for k, a in enumerate(ws) for b in ws[k + 1:]):
                continue
            if i % 4 == 2 and len({sum(map(sum, w["mask"])) for w in ws}) == 1:
                continue
            break
        thr = 2 if i < 2 else rng.choice([2, 3, 4])
        chk.oracle_cases += 1
        chk.count("threads=%d" % thr)
        for c in classes(cfg):
            chk.count("mp:" + c)
        chk.case(("mp", json.dumps(cfg, sort_keys=True)))
        inputs = make_inputs(cfg)
        snap = snapshot(inputs)
        try:
            with numpy.errstate(all="ignore"):
                cm = object_from(inputs, thr, (cfg.get("types") or {}).get("call"))
                got = cm.make_covariance_matrix().copy()
                got2 = cm.make_covariance_matrix().copy()
        except Exception as ex:
            chk.fail("mp:raises", "threads=%d raised %s: %s" % (thr, type(ex).__name__, ex), {"cfg": cfg, "what": "mp"})
            continue
        exp, _ = gram_truth(cfg)
        if got.shape != exp.shape or not numpy.isfinite(got).all() or numpy.abs(got - exp).max() > TOL * numpy.abs(exp).max():
            chk.fail("mp:entry", "threads=%d: matrix differs from the covariance of the slopes by %.3g (scale %.3g)"
                     % (thr, numpy.abs(got - exp).max() if got.shape == exp.shape else float("nan"), numpy.abs(exp).max()),
                     {"cfg": cfg, "what": "mp"})
            continue
        if not (got == got.T).all():
            chk.fail("mp:symmetric", "threads=%d: the matrix is not exactly symmetric" % thr, {"cfg": cfg, "what": "mp"})
        if got2.shape != got.shape or not numpy.array_equal(got, got2):
            chk.fail("mp:repeat-call", "threads=%d: two calls of make_covariance_matrix() on one object differ by %.3g"
                     % (thr, numpy.abs(got2.astype(float) - got).max() if got2.shape == got.shape else float("nan")), {"cfg": cfg, "what": "mp"})
        mutated = [f for f in inputs if not same_as_snapshot(inputs[f], snap[1][f])]
        if mutated:
            chk.fail("mp:inputs-mutated", "threads=%d: the caller's constructor arguments were modified by the build: %s"
                     % (thr, ", ".join(mutated)), {"cfg": cfg, "what": "mp"})
        if i % 2 == 0:
            try:
                check_histories(cfg, rng, lambda key, what, c=None: chk.fail("mp:" + key, what, {"cfg": c or cfg, "start": cfg, "what": "mp-history"}),
                                threads=thr, nsteps=2)
            except Exception as ex:
                chk.fail("mp:raises", "threads=%d: a changed attribute + make_covariance_matrix raised %s: %s" % (thr, type(ex).__name__, ex),
                         {"cfg": cfg, "what": "mp-history"})
    if exhaustive:
        # every 0/1 mask on 2x2 for two sensors (one off-axis LGS), every mask on 3x3 for one sensor
        import itertools
        masks2 = [[[b >> 3 & 1, b >> 2 & 1], [b >> 1 & 1, b & 1]] for b in range(1, 16)]
        for m1, m2 in itertools.product(masks2, masks2):
            run_one({"D": 2., "wfs": [{"mask": m1, "diam": 1., "gs_alt": 0., "gs_pos": [0., 0.], "lam": 5e-7},
                                      {"mask": m2, "diam": 1., "gs_alt": 25000., "gs_pos": [17., -9.], "lam": 0.589}],
                     "layers": [{"alt": 6000., "r0": 0.2, "L0": 30.}]}, "exhaustive-2x2", extra=False)
        for b in range(1, 512):
            m = [[b >> (3 * r + c) & 1 for c in range(3)] for r in range(3)]
            run_one({"D": 3., "wfs": [{"mask": m, "diam": 1., "gs_alt": 0., "gs_pos": [3., 4.], "lam": 0.5}],
                     "layers": [{"alt": 0., "r0": 0.15, "L0": 25.}, {"alt": 5000., "r0": 0.4, "L0": 10.}]},
                    "exhaustive-3x3", extra=False)


def replay(rec):
    f = rec.get("failure") or {}
    cfg = (f.get("replay") or {}).get("cfg")
    if cfg is None:
        print("replay: no configuration recorded (proof/correspondence breakage): re-run ./check C01")
        return 1
    fails = []
    check_config(cfg, lambda key, what, cfg_replay=None: fails.append((key, what)))
    import random
    check_scalings(cfg, random.Random(0), lambda key, what: fails.append((key, what)))
    for key, what in fails:
        print("STILL-FAILS %s: %s" % (key, what))
    if not fails:
        print("replay: the recorded configuration now satisfies the property")
    return 1 if fails else 0


def run(chk):
    quick = chk.tier == "quick"
    chk.rule = ("correspondence: Lean Float model vs aotools on generated configurations — numpy.where order and projected "
                "positions/diameters bit-exact; matrices with an integer stand-in structure function (monkeypatched) exact after the "
                "float32 cast for one layer, 1e-6·max for several; matrices with the library's von Karman function 1e-5·max "
                "(float32 storage). oracle: every entry vs a brute-force Gram matrix computed from the structure function alone "
                "(1e-5·max), exact symmetry, λ_min ≥ -1e-5·trace, repeat-call identity, mirror = reflected lower triangle, layer "
                "additivity/order, r0^(-5/3), λ_iλ_j (2e-6·max); the caller's argument objects compared with a snapshot taken before "
                "the call and a second object built from the same argument objects compared bitwise; round 5: the same oracle on large "
                "systems (one sensor up to 10x10 / 14x14, 5-12 sensors, 6-35 layers, 1xN masks), extreme magnitudes (r0 x 1e+-3, L0 below "
                "the sub-aperture, arc-minute fields, Rayleigh beacons, a layer 0.5-3 % below a beacon, NGS at inf / 1e12 / -0.0, cm-class "
                "and 100 m pupils, a sensor listed twice, unsigned-integer arguments), and ONE object re-used while one attribute after "
                "the other is changed, rebuilt (1e-5.max against the covariance of the NEW configuration) and restored (bitwise the "
                "first matrix), serial and with a real pool; distinct = distinct configurations")
    chk.assumptions = [
        "H2: the von Karman structure function (with D(0)=0) is a squared-distance kernel ‖φu−φv‖² on ℝ² — hypothesis `IsSqDist` "
        "of the theorems, not proved (Mathlib has no Bessel functions); sampled by the oracle's minimum-eigenvalue test",
        "the code adds 1e-20 to every separation component: entry_lower_eq_cov is proved for every ε, the Gram/PSD/symmetry "
        "corollaries for ε = 0; the numerical effect of ε = 1e-20 is checked by the oracle (its D has no ε)",
        "float32 storage and IEEE rounding are not modelled (tolerance 1e-5 of the largest entry)",
        "the assembly/geometry model is hand-written: tied to the code by the Float correspondence only (kernels are tied by T1 + rfl)",
        "the multi-process path performs the same block writes (C03 proves scheduling independence); here it is exercised with a real pool",
        "a layer AT the altitude of a guide star (h = alt ≠ 0) is outside the domain: the code divides by the projected diameter 0 "
        "(inf/NaN), Lean's x/0 = 0 makes the model's entries 0 there (`layer_at_gs_altitude`); the theorems are statements about "
        "slopes on `WellPosed` configurations (`entry_eq_cov_wellposed`, `slope_is_quotient`); the generators keep every layer "
        "strictly below every finite guide-star altitude",
        "`scale_r0_vk` needs r0 > 0 and L0 ≥ 0 on the configuration's layers and k > 0 (Real.rpow); nothing is claimed for other signs",
        "constructor arguments are generated as float64/float32/integer ndarrays, lists, tuples of the same values (the theorems are "
        "about the values); float32 arguments make the library do part of the geometry in single precision — covered by the "
        "1e-5 tolerance (observed 5.6e-7), excluded from the bit-exact geometry correspondence and from the 2e-6 scaling laws",
        "round 5 argument forms: masks as int64/int32/uint8/bool/float64/float32, list / tuple / one 3-D array, C / Fortran / strided / "
        "read-only; 1-D and (n,2) arguments also as lists of NumPy scalars, int32, uint64 (not the diameters, not the signed guide-star "
        "offsets), strided / negative-stride / read-only / Fortran / stride-0 broadcast float64 arrays; telescope_diameter, n_wfs, n_layers "
        "as Python / NumPy scalars or 0-d array; constructor called by keyword or positionally, threads given or defaulted, through "
        "aotools.turbulence.slopecovariance, aotools.turbulence and aotools. UNSIGNED sub-aperture diameters are NOT generated: the "
        "unchanged library returns a wrong matrix there (d2 - d1 wraps in compute_covariance_xx/yy) — reported, undecided",
        "L0 / projected sub-aperture size is kept <= ~2e5 (as before): beyond that the closed form 1 - x^(5/6) K_5/6(x) itself loses digits "
        "(1.1e-6 of the largest entry seen at 1e7), which says nothing about the assembly",
    ]
    chk.notes = ["margins measured on the repaired tree (3000 generated configurations): largest |entry - covariance| = 1.1e-7 of the "
                 "largest entry (tolerance 1e-5), smallest eigenvalue >= -1.3e-8 of the trace (tolerance 1e-5); every breaking edit tried "
                 "(wrong block, scale, sign, offset, dropped layer, leaked state, transposed mask, cone sign, exponent) moved entries by "
                 ">= 1e-5 of the largest entry on some generated configuration",
                 "round 3, repaired tree, 12 seeds x 250 configurations with mixed argument containers/dtypes: largest |entry - covariance| "
                 "1.1e-7 (float64/int/list arguments), 5.6e-7 (some float32 argument) of the largest entry (tolerance 1e-5); smallest "
                 "eigenvalue >= -9.1e-9 of the trace; scaling laws (tolerance 2e-6): additivity 1.1e-7, r0 1.6e-7, wavelength 9.3e-8; "
                 "stand-in placement with off-axis guide stars: exact on every single-layer case",
                 "mirror search: the assembled matrix for wavelengths λ·2^m is exactly 4^m times the one for λ, so the mirror step is "
                 "searched over m on the real pre-mirror matrix and any hit is confirmed through make_covariance_matrix() with the "
                 "rescaled wavelengths before it is reported",
                 "round 5, unchanged tree, 12 seeds x (40 large + 180 extreme) configurations + 12 x 60 histories: largest |entry - covariance| "
                 "3.6e-7 (many layers), 1.5e-7 (layer just below a beacon), 1.3e-7 (cm-class pupil), <= 9.2e-8 elsewhere; 5.8e-7 with a "
                 "float32 argument (tolerance 1e-5); smallest eigenvalue >= -8.7e-9 of the trace; attribute-restored rebuilds bitwise equal"]
    meta = t1check.regenerate(chk)
    chk.build_and_audit("AoVerif.Props.C01", "AoVerif.Props.C01", REQUIRED)
    if meta is not None:
        try:
            t1check.selfcheck(chk, meta, T1_NAMES, arggen, 5 if quick else 40, rtol=1e-9, atol=1e-8,
                              rtol_by_name={"compute_covariance_xx": 1e-6, "compute_covariance_yy": 1e-6,
                                            "compute_covariance_xy": 1e-6, "structure_function_vk": 1e-7})
        except common.LeanError as ex:
            chk.broke("translator", "generated Lean does not compile / run", str(ex))
    try:
        if quick:
            correspondence(chk, 20, 16, 8)
        else:
            correspondence(chk, 300, 250, 100)
    except common.LeanError as ex:
        chk.broke("correspondence", "C01 driver does not build / run", str(ex))
    if quick:
        oracle(chk, 250, 40, 4, False, n_big=10, n_ext=30, n_hist=40)
    else:
        oracle(chk, 12000, 1500, 16, True, n_big=300, n_ext=900, n_hist=1500)
