"""C10 — optical propagators are linear and conserve power.
(Also hosts what C11 shares with it: generators, the correspondence of Model/Propagation.lean with
aotools.opticalpropagation, the direct centred Fresnel sum.)"""
import math

import numpy

from .. import common

MANIFEST = {
    "text": "Lean 4 theorems about a hand-written model of aotools.opticalpropagation (angularSpectrum, oneStepFresnel, twoStepFresnel, "
            "lensAgainst on top of the C09 model of ft2/ift2), over the complex numbers with the FFT kernel any primitive N-th root of "
            "unity: each propagator is linear in the input field for complex coefficients, and conserves sum|U|^2 d^2 for EVERY grid size "
            "N>=1, every complex input, wavelength != 0, spacings != 0 (any magnification), distance/focal length != 0 of either sign "
            "(2-D Parseval from the C09 Plancherel identity, |e^{i theta}|=1, spacing algebra d2 = lambda z/(N d1), Dz2 = -m Dz1). The model is "
            "tied to the code by running the same Lean definitions at binary64 against the real functions (even N<=16, both signs of z, "
            "m in {1/2,3/4,1,3/2,2} and 1±2^-k; scalars typed as float/numpy.float64/float32/0-d array/int, fields complex128/real/complex64/"
            "Fortran/strided); a direct oracle evaluates power ratio, superposition and complex homogeneity on the real code up to N=128, "
            "including unit magnification under every scalar typing and tiny non-zero distances.",
    "note": "Trusted: Lean kernel + propext/Classical.choice/Quot.sound; numpy.fft = naive DFT (contract checked in C09 and here to 1e-9); "
            "binary64 rounding is not modelled (model is exact arithmetic; comparison tolerance 1e-9 of the output max-norm); NumPy "
            "meshgrid/broadcast semantics exercised by the correspondence only.",
    "technique": "Lean 4 proof (Finset-sum algebra over roots of unity, Parseval) + differential correspondence with the real code + oracle search",
}
REQUIRED = ["angularSpectrum_linear", "oneStepFresnel_linear", "twoStepFresnel_linear", "lensAgainst_linear",
            "angularSpectrum_power", "oneStepFresnel_power", "twoStepFresnel_power", "lensAgainst_power",
            "twoStepFresnel_pinned_linear", "twoStepFresnel_pinned_power"]
TOL = 1e-9
MAGS = [0.5, 0.75, 1.0, 1.5, 2.0]


# --------------------------------------------------------------------------- observed maxima per tolerance class (goes into the evidence notes)
def obs(chk, cat, value):
    d = chk.__dict__.setdefault("_obs", {})
    value = float(value)
    if not value <= d.get(cat, -1.0):                     # NaN is recorded too
        d[cat] = value
    return value


def obs_note(chk):
    d = chk.__dict__.get("_obs", {})
    if d:
        chk.notes.append("largest observed error per tolerance class this run: " + "; ".join("%s %.2g" % (k, d[k]) for k in sorted(d)))


# --------------------------------------------------------------------------- generators
def rand_field(nprng, n, kind):
    if kind == "dyadic":
        return (nprng.integers(-64, 65, size=(n, n)) + 1j * nprng.integers(-64, 65, size=(n, n))) / 8.0
    if kind == "delta":                                   # a single off-centre sample: the most orientation-sensitive input
        x = numpy.zeros((n, n), complex)
        x[nprng.integers(0, n), nprng.integers(0, n)] = 1.0 + 0.5j
        return x
    if kind == "blob":                                    # smooth, asymmetric, off-centre
        a, b = numpy.mgrid[0:n, 0:n]
        ca, cb = nprng.uniform(0.2, 0.8, 2) * n
        return numpy.exp(-((a - ca) ** 2 + 2 * (b - cb) ** 2) / (0.08 * n * n + 1)) * numpy.exp(1j * 0.3 * a)
    if kind == "plane":                                   # a tilted / untilted plane wave of constant modulus: energy in ONE spatial frequency
        a, b = numpy.mgrid[0:n, 0:n]
        p, q = nprng.integers(0, n, 2) * nprng.integers(0, 2)
        return (1.5 - 0.5j) * numpy.exp(2j * numpy.pi * (p * a + q * b) / n)
    if kind in ("huge", "tiny"):                          # amplitudes far from 1 (the library never squares the field: no overflow in domain)
        return (nprng.normal(size=(n, n)) + 1j * nprng.normal(size=(n, n))) * (1e100 if kind == "huge" else 1e-100)
    return nprng.normal(size=(n, n)) + 1j * nprng.normal(size=(n, n))


def geometry(rng, n):
    """(wvl, d1, z) with moderate quadratic phases (|theta| < ~1e3) so that binary64 phase rounding stays < 1e-12"""
    if rng.random() < 0.5:                                # optical units
        wvl = rng.choice([500e-9, 1.55e-6, 2.2e-6])
        d1 = rng.choice([1e-3, 2.5e-3, 5e-3])
        z = rng.choice([-1, 1]) * rng.choice([0.5, 2.0, 7.5, 30.0, 1e3])
    else:                                                 # dimensionless, dyadic
        wvl = rng.choice([0.5, 0.25, 1.0])
        d1 = rng.choice([1.0, 0.5, 2.0])
        z = rng.choice([-1, 1]) * common.dyadic(rng, 0.5, 40, 3)
    return float(wvl), float(d1), float(z)


# ---- how a caller may hand over the same number / the same field (the property quantifies over values, not over Python types)
SCALAR_KINDS = ["float", "f64", "f32", "0d", "int"]


def as_kind(v, kind):
    """the number v presented as Python float / numpy.float64 / numpy.float32 / 0-d float64 array / Python int / numpy.int64 / numpy.int32 /
    numpy.uint8 (the integer kinds only when v is integral; the last three are never drawn at random, only asked for explicitly):
    returns (object handed to the library, kind actually used, the binary64 value that object denotes)"""
    v = float(v)
    if kind == "f64":
        o = numpy.float64(v)
    elif kind == "f32":
        o = numpy.float32(v)                              # rounds: the value the library is given is float(o)
    elif kind == "0d":
        o = numpy.array(v, dtype=float)
    elif kind == "int" and v.is_integer() and abs(v) < 2 ** 31:
        o = int(v)
    elif kind in ("i64", "i32") and v.is_integer() and abs(v) < 2 ** 31:
        o = numpy.int64(int(v)) if kind == "i64" else numpy.int32(int(v))
    elif kind == "u8" and v.is_integer() and 0 < v < 256:          # unsigned: only ever used for the positive parameters wvl, d1, d2
        o = numpy.uint8(int(v))
    else:
        o, kind = v, "float"
    return o, kind, float(o)


class Scalars(object):
    """one geometry (wvl, d1, d2, z): .obj = what is passed to the library, .val = the binary64 values these denote (used by every
    reference computation and by the Lean model), .kinds, .lowp = some parameter is single precision (tolerance by dtype)"""

    def __init__(self, rng, it, wvl, d1, m, z, kinds=None):
        if kinds is None:
            if it % 2 == 0:                               # deterministic rotation: every kind reaches every parameter in 5 cases
                kinds = [SCALAR_KINDS[(it // 2 + off) % 5] for off in (0, 1, 3, 2)]
            else:
                kinds = [rng.choice(SCALAR_KINDS) for _ in range(4)]
        if "f32" in kinds[1:3]:                           # keep d2/d1 == m exactly representable (m == 1 must stay d1 == d2)
            d1 = float(numpy.float32(d1))
        o_w, k_w, v_w = as_kind(wvl, kinds[0])
        o_1, k_1, v_1 = as_kind(d1, kinds[1])
        o_2, k_2, v_2 = as_kind(m * v_1, kinds[2])
        o_z, k_z, v_z = as_kind(z, kinds[3])
        self.obj = (o_w, o_1, o_2, o_z)
        self.val = (v_w, v_1, v_2, v_z)
        self.kinds = (k_w, k_1, k_2, k_z)
        self.lowp = "f32" in self.kinds
        self.m = m

    def label(self):
        return "/".join(self.kinds)


FIELD_CLASSES = ["c128", "c128", "real", "c64", "fortran", "strided", "negstride",
                 # round 5: storage dtypes of masks / detector frames, and the remaining memory layouts
                 "f32real", "int64", "int32", "uint8", "bool", "readonly", "broadcast", "bigendian",
                 "c64", "c128"]      # 17 entries: coprime to the other rotations (5 magnifications, 6 / 11 sizes, 5 scalar kinds, even / odd case index)
SINGLE_CLASSES = ("c64", "f32real")     # single-precision storage
# Which propagator actually computes in single precision for such a field (unchanged tree, NumPy >= 2): only lensAgainst, which hands the
# field to numpy.fft as it is; angularSpectrum / oneStepFresnel / twoStepFresnel first multiply by a complex128 chirp, i.e. promote to double,
# and are held to the double-precision tolerances (observed: power 4e-16, correspondence 2e-13, direct sums 1e-12 for complex64 fields).
SINGLE_PRECISION_PROPAGATORS = ("lensAgainst", "lens")


def single(name, c64):
    """the tolerance class of propagator `name` for a field whose present_field flag is c64"""
    return bool(c64) and name in SINGLE_PRECISION_PROPAGATORS


def present_field(U, cls):
    """the field U presented as another input class: returns (array handed to the library, complex128 C-ordered array of the values
    it holds, single-precision flag).  real / c64 change the VALUES (real part / rounded), the layouts do not."""
    if cls == "real":
        V = numpy.ascontiguousarray(U.real)
        return V, V.astype(complex), False
    if cls == "c64":
        V = U.astype(numpy.complex64)
        return V, V.astype(complex), True
    if cls == "fortran":
        return numpy.asfortranarray(U), U.copy(), False
    if cls == "strided":                                  # every second sample of a larger buffer
        n = U.shape[0]
        big = numpy.full((2 * n, 2 * n + 1), 7.0 + 3.0j)
        big[::2, 1::2] = U
        return big[::2, 1::2], U.copy(), False
    if cls == "negstride":                                # a reversed view of a reversed copy
        return U[::-1, ::-1].copy()[::-1, ::-1], U.copy(), False
    if cls == "f32real":
        V = numpy.ascontiguousarray(U.real).astype(numpy.float32)
        return V, V.astype(complex), True
    if cls in ("int64", "int32", "uint8", "bool"):        # integer-valued fields: masks, photon counts (values change, like "real")
        r = U.real / (float(numpy.abs(U.real).max()) or 1.0) * 6.0
        V = numpy.rint(r) if cls != "bool" else (r > 0.5)
        if cls == "uint8":
            V = numpy.abs(V)
        if not V.any():
            V[0, 0] = 1
        V = numpy.ascontiguousarray(V).astype({"int64": numpy.int64, "int32": numpy.int32, "uint8": numpy.uint8, "bool": bool}[cls])
        return V, V.astype(complex), False
    if cls == "readonly":                                 # e.g. a memory-mapped or shared frame: any write into it raises
        V = U.copy()
        V.setflags(write=False)
        return V, U.copy(), False
    if cls == "broadcast":                                # zero-stride, read-only view of one row (numpy.broadcast_to): the field is constant along axis 0
        W = numpy.ascontiguousarray(numpy.broadcast_to(U[int(numpy.abs(U).sum(axis=1).argmax())], U.shape))
        return numpy.broadcast_to(W[0], U.shape), W, False
    if cls == "bigendian":                                # non-native byte order (a field read from a FITS file)
        return U.astype(">c16"), U.copy(), False
    return U.copy(), U.copy(), False


# --------------------------------------------------------------------------- correspondence (shared with C11)
def line(op, n, p, arr):
    p = list(p) + [0.0] * (4 - len(p))
    flat = numpy.asarray(arr, dtype=complex).ravel()
    return "C10 %s %d %s %s" % (op, n, " ".join(common.f2h(v) for v in p),
                                " ".join(common.f2h(v) for z in flat for v in (z.real, z.imag)))


def parse_c(ans, shape):
    return numpy.array([common.h2f(h) for h in ans.split()]).view(complex).reshape(shape)


def near_unit(rng):
    """a magnification next to 1: 1 ± 2^-k, k = 2..8 (exactly representable, also in single precision)"""
    return 1.0 + rng.choice([-1, 1]) * 2.0 ** (-rng.randint(2, 8))


LOWP_TOL = 5e-2      # some scalar is numpy.float32: the library then evaluates k, mag, d2, 1/(i lambda z) in single precision and phases of up to
#                      ~1e3 rad lose 3-4 digits (observed <= 3.5e-3 of the output max-norm over 400 geometries); structure errors (NaN, wrong
#                      branch, wrong grid) are O(1)
C64_TOL = 1e-5       # complex64 field: numpy.fft transforms single-precision input in single precision (observed <= 4e-7)


def correspondence(chk, quick, ncase, accept_pinned_two=False, odd=False):
    """the Lean model at binary64 vs aotools.opticalpropagation on the same inputs.
    accept_pinned_two (C10 only): twoStepFresnel may match either the repaired model or the model without the final point reflection
    — the C10 theorems are proved for both; C11 accepts the repaired one only.
    odd (C11): odd grid sizes too (C10's property is stated for even grids only).
    Every scalar parameter is handed to the library as Python float / numpy.float64 / numpy.float32 / 0-d array / int (Scalars), the
    field as complex128 / real / complex64 / Fortran-ordered / strided views (present_field); the model is given the binary64 values."""
    from aotools import opticalpropagation as op
    op = common.Guarded(op, chk)
    nprng = numpy.random.default_rng(chk.rng.getrandbits(32))
    sizes = [2, 4, 6, 8, 10, 12] if quick else [2, 4, 6, 8, 10, 12, 14, 16]
    if odd:
        sizes = sizes + ([1, 3, 5, 7, 9] if quick else [1, 3, 5, 7, 9, 11, 13, 15])
    lines, expect, desc, tols = [], [], [], []

    def add(opname, n, p, U, impl, tol):
        lines.append(line(opname, n, p, U))
        expect.append(impl)
        desc.append((opname, n) + tuple(p))
        tols.append(tol)
        if opname == "two" and accept_pinned_two:
            lines.append(line("twop", n, p, U))
            expect.append(impl)
            desc.append(("twop", n) + tuple(p))
            tols.append(tol)

    for it in range(ncase):
        n = sizes[it % len(sizes)] if it < 2 * len(sizes) else chk.rng.choice(sizes)
        kind = chk.rng.choice(["gauss", "dyadic", "delta", "blob"])
        cls = FIELD_CLASSES[it % len(FIELD_CLASSES)]
        Uin, U, c64 = present_field(rand_field(nprng, n, kind), cls)
        wvl, d1, z = geometry(chk.rng, n)
        m = near_unit(chk.rng) if it % 6 == 5 else MAGS[it % len(MAGS)]
        sc = Scalars(chk.rng, it, wvl, d1, m, z)
        (o_w, o_1, o_2, o_z), (wvl, d1, d2, z) = sc.obj, sc.val
        tol = LOWP_TOL if sc.lowp else TOL
        tol_lens = LOWP_TOL if sc.lowp else C64_TOL if single("lens", c64) else TOL
        chk.count("corr:N=%d" % n)
        chk.count("corr:z%s" % ("+" if z > 0 else "-"))
        chk.count("corr:m=%s" % ("%g" % m if m in MAGS else "1±2^-k"))
        chk.count("corr:data=%s" % kind)
        chk.count("corr:field=%s" % cls)
        for kk in sc.kinds:
            chk.count("corr:scalar=%s" % kk)
        with numpy.errstate(all="ignore"):               # a division by zero inside the library must show up as a wrong field, not as a warning
            add("as", n, (wvl, d1, d2, z), U, op.angularSpectrum(Uin, o_w, o_1, o_2, o_z), tol)
            add("one", n, (wvl, d1, z), U, op.oneStepFresnel(Uin, o_w, o_1, o_z), tol)
            add("two", n, (wvl, d1, d2, z), U, op.twoStepFresnel(Uin, o_w, o_1, o_2, o_z), tol)
            add("lens", n, (wvl, d1, z), U, op.lensAgainst(Uin, o_w, o_1, o_z), tol_lens)
        if it % 7 == 0:
            z0 = as_kind(0.0, SCALAR_KINDS[(it // 7) % 5])[0]
            add("as", n, (wvl, d1, d2, 0.0), U, numpy.asarray(op.angularSpectrum(Uin, o_w, o_1, o_2, z0)), TOL)
            chk.count("corr:z0")
            add("refl", n, (), U, numpy.roll(U[::-1, ::-1], 1 - n % 2, axis=(0, 1)), TOL)
    ans = common.run_driver(lines, "C10")
    nbad = 0
    verdicts = []
    for a, e, ds, tol in zip(ans, expect, desc, tols):
        if a == "bad-op":
            chk.broke("correspondence", "driver rejected %s N=%d" % (ds[0], ds[1]))
            verdicts.append((True, 0.0, 1.0))
            continue
        if e.shape != (ds[1], ds[1]):
            verdicts.append((False, float("nan"), 1.0))
            continue
        mdl = parse_c(a, e.shape)
        scale = float(numpy.abs(mdl).max()) + 1e-300      # the model's scale: a NaN / inf output of the library must not poison the bound
        err = float(numpy.abs(mdl - e).max())
        if ds[0] != "twop":
            obs(chk, "corr[tol %g]" % tol, err / scale)
        verdicts.append((err <= tol * scale, err, scale))
    pinned_hits = repaired_hits = 0
    for i, ((ok, err, scale), ds) in enumerate(zip(verdicts, desc)):
        if ds[0] == "twop":
            continue                                      # judged together with the preceding "two"
        chk.corr_cases += 1
        chk.case(("corr",) + ds, sample={"op": ds[0], "N": ds[1], "params": list(ds[2:])})
        if ds[0] == "two" and accept_pinned_two:
            okp = verdicts[i + 1][0]
            repaired_hits += ok
            pinned_hits += (okp and not ok)
            ok = ok or okp
        if not ok:
            nbad += 1
            if nbad <= 4:
                chk.broke("correspondence", "model %s differs from opticalpropagation at N=%d params=%s (max err %.3g, scale %.3g)"
                          % (ds[0], ds[1], list(ds[2:]), err, scale))
    if pinned_hits:
        if repaired_hits > sum(1 for ds in desc if ds[0] == "two" and ds[3] == ds[4]):   # m = 1 cases match both models
            chk.broke("correspondence", "twoStepFresnel matches the repaired model on some inputs and the pinned model on others")
        chk.notes.append("twoStepFresnel of this tree matches the model of the PINNED code (no final point reflection) on %d cases: "
                         "linearity and power conservation are proved for that model too (twoStepFresnel_pinned_linear/_power); the orientation "
                         "defect is C11's business" % pinned_hits)


def kernel_contract(chk):
    """numpy.fft.fft2 is the naive 2-D DFT (the model's assumption about the external kernel)"""
    nprng = numpy.random.default_rng(11)
    for n in (2, 4, 6, 8):
        x = nprng.normal(size=(n, n)) + 1j * nprng.normal(size=(n, n))
        j = numpy.arange(n)
        W = numpy.exp(-2j * numpy.pi * numpy.outer(j, j) / n)
        if numpy.abs(numpy.fft.fft2(x) - W @ x @ W).max() > 1e-9 * n * n * 4 or \
                numpy.abs(numpy.fft.ifft2(numpy.fft.fft2(x)) - x).max() > 1e-9 * 4:
            chk.broke("correspondence", "numpy.fft does not meet the DFT contract at n=%d" % n)


# --------------------------------------------------------------------------- the oracle of C10
def propagators(op):
    """name -> (call(U, wvl, d1, d2, z), output spacing(n, wvl, d1, d2, z))"""
    return {
        "angularSpectrum": (lambda U, w, d1, d2, z: op.angularSpectrum(U, w, d1, d2, z), lambda n, w, d1, d2, z: d2),
        "oneStepFresnel": (lambda U, w, d1, d2, z: op.oneStepFresnel(U, w, d1, z), lambda n, w, d1, d2, z: w * z / (n * d1)),
        "twoStepFresnel": (lambda U, w, d1, d2, z: op.twoStepFresnel(U, w, d1, d2, z), lambda n, w, d1, d2, z: d2),
        "lensAgainst": (lambda U, w, d1, d2, z: op.lensAgainst(U, w, d1, z), lambda n, w, d1, d2, z: w * z / (n * d1)),
    }


LOWP_POWER_TOL = 1e-5   # a numpy.float32 scalar (1/(i lambda z), d2 evaluated in single precision) or, for lensAgainst only, a complex64 / float32
#                         field (numpy.fft transforms it in single precision): observed <= 5.1e-7 over 400 geometries.  Everything else,
#                         single-precision fields of the other three propagators included, is held to TOL = 1e-9 (observed: power 1.8e-13 incl.
#                         the parameter-decade and 1e±100-amplitude classes, superposition 6e-16, same-values-other-storage exactly 0)
TINY_Z = [5e-9, -5e-9, 1e-10, -3e-12]


def oracle(chk, quick):
    from aotools import opticalpropagation as op
    op = common.Guarded(op, chk)
    nprng = numpy.random.default_rng(chk.rng.getrandbits(32))
    # even grids of every arithmetic kind: powers of two, smooth sizes, and sizes with a large prime factor (26 = 2·13, 34 = 2·17, …:
    # FFT libraries treat those differently, and a transform padded to a "fast" length is no longer the scaled unitary DFT)
    sizes = [2, 4, 6, 8, 10, 16, 26, 32, 34, 64] + ([] if quick else [12, 24, 38, 46, 48, 52, 58, 62, 96, 128])
    reps = 3 if quick else 12
    props = propagators(op)
    it = chk.rng.randint(0, 9)

    def one_geometry(n, wvl, d1, m, z, kind, cls, kinds=None, tag="oracle", sample=False):
        sc = Scalars(chk.rng, it, wvl, d1, m, z, kinds)
        obj, (wvl, d1, d2, z) = sc.obj, sc.val
        Uin, U, c64 = present_field(rand_field(nprng, n, kind), cls)
        V = rand_field(nprng, n, "gauss")
        a, b = complex(chk.rng.uniform(-2, 2), chk.rng.uniform(-2, 2)), complex(chk.rng.uniform(-2, 2), chk.rng.uniform(-2, 2))
        pin = float((numpy.abs(U) ** 2).sum() * d1 * d1)
        ltol = LOWP_POWER_TOL if c64 else TOL             # a*U of a complex64 / float32 field is rounded to single precision by NumPy
        chk.count("%s:N=%d" % (tag, n))
        chk.count("%s:z%s" % (tag, "+" if z > 0 else "-"))
        chk.count("%s:data=%s" % (tag, kind))
        chk.count("%s:field=%s" % (tag, cls))
        chk.count("%s:m%s1" % (tag, "=" if d2 == d1 else "<" if d2 < d1 else ">"))
        for kk in sc.kinds:
            chk.count("%s:scalar=%s" % (tag, kk))
        for name, (call0, dout) in props.items():
            def call(F, call0=call0):
                with numpy.errstate(all="ignore"):       # an internal division by zero must show up in the result
                    return call0(F, *obj)
            chk.oracle_cases += 1
            chk.case((tag, name, n, wvl, d1, d2, z, kind, cls, sc.label()),
                     sample={"propagator": name, "N": n, "wvl": wvl, "d1": d1, "d2": d2, "z": z, "data": kind, "field": cls,
                             "scalar kinds (wvl,d1,d2,z)": sc.label()} if sample else None)
            rp = dict(propagator=name, N=n, wvl=wvl, d1=d1, d2=d2, z=z, data=kind, field=cls, scalar_kinds=sc.label(), seed=chk.seed)
            # power: single-precision tolerance only where the unchanged library computes in single precision (a float32 scalar, or
            # lensAgainst on a complex64 / float32 field); a single-precision FIELD is promoted to double by the other three
            ptol = LOWP_POWER_TOL if (sc.lowp or single(name, c64)) else TOL
            U0 = Uin.copy()
            try:
                out = call(Uin)
            except Exception as ex:                       # no generated input raises on the unchanged tree: a concrete failing input (and go on)
                chk.fail("exception:%s:%s:%s" % (name, type(ex).__name__, cls), "%s raises %s: %s for a %s field (dtype %s, writeable %s, strides %s) "
                         "N=%d wvl=%r d1=%r d2=%r z=%r" % (name, type(ex).__name__, str(ex)[:160], cls, Uin.dtype, Uin.flags.writeable, Uin.strides, n,
                                                          obj[0], obj[1], obj[2], obj[3]), dict(rp, U=_small(U)))
                continue
            if isinstance(out, numpy.ndarray) and out.dtype.kind in "biu":
                out = out.astype(complex)                 # complex on the unchanged tree; an integer / bool array handed back must still be comparable
            kept = numpy.array(out, copy=True) if isinstance(out, numpy.ndarray) else None
            if out.shape != U.shape:
                chk.fail("shape:" + name, "%s returns shape %s for input %s" % (name, out.shape, U.shape), rp)
                continue
            if not numpy.isfinite(out).all():
                key = ("scalar-kind:twoStepFresnel:unit-magnification-nan" if name == "twoStepFresnel" and d1 == d2 else "nonfinite:" + name)
                chk.fail(key, "%s returns a field with NaN/inf samples (%d of %d) for a finite field and wvl=%r d1=%r d2=%r z=%r (N=%d)"
                         % (name, int((~numpy.isfinite(out)).sum()), out.size, obj[0], obj[1], obj[2], obj[3], n), dict(rp, U=_small(U)))
                continue
            # conservation of power
            do = dout(n, wvl, d1, d2, z)
            pout = float((numpy.abs(out) ** 2).sum() * do * do)
            obs(chk, "power[tol %g]" % ptol, abs(pout - pin) / pin)
            if not abs(pout - pin) <= ptol * pin:
                chk.fail("power:" + name, "%s: Σ|U_out|²d_out² / Σ|U_in|²d_in² = %.12g (N=%d wvl=%g d1=%g d2=%g z=%g, %s %s field, scalars %s)"
                         % (name, pout / pin, n, wvl, d1, d2, z, kind, cls, sc.label()), dict(rp, ratio=pout / pin, U=_small(U)))
            # superposition with complex coefficients
            oV = call(V)
            lin = call(a * Uin + b * V)
            scl = float(max(numpy.abs(out).max(), numpy.abs(oV).max())) * 4 + 1e-300
            err = float(numpy.abs(lin - (a * out + b * oV)).max())
            obs(chk, "superposition[tol %g]" % ltol, err / scl)
            if not err <= ltol * scl:
                chk.fail("linear:" + name, "%s(aU+bV) ≠ a·%s(U)+b·%s(V): err %.3g of scale %.3g (N=%d wvl=%g d1=%g d2=%g z=%g a=%r b=%r)"
                         % (name, name, name, err, scl, n, wvl, d1, d2, z, a, b), dict(rp, a=[a.real, a.imag], b=[b.real, b.imag], U=_small(U), V=_small(V)))
            # homogeneity alone, non-real coefficients (an antilinear map — e.g. back-propagation computed as conj(forward) — is additive,
            # conserves power and commutes with REAL factors; an additive offset survives superposition with a+b=1): i and a general complex c
            h = call(1j * Uin)
            obs(chk, "i-homogeneity[tol %g]" % TOL, float(numpy.abs(h - 1j * out).max()) / scl)
            if not float(numpy.abs(h - 1j * out).max()) <= TOL * scl:
                chk.fail("linear:" + name, "%s(i·U) ≠ i·%s(U): err %.3g of scale %.3g; against conj-linear -i·%s(U): %.3g (N=%d wvl=%g d1=%g d2=%g z=%g)"
                         % (name, name, float(numpy.abs(h - 1j * out).max()), scl, name, float(numpy.abs(h + 1j * out).max()), n, wvl, d1, d2, z),
                         dict(rp, U=_small(U)))
            hc = call(a * Uin)
            obs(chk, "c-homogeneity[tol %g]" % (2 * ltol), float(numpy.abs(hc - a * out).max()) / scl)
            if not float(numpy.abs(hc - a * out).max()) <= ltol * scl * 2:
                chk.fail("linear:" + name, "%s(c·U) ≠ c·%s(U) for c=%r: err %.3g of scale %.3g (N=%d wvl=%g d1=%g d2=%g z=%g)"
                         % (name, name, a, float(numpy.abs(hc - a * out).max()), scl, n, wvl, d1, d2, z), dict(rp, c=[a.real, a.imag], U=_small(U)))
            # a function of its arguments only: same call, same answer; the input is left alone
            again = call(Uin)
            if not numpy.array_equal(again, out):
                chk.fail("stateful:" + name, "%s returns a different field when called twice with the same arguments (N=%d)" % (name, n), rp)
            if not numpy.array_equal(Uin, U0):
                chk.fail("inplace:" + name, "%s modifies its input field (N=%d)" % (name, n), rp)
            # the same VALUES in another storage (dtype / byte order / layout) are the same field: compare with the plain complex128,
            # C-ordered copy (exactly equal on the unchanged tree for every class but single-precision input of lensAgainst: observed 0.0)
            if cls not in ("c128",):
                plain = call(U.copy())
                stol = C64_TOL if single(name, c64) else TOL
                e = obs(chk, "presentation[tol %g]" % stol, float(numpy.abs(plain - out).max()) / scl)
                if not e <= stol:
                    chk.fail("presentation:%s:%s" % (name, cls), "%s returns a different field for the same values stored as %s (dtype %s, C-contiguous %s, "
                             "writeable %s) and as a plain complex128 array: err %.3g of scale %.3g (N=%d wvl=%g d1=%g d2=%g z=%g)"
                             % (name, cls, Uin.dtype, Uin.flags.c_contiguous, Uin.flags.writeable, e * scl, scl, n, wvl, d1, d2, z), dict(rp, U=_small(U)))
            # histories around one call: (1) a result handed out earlier must not change when the function is called again (a shared output /
            # work buffer); (2) the caller may overwrite the result it was given (apply a mask in place) without affecting the next call;
            # (3) the caller may refill the SAME input array with another field (a simulation loop does): the result must follow the contents
            if kept is not None and not numpy.array_equal(out, kept):
                chk.fail("stateful:%s:result-overwritten" % name, "the array returned by the first %s call changed while the function was called again "
                         "with other fields (N=%d): results share a buffer" % (name, n), rp)
            elif kept is not None and out.flags.writeable:
                out[...] = 0
                if not numpy.array_equal(call(Uin), kept):
                    chk.fail("stateful:%s:result-shared-with-caller" % name, "after the caller zeroed the array %s returned, the same call returns a "
                             "different field (N=%d): the result is shared with internal state" % (name, n), rp)
            if Uin.flags.writeable and not numpy.array_equal(Uin, U0):
                Uin[...] = U0                             # (an in-place edit, or a result that aliases the input: already reported above)
            if Uin.flags.writeable and Uin.dtype.kind == "c" and Uin.dtype.itemsize == 16:
                Uin[...] = V
                if not numpy.array_equal(call(Uin), oV):
                    chk.fail("stateful:%s:input-array-reused" % name, "%s called with the same array OBJECT refilled with another field does not return "
                             "the propagation of the new contents (N=%d, field class %s)" % (name, n, cls), dict(rp, U=_small(U), V=_small(V)))
                Uin[...] = U0                             # the next propagator gets the original field again

    for n in sizes:
        for rep in range(reps):
            it += 1
            wvl, d1, z = geometry(chk.rng, n)
            if rep % 3 == 2:                              # free-form positive reals, not from the menu
                wvl *= chk.rng.uniform(0.5, 2.0)
                d1 *= chk.rng.uniform(0.5, 2.0)
                z *= chk.rng.uniform(0.5, 2.0)
            # unit magnification (d1 == d2 exactly, however the two numbers are typed) in a fixed third of the cases
            m = 1.0 if rep % 3 == 1 else chk.rng.choice(MAGS + [chk.rng.uniform(0.3, 3.0), near_unit(chk.rng)])
            kind = chk.rng.choice(["gauss", "dyadic", "delta", "blob", "plane"])
            cls = FIELD_CLASSES[it % len(FIELD_CLASSES)]
            one_geometry(n, wvl, d1, m, z, kind, cls, sample=(rep == 0 and n in (8, 64)))
    # unit magnification with every NumPy way of typing d1 / z (the intermediate plane z/(1-m) must not be taken)
    for kinds in (["float", "f64", "float", "float"], ["float", "float", "float", "f64"], ["f64", "f64", "f64", "f64"],
                  ["float", "0d", "0d", "0d"], ["f32", "f32", "f32", "f32"], ["int", "int", "int", "int"]):
        it += 1
        wvl, d1, z = geometry(chk.rng, 8)
        if kinds[0] == "int":
            wvl, d1, z = 1.0, 2.0, float(chk.rng.choice([-1, 1]) * chk.rng.randint(2, 40))
        one_geometry(chk.rng.choice([4, 6, 8]), wvl, d1, 1.0, z, chk.rng.choice(["gauss", "blob"]), "c128", kinds=kinds, tag="unit-mag")
    # the SAME sampling (N, wavelength, both spacings) at several distances, one call after the other in this process — a simulation
    # propagates to several layers on one grid; anything remembered per sampling (plane grids, transfer functions) shows up here
    for n in ([8, 16] if quick else [4, 8, 16, 32]):
        for m in (1.0, 2.0, 0.75):
            wvl, d1, z0 = geometry(chk.rng, n)
            for fz in (1.0, 2.5, -0.4, -1.0, 1.0):        # -1: the same |z| with the other sign
                it += 1
                one_geometry(n, wvl, d1, m, z0 * fz, chk.rng.choice(["gauss", "blob"]), "c128", kinds=["float"] * 4, tag="same-sampling")
    # tiny non-zero distances of either sign, with magnification: z != 0 is in the domain however small (a zero-distance shortcut that
    # also fires for |z| <= 1e-8 returns the input on the input grid: power off by m²)
    for z in TINY_Z if quick else TINY_Z + [1e-8, -1e-8, 9.9e-9, 2 ** -40, -2 ** -60]:
        for m in (2.0, 0.5):
            it += 1
            n = chk.rng.choice([4, 6, 8, 16])
            wvl, d1, _ = geometry(chk.rng, n)
            one_geometry(n, wvl, d1, m, z, chk.rng.choice(["gauss", "dyadic", "blob"]), "c128", tag="tiny-z")

    # ---- round 5 (generator audit) ------------------------------------------------------------------------------------------------------
    # one parameter changed at a time, the others (and N) kept, returning to the first geometry in between: whatever a propagator remembers
    # per call must be keyed on ALL of (N, wvl, d1, d2, z)
    for n in ([6, 16] if quick else [4, 6, 16, 32]):
        wvl, d1, z = geometry(chk.rng, n)
        m = chk.rng.choice([0.5, 1.5, 2.0])
        base = (n, wvl, d1, m, z)
        for var in (base, (n, 2 * wvl, d1, m, z), base, (n, wvl, 2 * d1, m / 2, z), base, (n, wvl, d1, 1.0, z), base, (n, wvl, 2 * d1, m, z),
                    base, (n + 2, wvl, d1, m, z), base):
            it += 1
            one_geometry(*var, kind=chk.rng.choice(["gauss", "blob"]), cls="c128", kinds=["float"] * 4, tag="one-changed")
    # parameter magnitudes over many decades (X-ray to radio wavelengths, sub-micron to kilometre samples, micrometres to 1e12 m) and
    # magnifications far from / next to 1 (1e-3, 1e3, 1 ± 2^-20, 1 ± 2^-30, one ulp): every factor is still of unit modulus or an exact
    # scalar, so power and linearity hold to rounding (observed over the full 4·5·5·8·7 product of these menus: power 1.8e-13, linearity 5e-16)
    for rep in range(8 if quick else 60):
        it += 1
        n = chk.rng.choice([4, 8, 16, 34])
        wvl = chk.rng.choice([1e-10, 500e-9, 1e-3, 1.0, 30.0])
        d1 = chk.rng.choice([1e-7, 1e-3, 0.1, 10.0, 1e3])
        z = chk.rng.choice([-1, 1]) * chk.rng.choice([1e-6, 1e-3, 1.0, 1e5, 1e8, 1e12])
        m = [1e-3, 1e3, 1 + 2.0 ** -20, 1 - 2.0 ** -30, 1 + 2.0 ** -52, 1.0, 1 - 2.0 ** -20, 7.0][rep % 8]
        one_geometry(n, wvl, d1, m, z, chk.rng.choice(["gauss", "dyadic", "blob", "plane"]), "c128",
                     kinds=[chk.rng.choice(["float", "f64", "0d"]) for _ in range(4)], tag="magnitude")
    # amplitudes far from 1, and the zero field (a linear map sends 0 to 0 exactly)
    for kind in ("huge", "tiny"):
        for rep in range(1 if quick else 4):
            it += 1
            n = chk.rng.choice([4, 8, 26])
            wvl, d1, z = geometry(chk.rng, n)
            one_geometry(n, wvl, d1, chk.rng.choice([1.0, 0.5, 1.5]), z, kind, "c128", kinds=["float"] * 4, tag="amplitude")
    for n in ([6] if quick else [2, 6, 34]):
        wvl, d1, z = geometry(chk.rng, n)
        for m in (1.0, 1.5):
            for name, (call0, _) in props.items():
                chk.oracle_cases += 1
                chk.case(("zero-field", name, n, wvl, d1, m, z))
                chk.count("zero-field")
                with numpy.errstate(all="ignore"):
                    out = call0(numpy.zeros((n, n), complex), wvl, d1, m * d1, z)
                if out.shape != (n, n) or not (out == 0).all():
                    chk.fail("linear:" + name, "%s of the zero field is not the zero field (N=%d wvl=%g d1=%g d2=%g z=%g): max |out| = %r"
                             % (name, n, wvl, d1, m * d1, z, float(numpy.abs(out).max()) if out.size else None),
                             dict(propagator=name, N=n, wvl=wvl, d1=d1, d2=m * d1, z=z, data="zero"))
    # integer-typed parameters with a magnification != 1: Python int, numpy.int64, numpy.int32, numpy.uint8 (z stays signed)
    # — the ratio d2/d1 is never an integer (2:1, 2:3, 2:5, 4:2, 4:3, 4:5, 4:6: all dyadic, so d2 = m·d1 is exact)
    for kinds in (["int"] * 4, ["i64"] * 4, ["i32"] * 4, ["u8", "u8", "u8", "i64"], ["int", "i32", "float", "i64"]):
        it += 1
        d1i, d2i = chk.rng.choice([(2, 1), (2, 3), (2, 5), (4, 2), (4, 3), (4, 5), (4, 6)])
        one_geometry(chk.rng.choice([4, 6, 8]), float(chk.rng.choice([1, 2])), float(d1i), d2i / float(d1i),
                     float(chk.rng.choice([-1, 1]) * chk.rng.randint(2, 40)), chk.rng.choice(["gauss", "dyadic"]), "c128", kinds=kinds, tag="int-scalars")
    # grids large enough to cross the usual size thresholds (2^16 = 256², 2^18 = 512² elements; the test-suite's own size is 512)
    for n in ([256, 512] if quick else [256, 260, 384, 512, 1024]):
        it += 1
        wvl, d1 = chk.rng.choice([500e-9, 1.55e-6]), chk.rng.choice([1e-3, 2.5e-3])
        z = chk.rng.choice([-1, 1]) * n * d1 * d1 / wvl * chk.rng.choice([0.5, 1.0, 2.0])
        one_geometry(n, wvl, d1, chk.rng.choice([1.0, 0.75, 1.5]) if n != 512 else 1.5, z, chk.rng.choice(["gauss", "blob"]),
                     "c128" if n != 256 else "c64", kinds=["float"] * 4, tag="large")
    # every parameter passed by keyword (the documented names)
    kw = {"angularSpectrum": ("inputComplexAmp", "wvl", "inputSpacing", "outputSpacing", "z"), "oneStepFresnel": ("Uin", "wvl", "d1", "z"),
          "twoStepFresnel": ("Uin", "wvl", "d1", "d2", "z"), "lensAgainst": ("Uin", "wvl", "d1", "f")}
    n = 8
    wvl, d1, z = geometry(chk.rng, n)
    U = rand_field(nprng, n, "gauss")
    for name, names in kw.items():
        args = (U, wvl, d1, 1.5 * d1, z) if len(names) == 5 else (U, wvl, d1, z)
        chk.oracle_cases += 1
        chk.case(("keyword", name, n, wvl, d1, z))
        chk.count("keyword-call")
        try:
            byname = getattr(op, name)(**dict(zip(names, args)))
        except TypeError as ex:
            chk.fail("keyword:" + name, "%s cannot be called with its documented parameter names %s: %s" % (name, list(names), ex),
                     dict(propagator=name, names=list(names)))
            continue
        if not numpy.array_equal(byname, getattr(op, name)(*args)):
            chk.fail("keyword:" + name, "%s called by keyword differs from the positional call (N=%d)" % (name, n), dict(propagator=name, N=n, wvl=wvl, d1=d1, z=z))


def thread_schedule(chk, quick):
    """SCHEDULES (round 6): the four propagators called from several threads at once on grids of one shape (one wavefront per thread, as in a
    loop over layers handed to a thread pool) give, every time, what they give alone.  NumPy releases the GIL inside the FFT and the large
    elementwise operations, so a work array kept per shape at module level (seeded change C10-L: `ift2` transforming in place in such an
    array) is overwritten by the other threads.  A pure function cannot fail this clause; a racy one is caught with high probability, not
    with certainty (observed: first round, six runs out of six)."""
    import threading
    from aotools import opticalpropagation as op
    nprng = numpy.random.default_rng(chk.rng.getrandbits(32))
    n = 256
    wvl, d1, z = 5e-7, 0.01, 1000.0
    nthreads, rounds = 4, (3 if quick else 12)
    fields = [rand_field(nprng, n, "gauss") * (k + 1) for k in range(nthreads)]
    props = propagators(op)
    for name, (fn, _) in sorted(props.items()):
        d2 = d1 * (1.0 if name != "twoStepFresnel" else 1.5)
        want = [numpy.array(fn(U, wvl, d1, d2, z), copy=True) for U in fields]
        got = [[None] * rounds for _ in range(nthreads)]
        errs = []
        gate = threading.Barrier(nthreads)

        def work(k):
            try:
                gate.wait(timeout=60)
                for r in range(rounds):
                    got[k][r] = numpy.array(fn(fields[k], wvl, d1, d2, z), copy=True)
            except Exception as ex:          # noqa: BLE001
                errs.append("%s: %s" % (type(ex).__name__, ex))
        ths = [threading.Thread(target=work, args=(k,)) for k in range(nthreads)]
        for th in ths:
            th.start()
        for th in ths:
            th.join(600)
        chk.oracle_cases += 1
        chk.count("oracle:threads:" + name)
        chk.case(("threads", name, n, nthreads, rounds))
        rep = dict(propagator=name, N=n, wvl=wvl, d1=d1, d2=d2, z=z, threads=nthreads, rounds=rounds)
        if errs:
            chk.fail("threads:raises:" + name, "%s raised in a thread: %s" % (name, errs[0]), rep)
            continue
        worst = 0.0
        for k in range(nthreads):
            for r in range(rounds):
                g = got[k][r]
                if g is None or g.shape != want[k].shape:
                    worst = float("inf")
                else:
                    worst = max(worst, float(numpy.max(numpy.abs(g - want[k])) / max(float(numpy.max(numpy.abs(want[k]))), 1e-300)))
        if not worst <= 1e-12:
            chk.fail("threads:" + name, "%s on a %dx%d grid called from %d threads at once (each on its own field, %d calls each) returns "
                     "fields that differ from the same calls made alone by up to %.3g of the largest sample" % (name, n, n, nthreads, rounds, worst), rep)


def _small(U):
    return [[[float(v.real), float(v.imag)] for v in row] for row in U] if U.shape[0] <= 8 else "N>8: regenerate from seed"


def run(chk):
    quick = chk.tier == "quick"
    chk.rule = ("correspondence: Lean model (Model/Propagation.lean, grids centred on sample N//2) at binary64 with the naive DFT vs angularSpectrum / "
                "oneStepFresnel / twoStepFresnel / lensAgainst on even N<=12 (thorough <=16), gaussian/dyadic/single-sample/asymmetric-blob fields presented "
                "as complex128 / real / complex64 / Fortran-ordered / strided / negative-stride arrays, every scalar parameter presented as Python float / "
                "numpy.float64 / numpy.float32 / 0-d array / int, both signs of z, z=0, m in {1/2,3/4,1,3/2,2} and 1±2^-k (k=2..8), |model-impl| <= "
                "1e-9*max|model| (5e-2 when a scalar is float32, 1e-5 for a complex64 field); oracle: finite output, power ratio |r-1|<=1e-9 "
                "(1e-5 single precision), superposition with complex a,b, homogeneity for i and a general complex factor (both signs of z), "
                "repeatability, input untouched, on N<=64 (thorough <=128) with m=1 forced in one third of the geometries, every NumPy typing of "
                "d1/z at m=1, and tiny distances |z| in {5e-9, 1e-10, 3e-12} with m in {2, 1/2}; round 5: fields also stored as float32 / int64 / int32 / "
                "uint8 / bool / read-only / zero-stride broadcast / big-endian arrays (the double-precision bounds apply to a single-precision FIELD for "
                "every propagator but lensAgainst; same values in another storage = same output), plane waves, amplitudes 1e±100, the zero field, "
                "integer-typed scalars (int, numpy.int64/int32/uint8) with m != 1, wvl 1e-10..30, d1 1e-7..1e3, |z| 1e-6..1e12, m in {1e-3, 1e3, 7, "
                "1±2^-20, 1-2^-30, 1+2^-52}, N = 256, 512 (thorough 260, 384, 1024), histories on one grid with one of wvl / d1 / d2 / both spacings / N "
                "changed at a time and back, the same |z| with the other sign, an earlier result re-read after later calls, the returned array zeroed by "
                "the caller, the caller's input array refilled with another field, every parameter by keyword; distinct = distinct (propagator, N, wvl, "
                "d1, d2, z, data kind, field class, scalar kinds)")
    chk.assumptions = ["numpy.fft kernels = naive DFT sums (contract checked numerically each run)",
                       "binary64 rounding is not modelled: the theorems are about exact complex arithmetic",
                       "single-precision inputs (numpy.float32 scalars, complex64 fields) are only compared to single-precision accuracy",
                       "odd N is outside the property's domain (the theorems nevertheless hold for every N>=1; odd grids are exercised by C11)"]
    chk.build_and_audit("AoVerif.Props.C10", "AoVerif.Props.C10", REQUIRED)
    kernel_contract(chk)
    try:
        correspondence(chk, quick, 28 if quick else 160, accept_pinned_two=True)
    except common.LeanError as ex:
        chk.broke("correspondence", "driver failed", str(ex))
    oracle(chk, quick)
    thread_schedule(chk, quick)
    obs_note(chk)
