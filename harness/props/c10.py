"""C10 — optical propagators are linear and conserve power.
(Also hosts what C11 shares with it: generators, the correspondence of Model/Propagation.lean with
aotools.opticalpropagation, the direct centred Fresnel sum.)"""
import math

import numpy

from .. import common

MANIFEST = {
    "text": "Lean 4 theorems about a hand-written model of aotools.opticalpropagation (angularSpectrum, oneStepFresnel, twoStepFresnel, "
            "lensAgainst on top of the C09 model of ft2/ift2), over the complex numbers with the FFT kernel any primitive N-th root of "
            "unity: each propagator is linear in the input field for complex coefficients, and conserves sum|U|^2 d^2 for EVERY grid size "
            "N>=1, every complex input, wavelength != 0, spacings != 0 (any magnification), distance/focal length != 0 of either sign "
            "(2-D Parseval from the C09 Plancherel identity, |e^{i theta}|=1, spacing algebra d2 = lambda z/(N d1), Dz2 = -m Dz1). The model is "
            "tied to the code by running the same Lean definitions at binary64 against the real functions (even N<=16, both signs of z, "
            "m in {1/2,3/4,1,3/2,2}); a direct oracle evaluates power ratio and superposition on the real code up to N=128.",
    "note": "Trusted: Lean kernel + propext/Classical.choice/Quot.sound; numpy.fft = naive DFT (contract checked in C09 and here to 1e-9); "
            "binary64 rounding is not modelled (model is exact arithmetic; comparison tolerance 1e-9 of the output max-norm); NumPy "
            "meshgrid/broadcast semantics exercised by the correspondence only.",
    "technique": "Lean 4 proof (Finset-sum algebra over roots of unity, Parseval) + differential correspondence with the real code + oracle search",
}
REQUIRED = ["angularSpectrum_linear", "oneStepFresnel_linear", "twoStepFresnel_linear", "lensAgainst_linear",
            "angularSpectrum_power", "oneStepFresnel_power", "twoStepFresnel_power", "lensAgainst_power",
            "twoStepFresnel_pinned_linear", "twoStepFresnel_pinned_power"]
TOL = 1e-9
MAGS = [0.5, 0.75, 1.0, 1.5, 2.0]


# --------------------------------------------------------------------------- generators
def rand_field(nprng, n, kind):
    if kind == "dyadic":
        return (nprng.integers(-64, 65, size=(n, n)) + 1j * nprng.integers(-64, 65, size=(n, n))) / 8.0
    if kind == "delta":                                   # a single off-centre sample: the most orientation-sensitive input
        x = numpy.zeros((n, n), complex)
        x[nprng.integers(0, n), nprng.integers(0, n)] = 1.0 + 0.5j
        return x
    if kind == "blob":                                    # smooth, asymmetric, off-centre
        a, b = numpy.mgrid[0:n, 0:n]
        ca, cb = nprng.uniform(0.2, 0.8, 2) * n
        return numpy.exp(-((a - ca) ** 2 + 2 * (b - cb) ** 2) / (0.08 * n * n + 1)) * numpy.exp(1j * 0.3 * a)
    return nprng.normal(size=(n, n)) + 1j * nprng.normal(size=(n, n))


def geometry(rng, n):
    """(wvl, d1, z) with moderate quadratic phases (|theta| < ~1e3) so that binary64 phase rounding stays < 1e-12"""
    if rng.random() < 0.5:                                # optical units
        wvl = rng.choice([500e-9, 1.55e-6, 2.2e-6])
        d1 = rng.choice([1e-3, 2.5e-3, 5e-3])
        z = rng.choice([-1, 1]) * rng.choice([0.5, 2.0, 7.5, 30.0, 1e3])
    else:                                                 # dimensionless, dyadic
        wvl = rng.choice([0.5, 0.25, 1.0])
        d1 = rng.choice([1.0, 0.5, 2.0])
        z = rng.choice([-1, 1]) * common.dyadic(rng, 0.5, 40, 3)
    return float(wvl), float(d1), float(z)


# --------------------------------------------------------------------------- correspondence (shared with C11)
def line(op, n, p, arr):
    p = list(p) + [0.0] * (4 - len(p))
    flat = numpy.asarray(arr, dtype=complex).ravel()
    return "C10 %s %d %s %s" % (op, n, " ".join(common.f2h(v) for v in p),
                                " ".join(common.f2h(v) for z in flat for v in (z.real, z.imag)))


def parse_c(ans, shape):
    return numpy.array([common.h2f(h) for h in ans.split()]).view(complex).reshape(shape)


def correspondence(chk, quick, ncase, accept_pinned_two=False):
    """the Lean model at binary64 vs aotools.opticalpropagation on the same inputs.
    accept_pinned_two (C10 only): twoStepFresnel may match either the repaired model or the model of the pinned code (no final
    point reflection) — the C10 theorems are proved for both; C11 accepts the repaired one only."""
    from aotools import opticalpropagation as op
    nprng = numpy.random.default_rng(chk.rng.getrandbits(32))
    sizes = [2, 4, 6, 8, 10, 12] if quick else [2, 4, 6, 8, 10, 12, 14, 16]
    lines, expect, desc = [], [], []

    def add(opname, n, p, U, impl):
        lines.append(line(opname, n, p, U))
        expect.append(impl)
        desc.append((opname, n) + tuple(p))
        if opname == "two" and accept_pinned_two:
            lines.append(line("twop", n, p, U))
            expect.append(impl)
            desc.append(("twop", n) + tuple(p))

    for it in range(ncase):
        n = sizes[it % len(sizes)] if it < 2 * len(sizes) else chk.rng.choice(sizes)
        kind = chk.rng.choice(["gauss", "dyadic", "delta", "blob"])
        U = rand_field(nprng, n, kind)
        wvl, d1, z = geometry(chk.rng, n)
        m = MAGS[it % len(MAGS)]
        d2 = m * d1
        chk.count("corr:N=%d" % n)
        chk.count("corr:z%s" % ("+" if z > 0 else "-"))
        chk.count("corr:m=%g" % m)
        chk.count("corr:data=%s" % kind)
        add("as", n, (wvl, d1, d2, z), U, op.angularSpectrum(U.copy(), wvl, d1, d2, z))
        add("one", n, (wvl, d1, z), U, op.oneStepFresnel(U.copy(), wvl, d1, z))
        add("two", n, (wvl, d1, d2, z), U, op.twoStepFresnel(U.copy(), wvl, d1, d2, z))
        add("lens", n, (wvl, d1, z), U, op.lensAgainst(U.copy(), wvl, d1, z))
        if it % 7 == 0:
            add("as", n, (wvl, d1, d2, 0.0), U, op.angularSpectrum(U.copy(), wvl, d1, d2, 0.0))
            chk.count("corr:z0")
            add("refl", n, (), U, numpy.roll(U[::-1, ::-1], 1, axis=(0, 1)))
    ans = common.run_driver(lines, "C10")
    nbad = 0
    verdicts = []
    for a, e, ds in zip(ans, expect, desc):
        if a == "bad-op":
            chk.broke("correspondence", "driver rejected %s N=%d" % (ds[0], ds[1]))
            verdicts.append((True, 0.0, 1.0))
            continue
        mdl = parse_c(a, e.shape)
        scale = float(numpy.abs(e).max()) + 1e-300
        err = float(numpy.abs(mdl - e).max())
        verdicts.append((err <= TOL * scale, err, scale))
    pinned_hits = repaired_hits = 0
    for i, ((ok, err, scale), ds) in enumerate(zip(verdicts, desc)):
        if ds[0] == "twop":
            continue                                      # judged together with the preceding "two"
        chk.corr_cases += 1
        chk.case(("corr",) + ds, sample={"op": ds[0], "N": ds[1], "params": list(ds[2:])})
        if ds[0] == "two" and accept_pinned_two:
            okp = verdicts[i + 1][0]
            repaired_hits += ok
            pinned_hits += (okp and not ok)
            ok = ok or okp
        if not ok:
            nbad += 1
            if nbad <= 4:
                chk.broke("correspondence", "model %s differs from opticalpropagation at N=%d params=%s (max err %.3g, scale %.3g)"
                          % (ds[0], ds[1], list(ds[2:]), err, scale))
    if pinned_hits:
        if repaired_hits > sum(1 for ds in desc if ds[0] == "two" and ds[3] == ds[4]):   # m = 1 cases match both models
            chk.broke("correspondence", "twoStepFresnel matches the repaired model on some inputs and the pinned model on others")
        chk.notes.append("twoStepFresnel of this tree matches the model of the PINNED code (no final point reflection) on %d cases: "
                         "linearity and power conservation are proved for that model too (twoStepFresnel_pinned_linear/_power); the orientation "
                         "defect is C11's business" % pinned_hits)


def kernel_contract(chk):
    """numpy.fft.fft2 is the naive 2-D DFT (the model's assumption about the external kernel)"""
    nprng = numpy.random.default_rng(11)
    for n in (2, 4, 6, 8):
        x = nprng.normal(size=(n, n)) + 1j * nprng.normal(size=(n, n))
        j = numpy.arange(n)
        W = numpy.exp(-2j * numpy.pi * numpy.outer(j, j) / n)
        if numpy.abs(numpy.fft.fft2(x) - W @ x @ W).max() > 1e-9 * n * n * 4 or \
                numpy.abs(numpy.fft.ifft2(numpy.fft.fft2(x)) - x).max() > 1e-9 * 4:
            chk.broke("correspondence", "numpy.fft does not meet the DFT contract at n=%d" % n)


# --------------------------------------------------------------------------- the oracle of C10
def propagators(op):
    """name -> (call(U, wvl, d1, d2, z), output spacing(n, wvl, d1, d2, z))"""
    return {
        "angularSpectrum": (lambda U, w, d1, d2, z: op.angularSpectrum(U, w, d1, d2, z), lambda n, w, d1, d2, z: d2),
        "oneStepFresnel": (lambda U, w, d1, d2, z: op.oneStepFresnel(U, w, d1, z), lambda n, w, d1, d2, z: w * z / (n * d1)),
        "twoStepFresnel": (lambda U, w, d1, d2, z: op.twoStepFresnel(U, w, d1, d2, z), lambda n, w, d1, d2, z: d2),
        "lensAgainst": (lambda U, w, d1, d2, z: op.lensAgainst(U, w, d1, z), lambda n, w, d1, d2, z: w * z / (n * d1)),
    }


def oracle(chk, quick):
    from aotools import opticalpropagation as op
    nprng = numpy.random.default_rng(chk.rng.getrandbits(32))
    sizes = [2, 4, 6, 8, 10, 16, 32, 64] + ([] if quick else [12, 24, 48, 96, 128])
    reps = 3 if quick else 12
    props = propagators(op)
    for n in sizes:
        for rep in range(reps):
            wvl, d1, z = geometry(chk.rng, n)
            if rep % 3 == 2:                              # free-form positive reals, not from the menu
                wvl *= chk.rng.uniform(0.5, 2.0)
                d1 *= chk.rng.uniform(0.5, 2.0)
                z *= chk.rng.uniform(0.5, 2.0)
            m = chk.rng.choice(MAGS + [chk.rng.uniform(0.3, 3.0)])
            d2 = m * d1
            kind = chk.rng.choice(["gauss", "dyadic", "delta", "blob"])
            U, V = rand_field(nprng, n, kind), rand_field(nprng, n, "gauss")
            a, b = complex(chk.rng.uniform(-2, 2), chk.rng.uniform(-2, 2)), complex(chk.rng.uniform(-2, 2), chk.rng.uniform(-2, 2))
            pin = float((numpy.abs(U) ** 2).sum() * d1 * d1)
            chk.count("oracle:N=%d" % n)
            chk.count("oracle:z%s" % ("+" if z > 0 else "-"))
            chk.count("oracle:data=%s" % kind)
            for name, (call, dout) in props.items():
                chk.oracle_cases += 1
                chk.case(("oracle", name, n, wvl, d1, d2, z, kind),
                         sample={"propagator": name, "N": n, "wvl": wvl, "d1": d1, "d2": d2, "z": z, "data": kind} if rep == 0 and n in (8, 64) else None)
                rp = dict(propagator=name, N=n, wvl=wvl, d1=d1, d2=d2, z=z, data=kind, seed=chk.seed)
                U0 = U.copy()
                out = call(U, wvl, d1, d2, z)
                if out.shape != U.shape:
                    chk.fail("shape:" + name, "%s returns shape %s for input %s" % (name, out.shape, U.shape), rp)
                    continue
                # conservation of power
                do = dout(n, wvl, d1, d2, z)
                pout = float((numpy.abs(out) ** 2).sum() * do * do)
                if not abs(pout - pin) <= TOL * pin:
                    chk.fail("power:" + name, "%s: Σ|U_out|²d_out² / Σ|U_in|²d_in² = %.12g (N=%d wvl=%g d1=%g d2=%g z=%g, %s field)"
                             % (name, pout / pin, n, wvl, d1, d2, z, kind), dict(rp, ratio=pout / pin, U=_small(U)))
                # superposition with complex coefficients
                oV = call(V, wvl, d1, d2, z)
                lin = call(a * U + b * V, wvl, d1, d2, z)
                sc = float(max(numpy.abs(out).max(), numpy.abs(oV).max())) * 4 + 1e-300
                err = float(numpy.abs(lin - (a * out + b * oV)).max())
                if not err <= TOL * sc:
                    chk.fail("linear:" + name, "%s(aU+bV) ≠ a·%s(U)+b·%s(V): err %.3g of scale %.3g (N=%d wvl=%g d1=%g d2=%g z=%g a=%r b=%r)"
                             % (name, name, name, err, sc, n, wvl, d1, d2, z, a, b), dict(rp, a=[a.real, a.imag], b=[b.real, b.imag], U=_small(U), V=_small(V)))
                # homogeneity alone (catches an additive offset / a conjugation, which survive real coefficients)
                h = call(1j * U, wvl, d1, d2, z)
                if not float(numpy.abs(h - 1j * out).max()) <= TOL * sc:
                    chk.fail("linear:" + name, "%s(i·U) ≠ i·%s(U) (N=%d wvl=%g d1=%g d2=%g z=%g)" % (name, name, n, wvl, d1, d2, z), dict(rp, U=_small(U)))
                # a function of its arguments only: same call, same answer; the input is left alone
                again = call(U, wvl, d1, d2, z)
                if not numpy.array_equal(again, out):
                    chk.fail("stateful:" + name, "%s returns a different field when called twice with the same arguments (N=%d)" % (name, n), rp)
                if not numpy.array_equal(U, U0):
                    chk.fail("inplace:" + name, "%s modifies its input field (N=%d)" % (name, n), rp)


def _small(U):
    return [[[float(v.real), float(v.imag)] for v in row] for row in U] if U.shape[0] <= 8 else "N>8: regenerate from seed"


def run(chk):
    quick = chk.tier == "quick"
    chk.rule = ("correspondence: Lean model (Model/Propagation.lean) at binary64 with the naive DFT vs angularSpectrum / oneStepFresnel / "
                "twoStepFresnel / lensAgainst on even N<=12 (thorough <=16), gaussian/dyadic/single-sample/asymmetric-blob complex fields, both "
                "signs of z, z=0, m in {1/2,3/4,1,3/2,2}, |model-impl| <= 1e-9*max|impl|; oracle: power ratio |r-1|<=1e-9 and superposition "
                "(complex a,b; err <= 1e-9*scale), repeatability, on N<=64 (thorough <=128); distinct = distinct (propagator, N, wvl, d1, d2, z, data kind)")
    chk.assumptions = ["numpy.fft kernels = naive DFT sums (contract checked numerically each run)",
                       "binary64 rounding is not modelled: the theorems are about exact complex arithmetic",
                       "odd N is outside the property's domain (the theorems nevertheless hold for every N>=1)"]
    chk.build_and_audit("AoVerif.Props.C10", "AoVerif.Props.C10", REQUIRED)
    kernel_contract(chk)
    try:
        correspondence(chk, quick, 28 if quick else 160, accept_pinned_two=True)
    except common.LeanError as ex:
        chk.broke("correspondence", "driver failed", str(ex))
    oracle(chk, quick)
