"""C04 — infinite phase screen rows follow the exact conditional von Kármán law."""
import contextlib
import copy
import json
import math

import numpy

from .. import common, t1check

MANIFEST = {
    "text": "Lean 4 theorems over real matrices (Mathlib Matrix) about a hand-written model of infinitephasescreen.py and the "
            "T1-regenerated turb.phase_covariance: A*Szz = Sxz from the Cholesky-solve contract, B*B^T = Sxx - A*Szx from the SVD "
            "contract of the symmetric PSD Schur complement (uniqueness of the PSD square root), hence A*Szz*A^T + B*B^T = Sxx and "
            "the joint second moments of (new row, stencil) equal the model covariance; separations are pixel_scale*sqrt(dr^2+dc^2) "
            "(symmetric, translation invariant); find_allowed_size is the minimal 2^n+1 >= request; the Fried stencil is "
            "characterised and in bounds for every 2^m+1 size; adding a constant to the screen adds it to the Fried row for every "
            "stencil content and innovation vector.  The model is run at Float/Int by a Lean driver against the real code "
            "(coordinates exact, covariance blocks, A, BBt, B, synthesised rows with an injected Generator); the external kernels "
            "(cho_factor/cho_solve, svd) are observed at the library's call boundary and their contracts checked per instance; "
            "a direct oracle evaluates both identities on the real A_mat/B_mat against an independently computed covariance.",
    "note": "Trusted: Lean kernel + propext/Classical.choice/Quot.sound; Mathlib Matrix/PosSemidef/CFC.sqrt; translator T1 "
            "(self-checked); the correspondence harness.  Hypotheses, not proved: H2 (the von Karman covariance matrix is positive "
            "semidefinite; Mathlib has no Bessel functions), positive definiteness of Szz (= 'construction succeeds'), the contracts of "
            "cho_factor/cho_solve and numpy.linalg.svd (checked numerically on every instance), the probabilistic reading "
            "Cov(Lg) = L L^T.  IEEE rounding is not modelled (phase_covariance is binary64 since fix 4518b2c: the covariance "
            "matrix is compared at 1e-12*C(0), the identities at (5e-13 + 2e-15*cond)*C(0)*(1+|A|inf)^2).  Scope: the "
            "stationarity statement covers the joint law of (new row, stencil) only, not the whole exposed screen.",
    "technique": "Lean 4 proof over a hand-written model + regenerated formula (translator T1), differential correspondence through a "
                 "Lean driver, kernel contracts checked per instance, oracle search on the real code",
}
REQUIRED = [
    "allowedExp_spec", "findAllowedSize_spec", "findAllowedSize_fixed", "friedMaxN_allowed", "linspaceRound_allowed",
    "friedMask_iff", "friedMask_inbounds", "mem_friedStencil", "mem_vkStencil", "vkStencil_eq", "xCoords_get",
    "sep_true_separation", "sep_symm", "sep_translate", "covMat_symm", "covMat_translate", "vk_new_row_is_row_zero_shifted",
    "vkStencil_length", "whereMask_nodup", "stencil_ne_x", "conditional_mean_cov", "aMat_eq_mul", "bbt_eq_sub", "bMat_eq_mul", "newRow_eq_mulVec",
    "A_eq", "psd_sq_inj", "B_eq", "schur_posSemidef", "cond_law", "stationary_step", "model_identities",
    "model_identities_phase_covariance", "H2_of_kernel", "fried_shift", "fried_shift_screen", "newRowFried_affine", "vk_shift",
    "retune_A_invariant", "retune_A_of_contract", "retune_BBt_scales", "toM_smul", "retune_model", "phase_covariance_r0_scaling",
    "retune_r0_model",
]

# All tolerances below were calibrated on the repaired tree (turb.phase_covariance in binary64, fix 4518b2c) over 12 seeds
# x 60 configurations of the domain of draw_config (sizes 1..40, L0/pixel 6..1e4, cond <= 1e8) + the 128-pixel test
# configuration of the repository; "observed" = the largest value seen there.
TOL_COV = 1e-12         # · C(0): oracle, cov_mat vs the independent covariance at the true separations (observed 4.6e-15)
TOL_COV_MODEL = 1e-11   # · C(0): correspondence, Lean Float model (own Bessel quadrature) vs cov_mat (observed 2.0e-14)
T1_RTOL = 1e-11         # Gen.phase_covariance at Float vs turb.phase_covariance, relative (observed 8.4e-14)
MAX_COND = 1e8          # generator domain: cond of the INDEPENDENT Szz; beyond it the identities are not decidable in binary64
ID_FLOOR, ID_COND = 5e-13, 2e-15   # identities: |residual| <= (ID_FLOOR + ID_COND·cond)·C(0)·(1+min(|A|inf,10))²
                        # (observed <= 2.0e-15·C(0) at cond 1 and <= 1.3e-17·cond·C(0) beyond cond 1e3: 250x / 150x margin;
                        #  1.2e-9·C(0) at cond 1e8, 5.3e-11·C(0) for the 128-pixel / 4-row test configuration, cond 6e6)
BIG = [("vk", 128, 4, 4. / 64, 0.2, 50.), ("fried", 128, 4, 4. / 64, 0.2, 50.)]   # test/test_infinitephasescreen.py


# --------------------------------------------------------------------------------------------- independent reference
def c_true(r, r0, L0):
    """von Kármán phase covariance (Assemat & Wilson 2006, eq. 5), written independently of turb.phase_covariance;
    r = 0 uses the limit x^(5/6) K_{5/6}(x) → 2^(-1/6) Γ(5/6)."""
    from scipy.special import gamma, kv
    r = numpy.asarray(r, dtype=float)
    amp = (L0 / r0) ** (5. / 3) * gamma(11. / 6) / (2 ** (5. / 6) * numpy.pi ** (8. / 3)) * (24. / 5 * gamma(6. / 5)) ** (5. / 6)
    x = 2 * numpy.pi * r / L0
    out = numpy.full(r.shape, 2 ** (-1. / 6) * gamma(5. / 6))
    m = x > 0
    out[m] = x[m] ** (5. / 6) * kv(5. / 6, x[m])
    return amp * out


def reference_selftest():
    """the oracle's own reference against independent knowledge: for r ≪ L0 the structure function 2(C(0) − C(r)) of c_true is
    Kolmogorov's 6.88 (r/r0)^(5/3) (first correction −1.485 (r/L0)^(1/3)); C is positive and decreasing"""
    r0, L0 = 0.17, 40.0
    for q in (1e-6, 1e-5):
        r = q * L0
        ratio = float(2 * (c_true(0.0, r0, L0) - c_true(r, r0, L0)) / (6.88 * (r / r0) ** (5. / 3)))
        want = 1 - 1.485 * q ** (1. / 3)
        if not abs(ratio - want) < 0.01:
            raise RuntimeError("reference covariance fails its Kolmogorov-limit self-test: ratio %r, expected %r" % (ratio, want))
    v = c_true(numpy.array([0.0, 0.1, 1.0, 10.0, 100.0]), r0, L0)
    if not ((v > 0).all() and (numpy.diff(v) < 0).all()):
        raise RuntimeError("reference covariance is not positive decreasing: %r" % (v,))


def expected_geometry(variant, size, par):
    """the geometry the property describes, written independently of the library and of the Lean model:
    (nx, stencil_length, stencil coords row-major, X coords)"""
    if variant == "vk":
        nx, length = size, size
        st = [(r, c) for r in range(min(par, nx)) for c in range(nx)]
    else:
        m = 0
        while 2 ** m + 1 < size:
            m += 1
        nx, length = 2 ** m + 1, par * (2 ** m + 1)
        pts = set()
        for n in range(m + 1):
            row = 0 if n == 0 else 2 ** (n - 1)
            pts |= {(row, c) for c in range(0, nx, 2 ** n)}
        pts |= {(t * nx - 1, nx // 2) for t in range(1, par + 1)}
        st = sorted(pts)
    return nx, length, st, [(-1, j) for j in range(nx)]


# --------------------------------------------------------------------------------------------- the real code
@contextlib.contextmanager
def kernel_spy(rec):
    """record the external kernels at the library's call boundary (scipy.linalg.cho_factor / cho_solve, numpy.linalg.svd)"""
    import scipy.linalg
    saved = (scipy.linalg.cho_factor, scipy.linalg.cho_solve, numpy.linalg.svd)

    def cf(a, *k, **kw):
        out = saved[0](a, *k, **kw)
        rec.setdefault("cho_factor", []).append(numpy.array(a, dtype=float, copy=True))
        return out

    def cs(c, b, *k, **kw):
        out = saved[1](c, b, *k, **kw)
        rec.setdefault("cho_solve", []).append((numpy.array(b, dtype=float, copy=True), numpy.array(out, copy=True)))
        return out

    def svd(a, *k, **kw):
        out = saved[2](a, *k, **kw)
        rec.setdefault("svd", []).append((numpy.array(a, dtype=float, copy=True), tuple(numpy.array(o, copy=True) for o in out)))
        return out

    scipy.linalg.cho_factor, scipy.linalg.cho_solve, numpy.linalg.svd = cf, cs, svd
    try:
        yield rec
    finally:
        scipy.linalg.cho_factor, scipy.linalg.cho_solve, numpy.linalg.svd = saved


CASTS = ("pyint", "npint", "f32", "mixed")


def typed_args(size, px, r0, L0, cast):
    """the same numbers handed over as other numeric types (only called with values the cast represents exactly)"""
    if cast is None:
        return size, px, r0, L0
    if cast == "pyint":
        return int(size), int(px), int(r0), int(L0)
    if cast == "npint":
        return numpy.int64(size), numpy.int64(px), numpy.int32(r0), numpy.int64(L0)
    if cast == "f32":
        return numpy.int32(size), numpy.float32(px), numpy.float32(r0), numpy.float32(L0)
    if cast == "mixed":      # integer pixel scale with float r0, L0: the case met in practice (pixel_scale=1)
        return size, int(px), r0, L0
    # Round 5
    if cast == "npfloat":    # NumPy double scalars (what arithmetic on arrays hands back), size as a 32-bit integer
        return numpy.int32(size), numpy.float64(px), numpy.float64(r0), numpy.float64(L0)
    if cast == "zerod":      # 0-d arrays (what numpy.asarray(x), a[i, ...] or a config reader hand back)
        return size, numpy.array(px), numpy.array(r0), numpy.array(L0)
    if cast == "f16":        # half precision scalars, smallest integer type for the size
        return (numpy.int8(size) if size < 100 else numpy.int16(size)), numpy.float16(px), numpy.float16(r0), numpy.float16(L0)
    if cast == "pxint32":    # 32-bit integer pixel scale and outer scale, float r0
        return numpy.int16(size), numpy.int32(px), r0, numpy.uint16(L0)
    raise ValueError(cast)


CASTS5 = ("npfloat", "zerod", "f16", "pxint32")
SEED_KINDS = ("int0", "int", "int>2^32", "int>2^53", "int>2^64", "npint", "seq", "none")
CALL_FORMS = ("pos", "allkw", "default")
ENTRIES = ("pkg", "turb")


def seed_argument(kind, seed):
    """what is passed as random_seed for a seed kind (everything numpy.random.default_rng documents), from the integer `seed`"""
    return {"int0": 0, "int": int(seed), "int>2^32": 2 ** 32 + int(seed), "int>2^53": 2 ** 53 + 1 + 2 * int(seed),
            "int>2^64": 2 ** 64 + 2 ** 40 * int(seed) + 3, "npint": numpy.int64(seed), "none": None,
            "seq": numpy.random.SeedSequence(int(seed))}[kind]


def construct(variant, size, par, px, r0, L0, seed, cast=None, how=None):
    """the real object, built through its public constructor with an injected Generator; (obj, kernel record) or (None, exc).
    `how` (Round 5): {"seedkind": what is passed as random_seed instead of a Generator, "call": positional / all keywords /
    optional keyword left at its default (par must then be the default), "entry": package-level alias of the class,
    "parcast": n_columns / stencil_length_factor as a NumPy integer}"""
    from aotools.turbulence import infinitephasescreen as ips
    import aotools
    how = how or {}
    rec = {}
    gen = numpy.random.default_rng(seed) if how.get("seedkind") is None else seed_argument(how["seedkind"], seed)
    size, px, r0, L0 = typed_args(size, px, r0, L0, cast)
    name = "PhaseScreenVonKarman" if variant == "vk" else "PhaseScreenKolmogorov"
    parname = "n_columns" if variant == "vk" else "stencil_length_factor"
    cls = getattr({"pkg": aotools, "turb": aotools.turbulence}.get(how.get("entry"), ips), name)
    if how.get("parcast"):
        par = numpy.int32(par)
    call = how.get("call")
    try:
        with kernel_spy(rec):
            if call == "pos":
                obj = cls(size, px, r0, L0, gen, par)
            elif call == "allkw":
                obj = cls(nx_size=size, pixel_scale=px, r0=r0, L0=L0, random_seed=gen, **{parname: par})
            elif call == "default":
                if par != (2 if variant == "vk" else 4):
                    raise ValueError("harness: call form 'default' needs the default " + parname)
                obj = cls(size, px, r0, L0, random_seed=gen) if gen is not None else cls(size, px, r0, L0)
            else:
                obj = cls(size, px, r0, L0, random_seed=gen, **{parname: par})
    except Exception as ex:      # the caller decides: outside the quantifier only if the configuration is ill-conditioned
        return None, ex
    return obj, rec


def reference_sigma(variant, size, par, px, r0, L0):
    """independent covariance of (stencil ⊕ new row) for the geometry the property describes, and cond(Szz)"""
    nx, length, st, ex = expected_geometry(variant, size, par)
    pos = numpy.array(st + ex, dtype=float)
    d = pos[:, None, :] - pos[None, :, :]
    S = c_true(px * numpy.sqrt((d ** 2).sum(-1)), r0, L0)
    nz = len(st)
    return S, nz, float(numpy.linalg.cond(S[:nz, :nz]))


def clone_generator(gen):
    g = numpy.random.Generator(type(gen.bit_generator)())
    g.bit_generator.state = copy.deepcopy(gen.bit_generator.state)
    return g


def real_row(obj, scrn, state):
    """new row produced by the real object from screen content `scrn` with its generator set to `state`;
    observed through .add_row()/.scrn and ._scrn; returns (row, generator state afterwards, screen after)"""
    obj._scrn = numpy.array(scrn, dtype=float, copy=True)
    obj._R.bit_generator.state = copy.deepcopy(state)
    out = obj.add_row()
    return numpy.array(obj._scrn[0], copy=True), copy.deepcopy(obj._R.bit_generator.state), numpy.array(out, copy=True)


def logu(rng, lo, hi):
    return math.exp(rng.uniform(math.log(lo), math.log(hi)))


def draw_config(rng, max_size):
    variant = rng.choice(["vk", "fried"])
    size = rng.randint(1, max_size)
    par = rng.choice([1, 2, 2, 3]) if variant == "vk" else rng.choice([1, 2, 3, 4, 4])
    r0 = logu(rng, 0.05, 0.5)
    L0 = logu(rng, 5., 100.)
    # L0/px ∈ [6, 1e4]; half of the draws in [6, 250] where the innovation variance is ≥ 1e-3·C(0)
    px = L0 / (logu(rng, 6., 250.) if rng.random() < 0.5 else logu(rng, 250., 1e4))
    return variant, size, par, px, r0, L0


def draw_typed_config(rng, max_size):
    """a configuration whose numbers are exactly representable as int / numpy integer / float32, and the cast to use"""
    cast = rng.choice(CASTS)
    variant = rng.choice(["vk", "fried"])
    size = rng.randint(2, max_size)
    par = rng.choice([1, 2, 3]) if variant == "vk" else rng.choice([1, 2, 4])
    if cast == "f32":
        px = float(numpy.float32(rng.choice([0.25, 0.1, 0.3, 1.0, 2.0])))
        r0 = float(numpy.float32(logu(rng, 0.05, 0.5)))
        L0 = float(numpy.float32(px * logu(rng, 6., 250.)))
    else:
        px = float(rng.choice([1, 1, 2, 3]))
        L0 = float(int(px * logu(rng, 6., 250.)) + 1)
        r0 = float(rng.choice([1, 2])) if cast != "mixed" else logu(rng, 0.05, 0.5)
    return (variant, size, par, px, r0, L0), cast


def draw_wide_config(rng, max_size, kind, k=0):
    """Round 5 — parameter magnitudes and stencil depths draw_config never produces, all inside the stated domain ('all … pixel
    scales, r0, L0, n_columns / stencil_length_factor for which construction succeeds'); k = running index (strata):
    coarse: pixels of the order of / larger than the outer scale, L0/pixel in [0.3, 1], [1, 6], [0.02, 0.3] in turn (below 0.25 the
            covariance between neighbours is < 1e-11·C(0): nearly diagonal, cond ~ 1);
    scaled: the ordinary sampling ratios at absolute scales from 1e-4 to 1e4 of the usual ones, r0 from 1 mm to 30 m (also > L0);
    deep:   n_columns 4 … nx+1 (the whole screen and more), stencil_length_factor 5 … 8"""
    variant = rng.choice(["vk", "fried"])
    size = rng.randint(1, max_size)
    par = rng.choice([1, 2, 2, 3]) if variant == "vk" else rng.choice([1, 2, 3, 4, 4])
    r0 = logu(rng, 0.05, 0.5)
    L0 = logu(rng, 5., 100.)
    px = L0 / logu(rng, 6., 250.)
    if kind == "coarse":
        px = L0 / logu(rng, *[(0.3, 1.), (1., 6.), (0.02, 0.3)][k % 3])
    elif kind == "scaled":
        k = 10. ** rng.choice([-4, -3, -2, 2, 3, 4])
        px, L0, r0 = px * k, L0 * k, logu(rng, 1e-3, 30.)
    elif kind == "deep":
        variant = ("vk", "fried", "vk")[k % 3]
        size = rng.randint(6, 12) if variant == "vk" else rng.randint(1, min(max_size, 12))
        par = rng.choice([5, 6, size, size + 1]) if variant == "vk" else rng.choice([5, 6, 8])
    else:
        raise ValueError(kind)
    return variant, size, par, px, r0, L0


def draw_typed_config5(rng, max_size):
    """Round 5 — a configuration exactly representable in the cast's types, and the cast"""
    cast = rng.choice(CASTS5)
    variant = rng.choice(["vk", "fried"])
    size = rng.randint(2, max_size)
    par = rng.choice([1, 2, 3]) if variant == "vk" else rng.choice([1, 2, 4])
    if cast == "f16":
        size = rng.randint(12, max(max_size, 20))          # sizes whose square does not fit the 8-bit integer the size is passed as
        px = rng.choice([0.125, 0.25, 0.5, 1.0, 2.0])
        r0 = float(numpy.float16(logu(rng, 0.05, 0.5)))
        L0 = float(numpy.float16(px * logu(rng, 6., 250.)))
    elif cast == "pxint32":
        px = float(rng.choice([1, 1, 2, 3]))
        L0 = float(int(px * logu(rng, 6., 250.)) + 1)
        r0 = logu(rng, 0.05, 0.5)
    else:
        r0, L0 = logu(rng, 0.05, 0.5), logu(rng, 5., 100.)
        px = L0 / logu(rng, 6., 250.)
    return (variant, size, par, px, r0, L0), cast


def fl(a):
    return " ".join(common.f2h(x) for x in numpy.asarray(a, dtype=float).ravel())


def unfl(s):
    return numpy.array([common.h2f(t) for t in s.split()])


# --------------------------------------------------------------------------------------------- correspondence
def corr_geometry(chk, sizes_full, sizes_bare):
    """coordinates / sizes: model (Nat/Int, exact) vs the real object vs the independent description"""
    from aotools.turbulence import infinitephasescreen as ips
    lines, meta = [], []
    for req in range(0, max(sizes_full + sizes_bare) + 2):
        lines.append("C04 allowed %d" % req)
        meta.append(("allowed", req))
    jobs = []
    for size in sizes_full:
        jobs.append(("vk", size, chk.rng.choice([1, 2, 3]), True))
        jobs.append(("fried", size, chk.rng.choice([1, 2, 3, 4]), True))
    for size in sizes_bare:
        jobs.append(("vk", size, chk.rng.choice([1, 2, 3]), False))
        jobs.append(("fried", size, chk.rng.choice([1, 2, 4]), False))
    got = {}
    raised = []
    for variant, size, par, full in jobs:
        obj = None
        if full:
            obj, exc = construct(variant, size, par, 0.25, 0.2, 20., chk.rng.getrandbits(32))
            chk.count("geom:constructed" if obj is not None else "geom:construction-raised")
            if obj is None and len(raised) < 3:
                raised.append(1)
                chk.broke("correspondence", "the constructor raises %s: %s for %s size=%d par=%d pixel_scale=0.25 r0=0.2 L0=20 "
                          "(well-conditioned on the model)" % (type(exc).__name__, str(exc)[:100], variant, size, par))
        if obj is None:
            # geometry methods of the real class on a bare instance (no covariance work); __init__'s size bookkeeping
            # is then covered only by the constructed cases
            cls = ips.PhaseScreenVonKarman if variant == "vk" else ips.PhaseScreenKolmogorov
            obj = cls.__new__(cls)
            obj.pixel_scale = 0.25
            if variant == "vk":
                obj.n_columns, obj.nx_size, obj.stencil_length_factor, obj.stencil_length = par, size, 1, size
            else:
                obj.nx_size = ips.find_allowed_size(size)
                obj.stencil_length_factor, obj.stencil_length = par, par * obj.nx_size
            try:
                obj.set_X_coords()
                obj.set_stencil_coords()
            except Exception as ex:
                if len(raised) < 6:
                    raised.append(1)
                    chk.broke("correspondence", "set_X_coords/set_stencil_coords raise %s: %s for %s size=%d par=%d, the model has a "
                              "well-defined in-bounds stencil" % (type(ex).__name__, str(ex)[:100], variant, size, par))
                continue
            chk.count("geom:bare")
        got[(variant, size, par)] = obj
        lines.append("C04 geom %s %d %d" % (variant, size, par))
        meta.append(("geom", variant, size, par))
    ans = common.run_driver(lines, "C04")
    from aotools.turbulence.infinitephasescreen import find_allowed_size
    for a, m in zip(ans, meta):
        chk.corr_cases += 1
        if m[0] == "allowed":
            req = m[1]
            chk.case(("allowed", req), sample={"op": "allowed", "req": req, "model": a} if req == 12 else None)
            if a == "bad-op" or int(a) != int(find_allowed_size(req)):
                chk.broke("correspondence", "find_allowed_size(%d): model %s, implementation %r" % (req, a, find_allowed_size(req)))
            continue
        _, variant, size, par = m
        obj = got[(variant, size, par)]
        chk.case(("geom", variant, size, par), sample={"op": "geom", "variant": variant, "size": size, "par": par} if size == 5 else None)
        chk.count("geom:" + variant)
        if a == "bad-op":
            chk.broke("correspondence", "model rejects geometry %s %d %d" % (variant, size, par))
            continue
        v = [int(t) for t in a.split()]
        nx, length, nz = v[:3]
        st = numpy.array(v[3:3 + 2 * nz]).reshape(-1, 2)
        xs = numpy.array(v[3 + 2 * nz:]).reshape(-1, 2)
        impl_st = numpy.asarray(obj.stencil_coords)
        impl_x = numpy.asarray(obj.X_coords)
        ok = (nx == obj.nx_size and length == obj.stencil_length and nz == obj.n_stencils
              and st.shape == impl_st.shape and (st == impl_st).all()
              and xs.shape == impl_x.shape and (xs == impl_x).all()
              and numpy.array_equal(numpy.asarray(obj.stencil_positions), impl_st * obj.pixel_scale)
              and numpy.array_equal(numpy.asarray(obj.X_positions), impl_x * obj.pixel_scale))
        if not ok:
            chk.broke("correspondence", "geometry %s size=%d par=%d: model (nx=%d,len=%d,nz=%d) differs from the implementation "
                      "(nx=%d,len=%d,nz=%d) or coordinates differ" % (variant, size, par, nx, length, nz, obj.nx_size,
                                                                     obj.stencil_length, obj.n_stencils))
        # the model also has to be the geometry the property talks about
        enx, elen, est, ex = expected_geometry(variant, size, par)
        if (nx, length) != (enx, elen) or [tuple(p) for p in st.tolist()] != est or [tuple(p) for p in xs.tolist()] != ex:
            chk.broke("correspondence", "model geometry %s size=%d par=%d is not the geometry the property describes" % (variant, size, par))


def contract_checks(chk, obj, rec, cfg):
    """the hypotheses under which the theorems speak, checked on this instance; returns dict or None (tie broken)"""
    variant, size, par, px, r0, L0 = cfg
    tag = "%s size=%d par=%d px=%r r0=%r L0=%r" % cfg
    if len(rec.get("cho_factor", [])) != 1 or len(rec.get("cho_solve", [])) != 1 or len(rec.get("svd", [])) != 1:
        chk.broke("correspondence", "the constructor no longer calls cho_factor, cho_solve and numpy.linalg.svd exactly once each "
                  "(%s): the kernel-contract model of makeAMatrix/makeBMatrix does not describe it" %
                  {k: len(v) for k, v in rec.items()})
        return None
    zz = numpy.asarray(obj.cov_mat_zz, dtype=float)
    nz = zz.shape[0]
    rhs, inv = rec["cho_solve"][0]
    M, (u, W, vt) = rec["svd"][0]
    c0 = float(zz[0, 0])
    cond = float(numpy.linalg.cond(zz))
    tol_self = 1e-14 * max(nz, 2) * cond
    bad = []
    if not numpy.array_equal(rec["cho_factor"][0], zz):
        bad.append("cho_factor is not applied to cov_mat_zz")
    if rhs.shape != (nz, nz) or not numpy.array_equal(rhs, numpy.identity(nz)):
        bad.append("cho_solve right-hand side is not the identity")
    if inv.shape == (nz, nz):
        res = float(numpy.abs(zz @ inv - numpy.identity(nz)).max())
        if not res <= tol_self:
            bad.append("Cholesky-solve contract Szz*inv = I violated: residual %.3g > %.3g" % (res, tol_self))
    else:
        bad.append("cho_solve output shape %s" % (inv.shape,))
    nx = obj.nx_size
    if M.shape == (nx, nx) and u.shape == (nx, nx) and vt.shape == (nx, nx) and W.shape == (nx,):
        sc = max(float(numpy.abs(M).max()), 1e-300)
        r1 = float(numpy.abs((u * W) @ vt - M).max()) / sc
        r2 = float(numpy.abs(u.T @ u - numpy.identity(nx)).max())
        r3 = float(numpy.abs(vt @ vt.T - numpy.identity(nx)).max())
        tk = 1e-13 * max(nx, 10)          # backward error of LAPACK's SVD grows like n·eps·|M|₂ ≤ n²·eps·max|M|
        if not (r1 <= tk and r2 <= tk and r3 <= tk and (W >= 0).all()):
            bad.append("SVD contract violated: |u diag(w) vt - M|/|M|=%.3g |u'u-I|=%.3g |vt vt'-I|=%.3g min w=%.3g"
                       % (r1, r2, r3, float(W.min())))
        asym = float(numpy.abs(M - M.T).max())
        lam = float(numpy.linalg.eigvalsh((M + M.T) / 2).min())
        if not (asym <= tol_self * c0 * 40 and lam >= -tol_self * c0 * 40):
            bad.append("hypothesis of B_eq (Schur complement symmetric PSD) fails numerically: asym=%.3g min eig=%.3g" % (asym, lam))
    else:
        bad.append("svd shapes %s %s %s %s" % (M.shape, u.shape, W.shape, vt.shape))
    for b in bad[:2]:
        chk.broke("correspondence", "kernel contract / glue [%s]: %s" % (tag, b))
    return {"inv": inv, "M": M, "u": u, "W": W, "vt": vt, "cond": cond, "c0": c0, "tol_self": tol_self}


def corr_instance(chk, cfg, quick):
    """one constructed configuration: covariance matrix, A, BBt, B and a synthesised row — model at Float vs real code"""
    variant, size, par, px, r0, L0 = cfg
    _, _, cond_ref = reference_sigma(*cfg)
    if not cond_ref <= MAX_COND:
        chk.count("corr:ill-conditioned-skipped")
        return
    obj, rec = construct(variant, size, par, px, r0, L0, chk.rng.getrandbits(32))
    if obj is None:
        chk.broke("correspondence", "the constructor raises %s: %s for the well-conditioned configuration %r (cond Szz = %.3g)"
                  % (type(rec).__name__, rec, cfg, cond_ref))
        return
    cond = float(numpy.linalg.cond(obj.cov_mat_zz))
    k = contract_checks(chk, obj, rec, cfg)
    if k is None:
        return
    tag = "%s size=%d par=%d px=%r r0=%r L0=%r" % cfg
    nz, nx, length = obj.n_stencils, obj.nx_size, obj.stencil_length
    chk.count("corr:" + variant)
    chk.count("corr:nx=%d" % nx)
    xz, xx, zx = (numpy.asarray(a, dtype=float) for a in (obj.cov_mat_xz, obj.cov_mat_xx, obj.cov_mat_zx))
    A, B = numpy.asarray(obj.A_mat, dtype=float), numpy.asarray(obj.B_mat, dtype=float)
    nprng = numpy.random.default_rng(chk.rng.getrandbits(32))
    scrn = nprng.normal(0, 3, size=(length, nx)) + nprng.normal(0, 20)
    state = copy.deepcopy(obj._R.bit_generator.state)
    b = clone_generator(obj._R).standard_normal(nx)
    scr_before = numpy.array(scrn, copy=True)
    row, _, _ = real_row(obj, scrn, state)
    lines = [
        "C04 covmat %s %d %d %s %s %s" % (variant, size, par, common.f2h(px), common.f2h(r0), common.f2h(L0)),
        "C04 amat %d %d %s %s" % (nz, nx, fl(xz), fl(k["inv"])),
        "C04 bbt %d %d %s %s %s" % (nz, nx, fl(xx), fl(A), fl(zx)),
        "C04 bmat %d %s %s" % (nx, fl(k["u"]), fl(k["W"])),
        "C04 row %s %d %d %s %s %s %s" % (variant, size, par, fl(A), fl(B), fl(scr_before), fl(b)),
    ]
    ans = common.run_driver(lines, "C04")
    chk.corr_cases += len(lines)
    chk.case(("corr", tag), sample={"op": "covmat/amat/bbt/bmat/row", "cfg": tag, "nz": nz, "nx": nx, "cond": cond})
    if any(a == "bad-op" for a in ans):
        chk.broke("correspondence", "model rejects an operation for %s: %s" % (tag, [l.split()[1] for l, a in zip(lines, ans) if a == "bad-op"]))
        return
    # covariance matrix (whole pipeline: coordinates → positions → separations → covariance → blocks), all binary64
    t = ans[0].split(None, 1)
    n = int(t[0])
    S = unfl(t[1]).reshape(n, n) if n == nz + nx else None
    c0 = k["c0"]
    impl_S = numpy.asarray(obj.cov_mat, dtype=float)
    if S is None or impl_S.shape != S.shape or not float(numpy.abs(S - impl_S).max()) <= TOL_COV_MODEL * c0:
        d = float("nan") if S is None or impl_S.shape != S.shape else float(numpy.abs(S - impl_S).max())
        chk.broke("correspondence", "covariance matrix of the model differs from cov_mat for %s: max |Δ| = %.3g > %.3g"
                  % (tag, d, TOL_COV_MODEL * c0))
    else:
        blocks_ok = (numpy.array_equal(obj.cov_mat_zz, impl_S[:nz, :nz]) and numpy.array_equal(obj.cov_mat_xx, impl_S[nz:, nz:])
                     and numpy.array_equal(obj.cov_mat_zx, impl_S[:nz, nz:]) and numpy.array_equal(obj.cov_mat_xz, impl_S[nz:, :nz]))
        if not blocks_ok:
            chk.broke("correspondence", "cov_mat_zz/xx/zx/xz are not the blocks [:nz,:nz] [nz:,nz:] [:nz,nz:] [nz:,:nz] of cov_mat for " + tag)

    def cmp(name, a, impl, scale):
        got = unfl(a)
        if got.size != impl.size:
            chk.broke("correspondence", "%s: model size %d vs implementation %d for %s" % (name, got.size, impl.size, tag))
            return
        err = numpy.abs(got.reshape(impl.shape) - impl)
        if not (err <= 1e-11 * scale + 1e-300).all():
            chk.broke("correspondence", "%s of the model differs from the implementation for %s: max |Δ| = %.3g (allowed 1e-11·%.3g)"
                      % (name, tag, float(err.max()), float(numpy.max(scale))))
    cmp("A = cov_xz·inv", ans[1], A, numpy.abs(xz) @ numpy.abs(k["inv"]))
    cmp("BBt = cov_xx − A·cov_zx", ans[2], k["M"], numpy.abs(xx) + numpy.abs(A) @ numpy.abs(zx))
    cmp("B = u·diag(sqrt w)", ans[3], B, numpy.abs(k["u"]) @ numpy.diag(numpy.sqrt(k["W"])))
    Z = scr_before[obj.stencil_coords[:, 0], obj.stencil_coords[:, 1]]
    ref = abs(float(scr_before[1, 1])) if variant == "fried" else 0.0
    cmp("new row", ans[4], row, numpy.abs(A) @ (numpy.abs(Z) + ref) + numpy.abs(B) @ numpy.abs(b) + ref)


# --------------------------------------------------------------------------------------------- oracle
N_INNOV = 256           # rows per configuration for the innovation statistics
# sample second moments of the reconstructed innovations b̂ = B⁺(row − A·Z) over N_INNOV rows, relative to their expectation p:
# diagonal within [0.45, 1.75]·p (Wilson–Hilferty: −7.9σ / +7.0σ for χ²₂₅₆), off-diagonal |m − p| ≤ 0.5 (8σ), |mean| ≤ 0.44 (7σ);
# observed on the repaired tree over 12 seeds: diagonal 0.70 … 1.36, off-diagonal ≤ 0.33, mean ≤ 0.29
INNOV_LO, INNOV_HI, INNOV_OFF, INNOV_MEAN = 0.45, 1.75, 0.5, 0.44


def row_residual(variant, A, st, before, row):
    """row − (the part of the new row the property attributes to the old screen): B·b if the row is affine as stated"""
    Z = before[st[:, 0], st[:, 1]]
    if variant == "vk":
        return row - A @ Z
    ref = before[1, 1]
    return row - A @ (Z - ref) - ref


def innovation_statistics(obj, variant, A, B, st, nprng, n_rows=N_INNOV):
    """the innovation vectors the object actually uses, reconstructed from rows it generates: b̂_t = B⁺(row_t − A·Z_t) for
    n_rows successive add_row() on fresh arbitrary screen contents (its own generator, wherever it stands).  For i.i.d. unit
    normals b, b̂ = P b with P the projector on the row space of B (P = I when B is regular).
    Returns (max deviation record, None) or (None, reason)"""
    length, nx = obj._scrn.shape
    u, sv, vt = numpy.linalg.svd(B)
    keep = sv > max(float(sv.max()) * 1e-7, 1e-10)
    if not keep.any():
        return None, "B_mat has no usable singular value"
    res = numpy.empty((n_rows, nx))
    for t in range(n_rows):
        before = nprng.normal(0, 1, size=(length, nx))
        obj._scrn = numpy.array(before, copy=True)
        obj.add_row()
        res[t] = row_residual(variant, A, st, before, numpy.asarray(obj._scrn[0], dtype=float))
    bhat = ((res @ u[:, keep]) / sv[keep]) @ vt[keep]
    P = vt[keep].T @ vt[keep]
    M = bhat.T @ bhat / n_rows
    return {"bhat": bhat, "P": P, "M": M, "rank": int(keep.sum()), "mean": bhat.mean(0)}, None


def oracle_instance(chk, cfg, it, cast=None, stats=True, how=None):
    """the property evaluated directly on the real code for one configuration in the stated domain"""
    variant, size, par, px, r0, L0 = cfg
    seed = chk.rng.getrandbits(32)
    # the domain is decided independently of the library: Szz of the geometry the property describes is well-conditioned
    _, _, cond_ref = reference_sigma(*cfg)
    if not cond_ref <= MAX_COND:
        chk.count("oracle:ill-conditioned-skipped")
        return None
    replay = {"variant": variant, "size": size, "par": par, "pixel_scale": px, "r0": r0, "L0": L0, "seed": seed}
    if cast:
        replay["cast"] = cast
    if how:
        replay["how"] = dict(how)
    ta = typed_args(size, px, r0, L0, cast)
    tag = "%s(%s, %s, %s, %s, %s=%d)" % (
        "PhaseScreenVonKarman" if variant == "vk" else "PhaseScreenKolmogorov", repr(ta[0]), repr(ta[1]), repr(ta[2]), repr(ta[3]),
        "n_columns" if variant == "vk" else "stencil_length_factor", par)
    if how:
        tag += " [%s]" % ", ".join("%s=%s" % kv for kv in sorted(how.items()))
        for kv in sorted(how.items()):
            chk.count("oracle:how:%s=%s" % kv)

    def bad(key, what, **extra):
        chk.fail(key, what, dict(replay, **extra))

    chk.oracle_cases += 1
    chk.count("oracle:" + variant)
    chk.count("oracle:args:" + (cast or "float"))
    chk.count("oracle:L0/px<=250" if L0 / px <= 250 else "oracle:L0/px>250")
    chk.count("oracle:cond<=1e6" if cond_ref <= 1e6 else "oracle:cond>1e6")
    chk.case(("oracle", tag), sample=dict(replay) if it < 2 else None)
    obj, rec = construct(variant, size, par, px, r0, L0, seed, cast, how)
    if obj is not None and not isinstance(getattr(obj, "_R", None), numpy.random.Generator):
        chk.broke("correspondence", "%s keeps no numpy Generator in _R: the harness cannot follow its random stream" % tag)
        return None
    if obj is None:
        bad("construct:%s:%s" % (variant, type(rec).__name__),
            "%s raises %s: %s although Cov(Z,Z) at the true separations is well-conditioned (cond = %.3g): the A, B of the property "
            "do not exist for this configuration" % (tag, type(rec).__name__, str(rec)[:120], cond_ref))
        return None
    zz = numpy.asarray(obj.cov_mat_zz, dtype=float)
    cond = float(numpy.linalg.cond(zz)) if zz.ndim == 2 and zz.shape[0] == zz.shape[1] and numpy.isfinite(zz).all() else float("inf")

    # --- geometry: sizes, bounds, the stencil the property describes
    from aotools.turbulence.infinitephasescreen import find_allowed_size
    nx, length = int(obj.nx_size), int(obj.stencil_length)
    st = numpy.asarray(obj.stencil_coords)
    xc = numpy.asarray(obj.X_coords)
    enx, elen, est, ex = expected_geometry(variant, size, par)
    if variant == "fried":
        a = int(find_allowed_size(size))
        n = max(a - 1, 1).bit_length() - 1
        if not (a >= size and a - 1 == 2 ** n and (n == 0 or 2 ** (n - 1) + 1 < size)):
            bad("geometry:allowed-size", "find_allowed_size(%d) = %d is not the smallest 2^n+1 ≥ %d" % (size, a, size))
        if nx != a or length != par * a:
            bad("geometry:fried-size", "%s: nx_size=%d stencil_length=%d, expected %d and %d" % (tag, nx, length, a, par * a))
        if not (0 <= obj.reference_coord[0] < length and 0 <= obj.reference_coord[1] < nx):
            bad("geometry:reference", "%s: reference_coord %r outside the %dx%d screen" % (tag, obj.reference_coord, length, nx))
    if obj._scrn.shape != (length, nx):
        bad("geometry:screen-shape", "%s: internal screen %s, expected (%d, %d)" % (tag, obj._scrn.shape, length, nx))
    if st.ndim != 2 or st.shape[1] != 2 or not ((st[:, 0] >= 0) & (st[:, 0] < length) & (st[:, 1] >= 0) & (st[:, 1] < nx)).all():
        bad("geometry:stencil-bounds:" + variant, "%s: stencil coordinates leave the %dx%d screen" % (tag, length, nx))
        return None
    if [tuple(p) for p in st.tolist()] != est:
        bad("geometry:stencil:" + variant, "%s: stencil_coords are not the %s stencil (%d points, expected %d)"
            % (tag, "first-n_columns-rows" if variant == "vk" else "Fried", len(st), len(est)))
    if xc.shape != (nx, 2) or [tuple(int(v) for v in p) for p in xc.tolist()] != ex or not (xc == numpy.round(xc)).all():
        bad("geometry:X:" + variant, "%s: X_coords are not row -1, columns 0..nx-1" % tag)
        return None
    nz = len(st)
    A, B = numpy.asarray(obj.A_mat, dtype=float), numpy.asarray(obj.B_mat, dtype=float)
    if A.shape != (nx, nz) or B.shape != (nx, nx):
        bad("shape:AB:" + variant, "%s: A_mat %s, B_mat %s, expected (%d,%d), (%d,%d)" % (tag, A.shape, B.shape, nx, nz, nx, nx))
        return None
    if not (numpy.isfinite(A).all() and numpy.isfinite(B).all()):
        bad("finite:AB:" + variant, "%s: A_mat / B_mat contain non-finite values (%d / %d entries)"
            % (tag, int((~numpy.isfinite(A)).sum()), int((~numpy.isfinite(B)).sum())))
        return None

    # --- the two identities against an independently computed covariance at the TRUE pixel separations:
    # stencil pixels where the object reads them, the new row at row −1 (it is inserted above row 0)
    pos = numpy.vstack([st.astype(float), numpy.array([(-1., j) for j in range(nx)])])
    d = pos[:, None, :] - pos[None, :, :]
    S = c_true(px * numpy.sqrt((d ** 2).sum(-1)), r0, L0)
    c0 = float(S[0, 0])
    Szz, Sxx, Sxz = S[:nz, :nz], S[nz:, nz:], S[nz:, :nz]
    ainf = float(numpy.abs(A).sum(1).max())
    tol = (ID_FLOOR + ID_COND * cond_ref) * c0 * (1 + min(ainf, 10.)) ** 2
    lam = float(numpy.linalg.eigvalsh(S).min())
    chk.count("oracle:H2-min-eig>=-1e-9C0" if lam >= -1e-9 * c0 else "oracle:H2-numerically-negative")
    dS = float(numpy.abs(numpy.asarray(obj.cov_mat, dtype=float) - S).max()) if numpy.shape(obj.cov_mat) == S.shape else float("inf")
    if not dS <= TOL_COV * c0:
        bad("sigma:" + variant, "%s: cov_mat is not the von Kármán covariance at the true pixel separations: max |Δ| = %.3g "
            "(C(0) = %.3g, allowed %.3g)" % (tag, dS, c0, TOL_COV * c0), max_abs_err=dS)
    e1 = float(numpy.abs(A @ Szz - Sxz).max())
    if not e1 <= tol:
        bad("identity1:" + variant, "%s: max |A·Cov(Z,Z) − Cov(X,Z)| = %.3g > %.3g (C(0) = %.3g)" % (tag, e1, tol, c0), err=e1, tol=tol)
    e2 = float(numpy.abs(A @ Szz @ A.T + B @ B.T - Sxx).max())
    if not e2 <= tol:
        bad("identity2:" + variant, "%s: max |A·Cov(Z,Z)·Aᵀ + B·Bᵀ − Cov(X,X)| = %.3g > %.3g (C(0) = %.3g)" % (tag, e2, tol, c0),
            err=e2, tol=tol)
    chk.margins["sigma"] = max(chk.margins.get("sigma", 0.0), dS / (TOL_COV * c0))
    chk.margins["identity1"] = max(chk.margins.get("identity1", 0.0), e1 / tol)
    chk.margins["identity2"] = max(chk.margins.get("identity2", 0.0), e2 / tol)
    # tight cross-check against the object's own blocks (rounding only: eps·cond)
    tol_self = 1e-14 * max(nz, 2) * cond * c0 * (1 + min(ainf, 10.)) ** 2
    s1 = float(numpy.abs(A @ zz - obj.cov_mat_xz).max())
    s2 = float(numpy.abs(A @ zz @ A.T + B @ B.T - obj.cov_mat_xx).max())
    if not s1 <= tol_self:
        bad("identity1-own-blocks:" + variant, "%s: max |A_mat·cov_mat_zz − cov_mat_xz| = %.3g > %.3g" % (tag, s1, tol_self), err=s1)
    if not s2 <= tol_self:
        bad("identity2-own-blocks:" + variant, "%s: max |A·cov_zz·Aᵀ + B·Bᵀ − cov_xx| = %.3g > %.3g" % (tag, s2, tol_self), err=s2)

    # --- the row is an affine function of the stencil values: for one and the same generator state, two arbitrary screen
    # contents give rows that differ by exactly A·ΔZ (Fried: relative to the reference pixel).  Nothing is assumed here about
    # how the innovation is drawn.
    nprng = numpy.random.default_rng(chk.rng.getrandbits(32))
    scrn = numpy.round(nprng.normal(0, 3, size=(length, nx)) * 64) / 64 + float(nprng.integers(-40, 40))
    scrn2 = numpy.round(nprng.normal(0, 5, size=(length, nx)) * 64) / 64 + float(nprng.integers(-40, 40))
    state = copy.deepcopy(obj._R.bit_generator.state)
    g2 = clone_generator(obj._R)
    b = g2.standard_normal(nx)
    row, st_after, out = real_row(obj, scrn, state)
    if obj._scrn.shape != (length, nx) or not numpy.array_equal(obj._scrn[1:], scrn[:-1]):
        bad("old-phase:" + variant, "%s: add_row() does not keep the existing phase (rows 0…len-2 of the old screen must become rows "
            "1…len-1 unchanged; the identities are about the joint statistics of OLD and new phase)" % tag, screen=scrn.tolist())
    row2, _, _ = real_row(obj, scrn2, state)
    Z, Z2 = scrn[st[:, 0], st[:, 1]], scrn2[st[:, 0], st[:, 1]]
    if variant == "vk":
        want_d = A @ (Z - Z2)
        scale = numpy.abs(A) @ (numpy.abs(Z) + numpy.abs(Z2)) + numpy.abs(B) @ numpy.abs(b)
        want = A @ Z + B @ b
    else:
        ref, ref2 = scrn[1, 1], scrn2[1, 1]
        want_d = A @ ((Z - ref) - (Z2 - ref2)) + (ref - ref2)
        scale = numpy.abs(A) @ (numpy.abs(Z) + numpy.abs(Z2) + abs(ref) + abs(ref2)) + numpy.abs(B) @ numpy.abs(b) + abs(ref) + abs(ref2)
        want = A @ (Z - ref) + B @ b + ref
    if row.shape != (nx,) or row2.shape != (nx,) or not (numpy.abs((row - row2) - want_d) <= 1e-11 * scale + 1e-300).all():
        bad("affine:" + variant, "%s: for the same generator state the rows generated from two screen contents do not differ by "
            "A_mat·(Z − Z') %s(max |Δ| = %.3g): the row is not A·Z + B·b with b independent of the screen"
            % (tag, "relative to the reference pixel " if variant == "fried" else "",
               float(numpy.abs((row - row2) - want_d).max()) if row.shape == row2.shape == (nx,) else float("nan")),
            screen=scrn.tolist(), screen2=scrn2.tolist())
    # how the innovation is drawn (the model: the next nx_size normals of the injected Generator) is a correspondence matter
    if row.shape == (nx,) and not ((numpy.abs(row - want) <= 1e-11 * scale + 1e-300).all() and st_after == g2.bit_generator.state):
        chk.broke("correspondence", "%s: the row is not A_mat·Z + B_mat·b with b = the next nx_size normals of the injected "
                  "Generator, or the Generator is not exactly nx_size normals further afterwards (the model's stream "
                  "bookkeeping does not describe this code; the property-level innovation test decides about the law)" % tag)
    req = min(size, nx)
    if out.shape != (min(req, length), req) or not numpy.array_equal(out[0], row[:req]):
        bad("observe:" + variant, "%s: .scrn after add_row() does not show the new row in its first row (shape %s)" % (tag, out.shape))
    row_again, _, _ = real_row(obj, scrn, state)
    if not numpy.array_equal(row_again, row):
        bad("repeatable:" + variant, "%s: same screen content and same generator state give a different row the second time "
            "(state leaks between calls)" % tag)

    # --- the old phase stays what it was along a HISTORY (the identities are about the joint statistics of old and new phase: a
    # row that is lost or overwritten some steps later breaks them as surely as a wrong A): more rows than the screen is long, so
    # that any internal buffer wraps around at least twice; the stencil the next row is computed from is taken from the harness's
    # own record of the rows returned so far
    if length <= 140:          # Round 5: was 24 — the 128-row von Kármán test configuration and Fried screens up to 33 x 4 included
        obj._scrn = scrn.copy()
        shadow = scrn.copy()
        for step in range(2 * length + 3):
            st_before = copy.deepcopy(obj._R.bit_generator.state)
            gb = clone_generator(obj._R)
            bb = gb.standard_normal(nx)
            obj.add_row()
            now = numpy.array(obj._scrn, dtype=float, copy=True)
            Zs = shadow[st[:, 0], st[:, 1]]
            wrow = A @ Zs + B @ bb if variant == "vk" else A @ (Zs - shadow[1, 1]) + B @ bb + shadow[1, 1]
            sc_ = numpy.abs(A) @ numpy.abs(Zs) + numpy.abs(B) @ numpy.abs(bb) + abs(shadow[1, 1] if variant == "fried" else 0.0) * (1 + numpy.abs(A).sum(1))
            if now.shape != (length, nx) or not numpy.array_equal(now[1:], shadow[:-1]):
                bad("old-phase:history:" + variant, "%s: after %d consecutive add_row() calls the rows generated earlier are no longer all "
                    "there unchanged, one row further down (first difference in row %s of the working array)"
                    % (tag, step + 1, (int(numpy.argwhere((now[1:] != shadow[:-1]).any(1))[0][0]) + 1) if now.shape == (length, nx) else "?"),
                    screen=scrn.tolist(), steps=step + 1)
                break
            if obj._R.bit_generator.state == gb.bit_generator.state and not (numpy.abs(now[0] - wrow) <= 1e-10 * sc_ + 1e-300).all():
                bad("row:history:" + variant, "%s: the row generated by the %d-th consecutive add_row() is not A·Z + B·b of the rows "
                    "generated before it (max |Δ| = %.3g)" % (tag, step + 1, float(numpy.abs(now[0] - wrow).max())),
                    screen=scrn.tolist(), steps=step + 1)
                break
            shadow = now
        chk.count("oracle:history:%s:%d-rows" % (variant, 2 * length + 3))

    # --- "for all innovation vectors": the row is affine in b also for vectors no short seeded run delivers (components of 6, 10,
    # 40 standard deviations, a single huge component, the zero vector).  The innovation is injected by putting a generator in
    # the object's place that hands out a prescribed stream; the row for b and for b' must differ by B·(b − b').
    try:

        class _Stream(numpy.random.Generator):
            def __init__(self, vals):
                super().__init__(numpy.random.PCG64(0))
                self.vals, self.pos = numpy.asarray(vals, dtype=float), 0

            def _take(self, size):
                n = int(numpy.prod(size)) if size is not None else 1
                out = numpy.zeros(n)
                a = self.vals[self.pos:self.pos + n]
                out[:a.size] = a
                self.pos += n
                return out.reshape(size) if size is not None else float(out[0])

            def normal(self, loc=0.0, scale=1.0, size=None):
                return loc + scale * self._take(size)

            def standard_normal(self, size=None, dtype=numpy.float64, out=None):
                return self._take(size)
        keepR = obj._R
        big = [numpy.zeros(nx), nprng.normal(size=nx) * 6.0, nprng.normal(size=nx) * 40.0,
               numpy.eye(nx)[nprng.integers(nx)] * (-10.0), numpy.full(nx, 7.5)]
        rows_b = []
        for bvec in big:
            obj._scrn = numpy.array(scrn, dtype=float, copy=True)
            obj._R = _Stream(numpy.concatenate([bvec, numpy.zeros(4 * nx)]))
            obj.add_row()
            rows_b.append((numpy.array(obj._scrn[0], dtype=float, copy=True), obj._R.pos))
        obj._R = keepR
        if all(pos == nx for _, pos in rows_b):         # the stream bookkeeping of the model holds: one block of nx draws per row
            base_row = rows_b[0][0]
            for bvec, (rw, _) in zip(big[1:], rows_b[1:]):
                errb = float(numpy.abs((rw - base_row) - B @ bvec).max())
                scb = float((numpy.abs(B) @ numpy.abs(bvec)).max()) + float(numpy.abs(base_row).max()) + 1e-300
                if not errb <= 1e-11 * scb:
                    bad("affine:innovation:" + variant, "%s: with the innovation vector b injected (largest |component| %.3g) the new row is not "
                        "row(b = 0) + B_mat·b: max |Δ| = %.3g (scale %.3g) — the row is not affine in b for all innovation vectors"
                        % (tag, float(numpy.abs(bvec).max()), errb, scb), screen=scrn.tolist(), b=bvec.tolist())
                    break
            chk.count("oracle:innovation-injected:" + variant)
        else:
            chk.count("oracle:innovation-injected:stream-layout-differs")      # HOW b is drawn is a correspondence matter (reported above)
    except AttributeError:
        chk.count("oracle:innovation-injected:no-_R")

    # --- Fried variant: adding a constant to the whole screen adds exactly that constant to the new row
    if variant == "fried":
        for c in (float(nprng.integers(1, 200)) / 8, -float(nprng.integers(1, 2000)) / 4):
            row_c, _, _ = real_row(obj, scrn + c, state)
            tol_c = 1e-13 * (numpy.abs(row).max() + abs(c) + numpy.abs(scrn).max())
            if not (numpy.abs(row_c - (row + c)) <= tol_c).all():
                bad("shift:fried", "%s: screen + %r changes the new row by %r … %r instead of %r" %
                    (tag, c, float((row_c - row).min()), float((row_c - row).max()), c), c=c, screen=scrn.tolist())
                break

    # --- b is a UNIT-NORMAL vector with nx_size independent entries: reconstruct the innovations actually used from rows
    if stats:
        obj._R.bit_generator.state = copy.deepcopy(state)
        rs, why = innovation_statistics(obj, variant, A, B, st, nprng)
        if rs is None:
            bad("innovation:" + variant, "%s: %s" % (tag, why))
        else:
            P, M = rs["P"], rs["M"]
            p = numpy.diag(P)
            sel = p >= 0.2
            dg = numpy.diag(M)
            off = numpy.abs(M - P) - numpy.diag(numpy.abs(dg - p))
            mean = numpy.abs(rs["mean"]) / numpy.sqrt(numpy.maximum(p, 1e-300))
            lowest = float((dg[sel] / p[sel]).min()) if sel.any() else 1.0
            highest = float((dg[sel] / p[sel]).max()) if sel.any() else 1.0
            chk.margins["innov:diag-min"] = min(chk.margins.get("innov:diag-min", 9.9), lowest)
            chk.margins["innov:diag-max"] = max(chk.margins.get("innov:diag-max", 0.0), highest)
            chk.margins["innov:offdiag"] = max(chk.margins.get("innov:offdiag", 0.0), float(off.max()))
            chk.margins["innov:mean"] = max(chk.margins.get("innov:mean", 0.0), float(mean[sel].max()) if sel.any() else 0.0)
            chk.count("oracle:innovation:B-regular" if rs["rank"] == nx else "oracle:innovation:B-rank-deficient")
            if not (lowest >= INNOV_LO and highest <= INNOV_HI and float(off.max()) <= INNOV_OFF
                    and (not sel.any() or float(mean[sel].max()) <= INNOV_MEAN)):
                j = int(numpy.argmin(numpy.where(sel, dg / numpy.maximum(p, 1e-300), 9.9)))
                bad("innovation:" + variant, "%s: the innovation vector b = B_mat⁺(row − A_mat·Z) reconstructed from %d generated rows is "
                    "not a vector of nx_size = %d independent unit normals: sample variance of its entries relative to the "
                    "expectation %.3f … %.3f (entry %d lowest; allowed %.2f … %.2f), largest off-diagonal second moment "
                    "error %.3f (allowed %.2f), largest |mean| %.3f (allowed %.2f)"
                    % (tag, N_INNOV, nx, lowest, highest, j, INNOV_LO, INNOV_HI, float(off.max()), INNOV_OFF,
                       float(mean[sel].max()) if sel.any() else 0.0, INNOV_MEAN), entry=j)
    return obj


def matrices_snapshot(obj):
    return {k: numpy.array(getattr(obj, k), copy=True) for k in ("A_mat", "B_mat", "cov_mat", "stencil_coords", "X_coords")}


def oracle_conditional(chk, quick):
    """B carries the WHOLE conditional covariance: B·Bᵀ = Cov(X,X) − Cov(X,Z)·Cov(Z,Z)⁻¹·Cov(Z,X), measured against the size of that
    conditional covariance (the innovation power), not against the much larger phase variance C(0) — on finely sampled screens
    (pixel ≪ L0) the innovation is 1e-6 of the phase variance and an error of that size passes every identity stated relative to
    C(0) while removing a fifth of the innovation.  Both sides are computed in binary64; `bound` = eps·cond(Σzz)·C(0)/‖S_cond‖ is
    what that computation can resolve (observed on the repaired tree: element mismatch ≤ 0.12·bound, power mismatch ≤ 0.05·bound
    for L0/pixel from 200 to 1e5); the clause is evaluated where bound ≤ 0.2."""
    fixed = [("vk", 16, 2, 0.1, 0.2, 20.), ("fried", 17, 2, 0.05, 0.15, 25.), ("vk", 16, 2, 0.002, 0.1, 40.),
             ("fried", 17, 2, 0.002, 0.12, 50.), ("vk", 8, 2, 0.001, 0.1, 50.), ("vk", 12, 2, 0.05, 0.2, 400.),
             ("vk", 8, 1, 0.0005, 0.1, 50.)] + ([] if quick else [("vk", 24, 3, 0.001, 0.15, 25.), ("fried", 20, 1, 0.001, 0.2, 30.)])
    rng = chk.rng
    for k in range(4 if quick else 30):
        variant = rng.choice(["vk", "fried"])
        fixed.append((variant, rng.randint(4, 12), rng.randint(1, 3) if variant == "vk" else rng.randint(1, 2),
                      logu(rng, 0.0005, 0.2), logu(rng, 0.05, 0.5), logu(rng, 10., 100.)))
    for variant, size, par, px, r0, L0 in fixed:
        tag = "%s(%d, %r, %r, %r, %s=%d)" % ("PhaseScreenVonKarman" if variant == "vk" else "PhaseScreenKolmogorov", size, px, r0, L0,
                                           "n_columns" if variant == "vk" else "stencil_length_factor", par)
        obj, rec = construct(variant, size, par, px, r0, L0, 7)
        chk.oracle_cases += 1
        chk.case(("oracle-conditional", tag))
        if obj is None:
            chk.count("oracle:conditional:construction-raises")
            continue
        st = numpy.asarray(obj.stencil_coords)
        nx, nz = int(obj.nx_size), len(st)
        pos = numpy.vstack([st.astype(float), numpy.array([(-1., j) for j in range(nx)])])
        d = pos[:, None, :] - pos[None, :, :]
        S = c_true(px * numpy.sqrt((d ** 2).sum(-1)), r0, L0)
        Szz, Sxx, Sxz = S[:nz, :nz], S[nz:, nz:], S[nz:, :nz]
        c0 = float(S[0, 0])
        cond = float(numpy.linalg.cond(Szz))
        Sc = Sxx - Sxz @ numpy.linalg.solve(Szz, Sxz.T)
        nrm = float(numpy.abs(Sc).max())
        bound = 2.2e-16 * cond * c0 / nrm
        if not (numpy.isfinite(bound) and bound <= 0.2):
            chk.count("oracle:conditional:not-resolvable-in-binary64")
            continue
        B = numpy.asarray(obj.B_mat, dtype=float)
        BBt = B @ B.T
        el = float(numpy.abs(BBt - Sc).max()) / nrm
        pw = abs(float(numpy.trace(BBt)) / float(numpy.trace(Sc)) - 1)
        chk.count("oracle:conditional:L0/px<=1e4" if L0 / px <= 1e4 else "oracle:conditional:L0/px>1e4")
        chk.margins["conditional:element/bound"] = max(chk.margins.get("conditional:element/bound", 0.0), el / max(bound, 1e-12))
        chk.margins["conditional:power/bound"] = max(chk.margins.get("conditional:power/bound", 0.0), pw / max(bound, 1e-12))
        if not (el <= max(1e-9, 1.0 * bound) and pw <= max(1e-9, 0.5 * bound)):
            chk.fail("identity2:conditional:" + variant, "%s: B·Bᵀ is not the conditional covariance Cov(X,X) − Cov(X,Z)Cov(Z,Z)⁻¹Cov(Z,X) of the new "
                     "row: largest element mismatch %.3g and innovation power tr(B·Bᵀ)/tr(S_cond) − 1 = %+.3g, both relative to the "
                     "conditional covariance (resolvable in binary64 to %.2g; L0/pixel = %.3g, ‖S_cond‖ = %.2g·C(0))"
                     % (tag, el, float(numpy.trace(BBt)) / float(numpy.trace(Sc)) - 1, bound, L0 / px, nrm / c0),
                     {"variant": variant, "size": size, "par": par, "px": px, "r0": r0, "L0": L0, "kind": "conditional"})


def oracle_seed_ensemble(chk, quick):
    """b is independent of the old phase Z — over an ENSEMBLE of integer seeds (the way callers seed screens): for each seed a fresh
    screen and size+1 add_row steps; at each step the innovation actually used b̂ = B⁺(row − A·Z) (Fried: relative to the reference
    pixel) and the correlation of every component of b̂ with every pixel of the screen as it was before that step, across the ensemble.  If the numbers that shaped the initial
    screen come back as innovations (one seed used for two generators, a generator rewound …) Cov(X,Z) = A·Σzz + B·Cov(b,Z) is no
    longer the theoretical one and the joint statistics do not stay stationary.  Under independence a sample correlation over n
    seeds is ≈ N(0, 1/n): the threshold is 6.5/√n on the largest of the ~1500 correlations (probability of a false alarm < 2e-7 per
    run; the draw of seeds is fixed by VERIF_SEED, so a run is repeatable)."""
    from aotools.turbulence import infinitephasescreen as ips
    n = 400 if quick else 1500
    for variant, size, par, px, r0, L0 in (("vk", 6, 2, 0.2, 0.2, 20.), ("fried", 5, 1, 0.25, 0.15, 30.)):
        base = chk.rng.randrange(1, 2 ** 30)
        bs, zs = [], []
        tag = "%s(%d, %r, %r, %r, %s=%d, random_seed=<int>)" % ("PhaseScreenVonKarman" if variant == "vk" else "PhaseScreenKolmogorov", size, px,
                                                               r0, L0, "n_columns" if variant == "vk" else "stencil_length_factor", par)
        chk.oracle_cases += 1
        chk.case(("oracle-seed-ensemble", tag, n))
        steps = size + 1            # the draws that shaped the low frequencies of the initial screen come back after about size/2 rows
        bs, zs = [[] for _ in range(steps)], [[] for _ in range(steps)]
        for k in range(n):
            seed = base + 7919 * k
            if variant == "vk":
                obj = ips.PhaseScreenVonKarman(size, px, r0, L0, random_seed=seed, n_columns=par)
            else:
                obj = ips.PhaseScreenKolmogorov(size, px, r0, L0, random_seed=seed, stencil_length_factor=par)
            st = numpy.asarray(obj.stencil_coords)
            A, B = numpy.asarray(obj.A_mat, dtype=float), numpy.asarray(obj.B_mat, dtype=float)
            Bp = numpy.linalg.pinv(B)
            for step in range(steps):
                old = numpy.array(obj._scrn, dtype=float, copy=True)
                Z = old[st[:, 0], st[:, 1]]
                obj.add_row()
                row = numpy.array(obj._scrn[0], dtype=float, copy=True)
                ref = old[1, 1] if variant == "fried" else 0.0
                bs[step].append(Bp @ (row - ref - A @ (Z - ref)))
                zs[step].append(old.ravel() - ref)                    # the WHOLE old screen, not only the stencil
        worst, where = 0.0, (0, 0, 0)
        for step in range(steps):
            b_, z_ = numpy.array(bs[step]), numpy.array(zs[step])
            keep_b = b_.std(0) > 1e-6                  # directions B does not excite carry no innovation
            keep_z = z_.std(0) > 1e-12                 # the Fried reference pixel itself is identically 0 after referencing
            bn = (b_[:, keep_b] - b_[:, keep_b].mean(0)) / b_[:, keep_b].std(0)
            zn = (z_[:, keep_z] - z_[:, keep_z].mean(0)) / z_[:, keep_z].std(0)
            corr = bn.T @ zn / n
            if float(numpy.abs(corr).max()) > worst:
                worst = float(numpy.abs(corr).max())
                i, j = numpy.unravel_index(int(numpy.argmax(numpy.abs(corr))), corr.shape)
                where = (step, int(i), int(j))
        thr = 6.5 / math.sqrt(n)
        chk.margins["seed-ensemble:max|corr|·sqrt(n)"] = max(chk.margins.get("seed-ensemble:max|corr|·sqrt(n)", 0.0), worst * math.sqrt(n))
        chk.count("oracle:seed-ensemble:" + variant)
        if not worst <= thr:
            chk.fail("innovation:independent-of-old-phase:" + variant, "%s: over %d integer seeds (%d, %d, …) the innovation actually used by "
                     "add_row number %d, b̂ = B⁺(row − A·Z), is correlated with the phase already on the screen: largest |corr(b̂_%d, "
                     "old pixel %d)| = %.3f (%.1f standard errors; independent draws give < %.3f)"
                     % (tag, n, base, base + 7919, where[0] + 1, where[1], where[2], worst, worst * math.sqrt(n), thr),
                     {"variant": variant, "size": size, "par": par, "px": px, "r0": r0, "L0": L0, "kind": "seed-ensemble", "first_seed": base,
                      "stride": 7919, "n": n, "step": where[0] + 1})


def oracle_sequence(chk, rng, max_size):
    """several screens with the SAME class, grid, pixel scale and L0 but different r0 (and then the first r0 again) built one
    after the other in this process: the identities must hold on each (nothing learnt from one screen may be reused wrongly
    for another), and building a later screen must not change the matrices of an earlier one"""
    variant, size, par, px, _, L0 = draw_config(rng, max_size)
    px = L0 / logu(rng, 6., 120.)          # innovation variance ≥ 4e-3·C(0): an error in B alone is ≫ tolerance
    r0s = [logu(rng, 0.05, 0.5) for _ in range(3)]
    r0s.append(r0s[0])
    built = []
    for k, r0 in enumerate(r0s):
        nfail = len(chk.failures)
        obj = oracle_instance(chk, (variant, size, par, px, r0, L0), 50 + k, stats=False)
        chk.count("oracle:sequence-member")
        if len(chk.failures) > nfail:
            for f in chk.failures[nfail:]:
                f["what"] += "  [screen %d of a sequence with the same geometry and r0 = %r]" % (k + 1, r0s[:k + 1])
                if isinstance(f.get("replay"), dict):
                    f["replay"]["sequence_r0"] = r0s[:k + 1]
        if obj is not None:
            built.append((r0, obj, matrices_snapshot(obj)))
    for r0, obj, snap in built:
        for name, v in snap.items():
            if not numpy.array_equal(numpy.asarray(getattr(obj, name)), v):
                chk.fail("sequence:earlier-screen-changed", "%s of the %s screen (size=%d, par=%d, pixel_scale=%r, r0=%r, L0=%r) "
                         "changed when later screens with the same geometry and r0 = %r were constructed"
                         % (name, variant, size, par, px, r0, L0, r0s),
                         {"variant": variant, "size": size, "par": par, "pixel_scale": px, "L0": L0, "sequence_r0": r0s})
                break


def oracle_neighbours(chk, rng, max_size):
    """Round 5 — screens built one after the other in this process that differ from the first one in exactly ONE argument (pixel
    scale, L0, r0, n_columns / stencil_length_factor, size, class), then the first configuration again: whatever the library keeps
    between constructions (a cache of separations, covariances, A/B …) must be keyed by everything the matrices depend on.  The
    full oracle runs on each; afterwards every screen built earlier must still be what it was: matrices bitwise unchanged and a
    row generated NOW from each of them is still A·Z + B·b of its own matrices, while the others' arrays and streams stay put."""
    variant, size, par, px, r0, L0 = draw_config(rng, max_size)
    size = max(size, 3)
    px = L0 / logu(rng, 6., 120.)
    f = lambda: rng.choice([0.5, 0.8, 1.25, 2.0])
    other_par = rng.choice([q for q in ([1, 2, 3] if variant == "vk" else [1, 2, 3, 4]) if q != par])
    chain = [("base", (variant, size, par, px, r0, L0)),
             ("pixel_scale", (variant, size, par, px * f(), r0, L0)),
             ("L0", (variant, size, par, px, r0, L0 * f())),
             ("r0", (variant, size, par, px, r0 * f(), L0)),
             ("n_columns" if variant == "vk" else "stencil_length_factor", (variant, size, other_par, px, r0, L0)),
             ("nx_size", (variant, size + rng.choice([-1, 1]), par, px, r0, L0)),
             ("class", ("fried" if variant == "vk" else "vk", size, min(par, 3), px, r0, L0)),
             ("base again", (variant, size, par, px, r0, L0))]
    built = []
    for k, (what, cfg) in enumerate(chain):
        nfail = len(chk.failures)
        obj = oracle_instance(chk, cfg, 60 + k, stats=False)
        chk.count("oracle:neighbour:" + what.split()[0])
        for f_ in chk.failures[nfail:]:
            f_["what"] += "  [screen %d of a chain built in one process; differs from the first one, %r, in %s only]" % (k + 1, chain[0][1], what)
            if isinstance(f_.get("replay"), dict):
                f_["replay"]["chain"] = [c for _, c in chain[:k + 1]]
        if obj is not None:
            built.append((cfg, obj, matrices_snapshot(obj)))
    nprng = numpy.random.default_rng(rng.getrandbits(32))
    for i, (cfg, obj, snap) in enumerate(built):
        rep = {"variant": cfg[0], "size": cfg[1], "par": cfg[2], "pixel_scale": cfg[3], "r0": cfg[4], "L0": cfg[5], "chain": [c for _, c in chain]}
        for name, v in snap.items():
            if not numpy.array_equal(numpy.asarray(getattr(obj, name)), v):
                chk.fail("sequence:earlier-screen-changed", "%s of the screen %r changed when the later screens of the chain %r were constructed"
                         % (name, cfg, [c for _, c in chain]), rep)
                break
        others = [(o, numpy.array(o._scrn, copy=True), copy.deepcopy(o._R.bit_generator.state)) for (_, o, _) in built if o is not obj]
        length, nx = obj._scrn.shape
        scrn = numpy.round(nprng.normal(0, 3, size=(length, nx)) * 64) / 64
        b = clone_generator(obj._R).standard_normal(nx)
        row, _, _ = real_row(obj, scrn, copy.deepcopy(obj._R.bit_generator.state))
        A, B, st = snap["A_mat"], snap["B_mat"], snap["stencil_coords"]
        Z = scrn[st[:, 0], st[:, 1]]
        ref = scrn[1, 1] if cfg[0] == "fried" else 0.0
        want = A @ (Z - ref) + B @ b + ref
        scale = numpy.abs(A) @ (numpy.abs(Z) + abs(ref)) + numpy.abs(B) @ numpy.abs(b) + abs(ref)
        if row.shape != want.shape or not (numpy.abs(row - want) <= 1e-11 * scale + 1e-300).all():
            chk.fail("sequence:earlier-screen-row:" + cfg[0], "after the chain %r was constructed, screen %d of it (%r) no longer generates "
                     "A_mat·Z + B_mat·b from its own matrices and stream (max |Δ| = %.3g)"
                     % ([c for _, c in chain], i + 1, cfg, float(numpy.abs(row - want).max()) if row.shape == want.shape else float("nan")), rep)
        for o, scr, state in others:
            if not (numpy.array_equal(o._scrn, scr) and o._R.bit_generator.state == state):
                chk.fail("sequence:sibling-touched", "add_row() on screen %r changed the array or the random stream of another screen built "
                         "in the same process (chain %r)" % (cfg, [c for _, c in chain]), rep)
                break


def oracle_caller_arrays(chk, rng, max_size):
    """Round 5 — the caller's own 0-d arrays for pixel_scale, r0, L0 handed to TWO constructions (and a few add_row) one after the
    other, as a simulation does that keeps its parameters in arrays: the arrays must still hold the caller's numbers afterwards, and
    the second screen must satisfy the identities for those numbers (full oracle on a third construction is not needed: the second
    object's matrices must equal the first's bit for bit — same arguments, same process)."""
    from aotools.turbulence import infinitephasescreen as ips
    variant, size, par, px, r0, L0 = draw_config(rng, max_size)
    px = L0 / logu(rng, 6., 120.)
    _, _, cond_ref = reference_sigma(variant, size, par, px, r0, L0)
    if not cond_ref <= MAX_COND:
        chk.count("oracle:ill-conditioned-skipped")
        return
    apx, ar0, aL0 = numpy.array(px), numpy.array(r0), numpy.array(L0)
    cls = ips.PhaseScreenVonKarman if variant == "vk" else ips.PhaseScreenKolmogorov
    kw = {"n_columns" if variant == "vk" else "stencil_length_factor": par}
    replay = {"variant": variant, "size": size, "par": par, "pixel_scale": px, "r0": r0, "L0": L0, "kind": "caller-arrays"}
    tag = "%s(%d, array(%r), array(%r), array(%r), %s)" % (cls.__name__, size, px, r0, L0, kw)
    chk.oracle_cases += 1
    chk.count("oracle:caller-arrays")
    chk.case(("oracle-caller-arrays", tag))
    objs = []
    for k in range(2):
        try:
            o = cls(size, apx, ar0, aL0, random_seed=numpy.random.default_rng(5), **kw)
            o.add_row()
        except Exception as ex:
            chk.fail("construct:%s:%s" % (variant, type(ex).__name__), "%s raises %s: %s on construction number %d with the same argument "
                     "arrays (cond = %.3g)" % (tag, type(ex).__name__, str(ex)[:120], k + 1, cond_ref), replay)
            return
        objs.append(o)
        if not (apx.shape == ar0.shape == aL0.shape == () and float(apx) == px and float(ar0) == r0 and float(aL0) == L0):
            chk.fail("caller-array-changed:" + variant, "%s: after construction number %d (+ one add_row) the caller's argument arrays hold "
                     "pixel_scale=%r r0=%r L0=%r instead of %r %r %r" % (tag, k + 1, apx.tolist(), ar0.tolist(), aL0.tolist(), px, r0, L0), replay)
            return
    for name in ("A_mat", "B_mat", "cov_mat"):
        if not numpy.array_equal(numpy.asarray(getattr(objs[0], name)), numpy.asarray(getattr(objs[1], name))):
            chk.fail("caller-array-reuse:" + variant, "%s: %s of the second screen built from the same argument arrays differs from the "
                     "first one's" % (tag, name), replay)
            return
    # and the first one is the screen of those numbers: the whole oracle on the typed twin
    oracle_instance(chk, (variant, size, par, px, r0, L0), 75, cast="zerod", stats=False)


def oracle_types(chk, rng, max_size, draw=None):
    """the numbers of a configuration handed over as Python int / numpy integer / float32: the property speaks about the pixel
    scale, r0, L0 as numbers — the same numbers must give the same screen.  The full oracle runs on the typed object; then A, B
    and a row are compared with the twin built from the same numbers as Python floats."""
    cfg, cast = (draw or draw_typed_config)(rng, max_size)
    _, _, cond_ref = reference_sigma(*cfg)
    if not cond_ref <= MAX_COND:
        chk.count("oracle:ill-conditioned-skipped")
        return
    obj = oracle_instance(chk, cfg, 70, cast=cast, stats=False)
    if obj is None:
        return
    variant, size, par, px, r0, L0 = cfg
    seed = chk.rng.getrandbits(32)
    a, ra = construct(variant, size, par, px, r0, L0, seed, cast)
    f, rf = construct(variant, size, par, px, r0, L0, seed, None)
    ta = typed_args(size, px, r0, L0, cast)
    replay = {"variant": variant, "size": size, "par": par, "pixel_scale": px, "r0": r0, "L0": L0, "seed": seed, "cast": cast}
    if a is None or f is None:
        if (a is None) != (f is None):
            chk.fail("types:construct:" + variant, "constructing with (%r, %r, %r, %r) %s but with the same numbers as Python floats %s"
                     % (ta + (("raises %r" % ra) if a is None else "succeeds", ("raises %r" % rf) if f is None else "succeeds")), replay)
        return
    a.add_row(), f.add_row()
    for name, x, y in (("A_mat", a.A_mat, f.A_mat), ("B_mat", a.B_mat, f.B_mat), (".scrn after add_row()", a.scrn, f.scrn)):
        x, y = numpy.asarray(x, dtype=float), numpy.asarray(y, dtype=float)
        sc = float(numpy.abs(y).max()) + 1e-300
        if x.shape != y.shape or not float(numpy.abs(x - y).max()) <= 1e-9 * sc:
            chk.fail("types:%s:%s" % (cast, variant), "%s differs between the arguments (%r, %r, %r, %r) and the same numbers as Python "
                     "floats: max |Δ| = %.3g (scale %.3g)" % ((name,) + ta + (float(numpy.abs(x - y).max()) if x.shape == y.shape
                                                                             else float("nan"), sc)), replay)
            break


BOUNDARY = [("vk", 6, 2, 2.0, 2.0, 2.0), ("fried", 9, 2, 1.0, 0.5, 1.0), ("vk", 7, 7, 0.5, 0.5, 8.0), ("fried", 17, 1, 0.25, 16.0, 16.0),
            ("fried", 16, 1, 0.25, 0.25, 16.0), ("vk", 1, 1, 1.0, 1.0, 1.0), ("fried", 1, 1, 1.0, 1.0, 1.0), ("fried", 3, 1, 4.0, 0.125, 2.0),
            ("vk", 9, 1, 2.0 ** -10, 2.0 ** -4, 2.0 ** -3)]


def oracle_retune(chk, rng, max_size):
    """Round 6 — the matrices REBUILT on an existing screen (make_covmats(); makeAMatrix(); makeBMatrix(), the only way the API offers
    to re-tune a screen after setting r0 or L0): with unchanged parameters they are what they were; with r0 -> c·r0 the matrix A is
    unchanged and B·Bᵀ scales by c^(-5/3) (both exact consequences of the identities); with another L0 they equal those of a fresh
    screen built with that L0.  Every other clause builds each object once, so a helper that spoils the object's own separation
    array during the first build (seeded change C04-J: phase_covariance scaling its float64 argument in place) went unseen."""
    variant, size, par, px, r0, L0 = draw_config(rng, max_size)
    px = L0 / logu(rng, 6., 120.)
    obj, rec = construct(variant, size, par, px, r0, L0, rng.getrandbits(32))
    rep = {"variant": variant, "size": size, "par": par, "pixel_scale": px, "r0": r0, "L0": L0}
    chk.oracle_cases += 1
    chk.count("oracle:retune")
    chk.case(("retune", variant, size, par, px, r0, L0))
    if obj is None or not all(callable(getattr(obj, m, None)) for m in ("make_covmats", "makeAMatrix", "makeBMatrix")):
        return
    def mats():
        A, B = numpy.array(obj.A_mat, dtype=float), numpy.array(obj.B_mat, dtype=float)
        return A, B @ B.T
    def rebuild():
        obj.make_covmats()
        obj.makeAMatrix()
        obj.makeBMatrix()
    def close(x, y, tol):
        return x.shape == y.shape and bool(numpy.all(numpy.abs(x - y) <= tol * max(float(numpy.max(numpy.abs(y))), 1e-300)))
    A0, Q0 = mats()
    c = rng.choice([0.5, 0.8, 1.25, 2.0, 1.0 + 1e-3])
    f = rng.choice([0.5, 0.8, 1.25, 2.0])
    try:
        rebuild()
        A1, Q1 = mats()
        if not (close(A1, A0, 1e-9) and close(Q1, Q0, 1e-9)):
            chk.fail("retune:rebuild:" + variant, "%s screen (size=%d, par=%d, pixel_scale=%r, r0=%r, L0=%r): make_covmats(); makeAMatrix(); "
                     "makeBMatrix() called again with unchanged parameters changed A by %.3g and B·Bᵀ by %.3g (relative to the largest entry)"
                     % (variant, size, par, px, r0, L0, float(numpy.max(numpy.abs(A1 - A0)) / numpy.max(numpy.abs(A0))) if A1.shape == A0.shape else float("nan"),
                        float(numpy.max(numpy.abs(Q1 - Q0)) / max(numpy.max(numpy.abs(Q0)), 1e-300)) if Q1.shape == Q0.shape else float("nan")), rep)
            return
        obj.r0 = c * r0
        rebuild()
        A2, Q2 = mats()
        if not (close(A2, A0, 1e-6) and close(Q2, Q0 * c ** (-5. / 3), 1e-4)):     # eps·cond(Czz): the scaling factor is not a power of two (a stale B is off by O(1))
            chk.fail("retune:r0:" + variant, "%s screen (size=%d, par=%d, pixel_scale=%r, r0=%r, L0=%r) re-tuned to r0 = %r·r0 by setting the "
                     "attribute and rebuilding the matrices: A must be unchanged and B·Bᵀ scale by c^(-5/3); A changed by %.3g, B·Bᵀ is off by %.3g "
                     "(relative to the largest entry)" % (variant, size, par, px, r0, L0, c,
                                                           float(numpy.max(numpy.abs(A2 - A0)) / numpy.max(numpy.abs(A0))) if A2.shape == A0.shape else float("nan"),
                                                           float(numpy.max(numpy.abs(Q2 - Q0 * c ** (-5. / 3))) / max(numpy.max(numpy.abs(Q0 * c ** (-5. / 3))), 1e-300)) if Q2.shape == Q0.shape else float("nan")),
                     dict(rep, c=c))
            return
        obj.r0 = r0
        obj.L0 = f * L0
        rebuild()
        A3, Q3 = mats()
    except Exception as ex:
        if common_library_exception(ex):
            chk.fail("retune:raises:%s:%s" % (variant, type(ex).__name__), "%s screen (size=%d, par=%d, pixel_scale=%r, r0=%r, L0=%r): rebuilding the "
                     "matrices on the existing object raised %r" % (variant, size, par, px, r0, L0, ex), rep)
        return
    fresh, _ = construct(variant, size, par, px, r0, f * L0, 1)
    if fresh is None:
        return
    Af, Bf = numpy.array(fresh.A_mat, dtype=float), numpy.array(fresh.B_mat, dtype=float)
    if not (close(A3, Af, 1e-6) and close(Q3, Bf @ Bf.T, 1e-4)):
        chk.fail("retune:L0:" + variant, "%s screen (size=%d, par=%d, pixel_scale=%r, r0=%r, L0=%r) re-tuned to L0 = %r by setting the attribute and "
                 "rebuilding the matrices differs from a fresh screen built with that L0: A by %.3g, B·Bᵀ by %.3g (relative to the largest entry)"
                 % (variant, size, par, px, r0, L0, f * L0, float(numpy.max(numpy.abs(A3 - Af)) / numpy.max(numpy.abs(Af))) if A3.shape == Af.shape else float("nan"),
                    float(numpy.max(numpy.abs(Q3 - Bf @ Bf.T)) / max(numpy.max(numpy.abs(Bf @ Bf.T)), 1e-300)) if Q3.shape == Bf.shape[:1] * 2 else float("nan")),
                 dict(rep, new_L0=f * L0))


def common_library_exception(ex):
    try:
        from ..runcheck import library_exception
        return bool(library_exception(ex))
    except Exception:
        return True


def round5(chk, quick):
    """Round 5 (generator audit): input classes and construction histories the generators above never produce.  They draw from a
    generator of their own (a function of VERIF_SEED only): the cases of the earlier rounds stay what they were for every seed."""
    import random
    rng = random.Random(chk.seed * 1000003 + 40404)
    max_or = 16 if quick else 40
    # magnitudes and stencil depths (tolerances unchanged; observed on the unchanged tree over 12 seeds, largest observed / allowed:
    # sigma 0.0047, identity1 0.0012, identity2 0.0079 — coarse pixels make cond = 1, where the floor 5e-13·C(0) applies)
    for kind, n in (("coarse", 4), ("scaled", 5), ("deep", 5)) if quick else (("coarse", 80), ("scaled", 80), ("deep", 80)):
        for it in range(n):
            oracle_instance(chk, draw_wide_config(rng, max_or, kind, it), 40 + it, stats=it < 2 or not quick)
            chk.count("oracle:wide:" + kind)
    # equal / exactly representable boundary values: pixel = r0 = L0, r0 = L0, r0 = pixel, n_columns = nx, 1-pixel screens, powers of two
    for it, cfg in enumerate(BOUNDARY if quick else BOUNDARY + [(v, n, p, px, r0, L0) for (v, _, p, px, r0, L0) in BOUNDARY for n in (2, 5)]):
        oracle_instance(chk, cfg, 55, stats=False)
        chk.count("oracle:boundary")
    # random_seed as everything default_rng accepts, call forms, package-level names, NumPy-integer n_columns: every class once
    # per run on its own, then combinations; the whole oracle (innovation statistics of the object's OWN generator included)
    singles = [{"seedkind": v} for v in SEED_KINDS] + [{"call": v} for v in CALL_FORMS] + [{"entry": v} for v in ENTRIES] + [{"parcast": True}]
    for it in range(len(singles) + (4 if quick else 100)):
        how = dict(singles[it]) if it < len(singles) else {k: rng.choice(pool) for k, pool in
                                                          (("seedkind", SEED_KINDS), ("call", CALL_FORMS), ("entry", ENTRIES), ("parcast", (True, False)))
                                                          if rng.random() < 0.7}
        variant, size, par, px, r0, L0 = draw_config(rng, 10 if quick else 24)
        px = L0 / logu(rng, 6., 250.)
        if how.get("call") == "default":
            par = 2 if variant == "vk" else 4
        how = {k: v for k, v in how.items() if v}
        oracle_instance(chk, (variant, size, par, px, r0, L0), 80 + it, how=how, stats="seedkind" in how)
    # the numbers as NumPy doubles / 0-d arrays / half precision / 32-bit integers (full oracle + comparison with the float twin)
    for _ in range(8 if quick else 100):
        oracle_types(chk, rng, 12 if quick else 24, draw=draw_typed_config5)
    # the caller's own 0-d arrays reused for a second construction
    for _ in range(3 if quick else 30):
        oracle_caller_arrays(chk, rng, 12 if quick else 24)
    # screens that differ in exactly one argument, built one after the other; earlier ones must keep working
    for _ in range(3 if quick else 40):
        oracle_neighbours(chk, rng, 12 if quick else 24)
    # the matrices rebuilt on an existing object (unchanged parameters, another r0, another L0)
    for _ in range(6 if quick else 60):
        oracle_retune(chk, rng, 12 if quick else 24)
    # sizes beyond the 128 / 129 pixels of the repository's test configuration
    for cfg in [("vk", 136, 2, 0.25, 0.2, 20.)] if quick else [("vk", 136, 2, 0.25, 0.2, 20.), ("fried", 130, 1, 0.25, 0.2, 20.),
                                                            ("fried", 200, 2, 0.2, 0.15, 30.), ("vk", 257, 1, 0.5, 0.2, 20.)]:
        oracle_instance(chk, cfg, 97, stats=False)
        chk.count("oracle:size>129")


def run(chk):
    quick = chk.tier == "quick"
    chk.margins = {}
    chk.rule = ("correspondence: coordinates/sizes exact (model at Nat/Int vs real object vs independent description); covariance matrix "
                "|Δ| ≤ 1e-11·C(0) (model's own Bessel quadrature vs scipy, both binary64; observed 2e-14); A, BBt, B, new row "
                "|Δ| ≤ 1e-11·Σ|terms| (summation order); kernel contracts (Szz·inv = I, M = u diag(w) vt, u, vt orthogonal, w ≥ 0, "
                "M symmetric PSD) per instance; T1 self-check of phase_covariance rtol 1e-11 (observed 8e-14).  oracle: cov_mat vs an "
                "independent covariance at the true pixel separations ≤ 1e-12·C(0) (observed 5e-15); both identities on the real "
                "A_mat/B_mat against that covariance, tolerance (5e-13 + 2e-15·cond)·C(0)·(1+‖A‖∞)² (observed ≤ 2e-15·C(0) at cond 1, "
                "≤ 1.3e-17·cond·C(0) above), and against the object's own blocks (1e-14·n·cond); row affine in the stencil values "
                "(difference of two contents under one generator state = A·ΔZ, 1e-11·Σ|terms|); innovations reconstructed from "
                "256 rows per configuration: sample second moments within [0.45,1.75] (diagonal), 0.5 (off-diagonal), mean 0.44; Fried "
                "constant shift; sequences of screens with one geometry and different r0; arguments as int / numpy integer / "
                "float32 vs float twins (1e-9 relative).  domain: sizes ≤ 24 (thorough 40) + the repository's 128-pixel test "
                "configuration, L0/pixel_scale ∈ [6, 1e4], cond(Szz) ≤ 1e8.  distinct = distinct configurations")
    chk.assumptions = [
        "H2: the von Kármán covariance matrix of any finite point set is positive semidefinite (hypothesis of schur_posSemidef / "
        "model_identities; Mathlib has no Bessel functions) — its smallest eigenvalue is monitored per oracle instance",
        "Szz positive definite ('construction succeeds': cho_factor accepts it) — hypothesis, condition number recorded per instance",
        "contracts of scipy.linalg.cho_factor/cho_solve and numpy.linalg.svd — hypotheses, residuals checked on every instance",
        "Cov(L g) = L Lᵀ for i.i.d. unit normals g (reading of 'joint second-order statistics' in stationary_step) — not formalised; "
        "that the innovation vector the code draws IS a vector of nx_size independent unit normals is checked statistically "
        "(second moments of B⁺(row − A·Z) over 256 rows per configuration), not proved",
        "SCOPE of 'stay stationary': stationary_step (and the oracle) cover the joint second moments of (new row, stencil) ONLY — one "
        "step, and only the pixels the stencil reads.  Pixels of the exposed N×N screen that the stencil does not read (rows ≥ "
        "n_columns for the von Kármán variant; everything off the sparse Fried stencil) are NOT covered: their joint law with the "
        "new row is whatever the truncated recursion produces and is in general NOT the von Kármán law (finite-stencil method of "
        "Assemat & Wilson; measured per run by the C05 oracle: n_columns = 1, N = 16, L0/pixel = 100 gives a structure function "
        "at row lags 2…15 of 0.65…0.26 of theory; the default n_columns = 2 stays within a few per cent).  The property text "
        "claims the identities and stationarity 'as the screen is extruded' through them; nothing beyond the stencil is claimed "
        "or proved here",
        "IEEE rounding is not modelled (phase_covariance is binary64 since fix 4518b2c; tolerances: see rule)",
        "the identities are decided numerically only for cond(Szz) ≤ 1e8 and L0/pixel ≤ 1e4; configurations beyond (construction "
        "still succeeds up to cond ≈ 1e15) are exercised for finiteness/shape by C05 only",
        "NumPy fancy indexing / append / slicing semantics are exercised by the correspondence only",
    ]
    reference_selftest()
    meta = t1check.regenerate(chk)
    chk.build_and_audit("AoVerif.Props.C04", "AoVerif.Props.C04", REQUIRED)
    if meta is not None:
        try:
            def arggen(name, rng):
                L0 = logu(rng, 5., 100.)
                r = rng.choice([0.0, L0 / logu(rng, 2., 2e4), L0 / logu(rng, 2., 2e4), L0 * rng.uniform(0., 3.)])
                return {"r": r, "r0": logu(rng, 0.05, 0.5), "L0": L0}
            # binary64 on both sides (the Python function converts with numpy.float64 since fix 4518b2c); the Lean side uses
            # its own quadrature for K_{5/6}
            t1check.selfcheck(chk, meta, ["phase_covariance"], arggen, 40 if quick else 600, rtol=T1_RTOL)
        except common.LeanError as ex:
            chk.broke("translator", "generated Lean does not compile / run", str(ex))
    try:
        if quick:
            corr_geometry(chk, list(range(1, 34)), [65, 129])
        else:
            corr_geometry(chk, list(range(1, 66)), list(range(66, 258)))
        n_corr, max_corr = (8, 10) if quick else (60, 18)
        done = 0
        fixed = [("vk", 5, 2, 0.25, 0.2, 20.), ("fried", 4, 2, 0.1, 0.15, 25.)]
        while done < n_corr:
            cfg = fixed[done] if done < len(fixed) else draw_config(chk.rng, max_corr)
            corr_instance(chk, cfg, quick)
            done += 1
    except common.LeanError as ex:
        chk.broke("correspondence", "driver failed", str(ex))
    n_or, max_or = (30, 24) if quick else (500, 40)
    fixed = [("vk", 8, 2, 0.1, 0.2, 25.), ("fried", 12, 4, 0.1, 0.2, 25.), ("fried", 2, 1, 0.5, 0.3, 10.), ("vk", 2, 3, 0.5, 0.3, 10.),
             ("fried", 7, 2, 0.2, 0.15, 30.), ("fried", 14, 1, 0.05, 0.1, 60.)]
    for it in range(n_or):
        cfg = fixed[it] if it < len(fixed) else draw_config(chk.rng, max_or)
        oracle_instance(chk, cfg, it)
    if chk.oracle_cases < n_or // 2:
        raise RuntimeError("only %d of %d oracle configurations were in the domain: the check would pass vacuously" % (chk.oracle_cases, n_or))
    oracle_conditional(chk, quick)
    oracle_seed_ensemble(chk, quick)
    for _ in range(4 if quick else 40):
        oracle_sequence(chk, chk.rng, 16 if quick else 33)
    for _ in range(10 if quick else 120):
        oracle_types(chk, chk.rng, 12 if quick else 24)
    round5(chk, quick)
    # the repository's own test configuration (test/test_infinitephasescreen.py: 128 pixels, pixel_scale 4/64, r0 0.2, L0 50)
    for cfg in BIG:
        oracle_instance(chk, cfg, 98)
    if not quick:
        for cfg in [("vk", 65, 2, 0.25, 0.2, 20.), ("fried", 65, 4, 0.25, 0.2, 20.), ("fried", 100, 2, 0.25, 0.2, 20.),
                    ("vk", 128, 2, 4. / 64, 0.2, 50.), ("vk", 64, 2, 8. / 32, 0.2, 40.)]:
            oracle_instance(chk, cfg, 99)
    chk.notes.append({"largest observed / allowed (identities, sigma) and extreme innovation statistics of this run": chk.margins})
