"""C03 — covariance construction is independent of process count and scheduling.

Three layers (BUILDING.md):
  * theorems  lean/AoVerif/Props/C03.lean about lean/AoVerif/Model/Schedule.lean;
  * correspondence (model ↔ code): the model's `Pool.map` against CPython's own `Pool._get_tasks` / `MapResult`
    driven in adversarial completion orders; the model's state machine on a logging kernel against the REAL
    `CovarianceMatrix` object whose `wfs_covariance` results are tagged (an ndarray subclass that records every
    `… * r0_scale` and every `covariance_matrix[…] += …`); the model's float32 replay of the recorded `+=` operands
    against the real matrix, bitwise; a static comparison of the two copies of the assembly loop body;
  * oracle (property ↔ code): bitwise comparison of real builds across worker counts, schedules and rebuild histories,
    under a substitute pool that executes chunks in adversarial order (arguments and results cross a pickle boundary
    as in a real pool) and under real fork pools with injected per-task delays.
"""
import ast
import itertools
import multiprocessing
import multiprocessing.pool
import os
import pickle
import random
import time

import numpy

from .. import common

MANIFEST = {
    "text": "Lean 4 theorems over payload types with no algebraic laws (equality = same operation tree = bit-identical): "
            "Pool.map's positional collection returns [f(a) for a in args] for every worker count and every completion order of "
            "its chunks (CPython's chunk-size formula, _get_tasks and MapResult modelled); the multi-process assembly performs "
            "exactly the single-process operation tree for all numbers of WFSs/layers/workers and all schedules; by induction "
            "over arbitrary histories of threads=k / build / scribbling over the scratch attributes, every build returns one "
            "matrix that is a function of the constructor arguments only. The model is tied to the code on every run: against "
            "CPython's real MapResult driven in adversarial orders, against the real CovarianceMatrix object with tagged "
            "results (operation log, geometry freshness) under a substitute pool, and by a bitwise float32 replay; a direct "
            "oracle compares real builds bitwise across schedules, worker counts (real fork pools with injected delays) and "
            "rebuild histories.",
    "note": "Trusted: Lean kernel + propext/Classical.choice/Quot.sound; that wfs_covariance, the four += of one task and "
            "mirror_covariance_matrix are functions of their arguments (uninterpreted in the model; exercised by the oracle, "
            "purity itself is C20's subject); the OS scheduler is abstracted to the order in which chunks complete (each chunk "
            "completes once); pickling preserves float64 bits (exercised, not modelled).",
    "technique": "Lean 4 proof (induction over schedules and call histories) about a hand-written state-machine model + "
                 "correspondence driver (operation logs, CPython MapResult, float32 replay) + bitwise oracle under controlled "
                 "and real process pools",
}
REQUIRED = ["collect_perm_invariant", "complete_eq_of_cover", "complete_order_irrelevant", "complete_missing",
            "chunks_flatten", "chunks_length_numChunks", "poolMap_eq", "poolMap_workers_schedule_irrelevant",
            "consume_positional", "foldl_pairs", "pairs_length", "mpLayer_eq_single", "mp_eq_single", "mp_eq_mp",
            "build_returns_reference", "build_ignores_scratch", "rebuild_idempotent", "run_length", "cfg_invariant",
            "histories_agree", "poolMap_any_interleaving", "unordered_collection_depends_on_order",
            "stale_matrix_is_told_apart", "chunkSize_spec", "poolMap_eq_pos", "reconfigure_between_builds"]


def sc_module():
    from aotools.turbulence import slopecovariance
    return slopecovariance


# ------------------------------------------------------------------------------------------ schedules
SCHED_KINDS = ["fifo", "reverse", "random", "rotate", "evens-odds", "last-first", "outside-in"]


def make_order(kind, seed, call_index, n):
    """completion order (a permutation of range(n)) of the `call_index`-th map call"""
    idx = list(range(n))
    if kind == "fifo":
        return idx
    if kind == "reverse":
        return idx[::-1]
    if kind == "random":
        r = random.Random("%s/%s/%s" % (seed, call_index, n))
        r.shuffle(idx)
        return idx
    if kind == "rotate":
        k = (seed + call_index + 1) % max(n, 1)
        return idx[k:] + idx[:k]
    if kind == "evens-odds":
        return idx[1::2] + idx[0::2]
    if kind == "last-first":
        return idx[-1:] + idx[:-1]
    if kind == "outside-in":
        out = []
        while idx:
            out.append(idx.pop())
            if idx:
                out.append(idx.pop(0))
        return out
    if kind == "explicit":
        return list(seed[call_index]) if call_index < len(seed) else []
    raise ValueError(kind)


# ------------------------------------------------------------------------------------------ the substitute pool
class NeverReturns(Exception):
    """a chunk never completed: the real `map` would block for ever"""


class _Owner(object):
    def __init__(self):
        self._cache = {}


class ControlledPool(object):
    """A `multiprocessing.Pool` whose scheduler is a list: chunking (`Pool._get_tasks`, the chunk-size formula), execution of
    a chunk (`mapstar`) and result collection (`MapResult._set` / `.get`) are CPython's own code; the chunks are executed one
    after the other in the completion order chosen by `chooser(n_chunks)`.  With `pickled`, arguments and results cross a
    pickle boundary exactly as they do between processes."""

    def __init__(self, processes, chooser, pickled=True, log=None):
        if processes is None:
            processes = os.cpu_count() or 1
        if processes < 1:
            raise ValueError("Number of processes must be at least 1")
        self._n = int(processes)
        self._chooser = chooser
        self._pickled = pickled
        self._log = log if log is not None else []
        self._log.append(("pool", self._n))
        self._owner = _Owner()
        self._pending = []          # apply_async tasks not yet run
        self.closed = False

    # -- helpers
    def _x(self, obj):
        return pickle.loads(pickle.dumps(obj, protocol=pickle.HIGHEST_PROTOCOL)) if self._pickled else obj

    def _chunksize(self, n, chunksize):
        if chunksize is None:
            chunksize, extra = divmod(n, self._n * 4)
            if extra:
                chunksize += 1
        if n == 0:
            chunksize = 0
        return chunksize

    def _run_map(self, func, iterable, mapper, chunksize=None, callback=None, error_callback=None):
        if not hasattr(iterable, "__len__"):
            iterable = list(iterable)
        chunksize = self._chunksize(len(iterable), chunksize)
        batches = list(multiprocessing.pool.Pool._get_tasks(func, iterable, chunksize))
        res = multiprocessing.pool.MapResult(self._owner, chunksize, len(iterable), callback, error_callback)
        order = list(self._chooser(len(batches)))
        self._log.append(("map", len(iterable), chunksize, len(batches), tuple(order)))
        for k in order:
            if not 0 <= k < len(batches):
                continue
            task = self._x(batches[k])
            try:
                out = (True, self._x(mapper(task)))
            except Exception as ex:      # the worker sends the exception back
                out = (False, ex)
            res._set(k, out)
        return res

    @staticmethod
    def _get(res):
        try:
            return res.get(timeout=0)
        except multiprocessing.TimeoutError:
            raise NeverReturns("a chunk never completed")

    # -- the Pool API
    def map(self, func, iterable, chunksize=None):
        return self._get(self._run_map(func, iterable, multiprocessing.pool.mapstar, chunksize))

    def starmap(self, func, iterable, chunksize=None):
        return self._get(self._run_map(func, iterable, multiprocessing.pool.starmapstar, chunksize))

    def map_async(self, func, iterable, chunksize=None, callback=None, error_callback=None):
        return self._run_map(func, iterable, multiprocessing.pool.mapstar, chunksize, callback, error_callback)

    def starmap_async(self, func, iterable, chunksize=None, callback=None, error_callback=None):
        return self._run_map(func, iterable, multiprocessing.pool.starmapstar, chunksize, callback, error_callback)

    def imap(self, func, iterable, chunksize=1):
        return iter(self.map(func, list(iterable), chunksize))

    def imap_unordered(self, func, iterable, chunksize=1):
        """results in COMPLETION order — which is what makes this call schedule dependent"""
        items = list(iterable)
        batches = list(multiprocessing.pool.Pool._get_tasks(func, items, max(1, chunksize or 1)))
        order = list(self._chooser(len(batches)))
        self._log.append(("imap_unordered", len(items), chunksize, len(batches), tuple(order)))
        out = []
        for k in order:
            if 0 <= k < len(batches):
                out.extend(self._x(multiprocessing.pool.mapstar(self._x(batches[k]))))
        if sorted(k for k in order if 0 <= k < len(batches)) != list(range(len(batches))):
            raise NeverReturns("a chunk never completed")
        return iter(out)

    def apply(self, func, args=(), kwds={}):
        return self._x(func(*self._x(tuple(args)), **self._x(dict(kwds))))

    def apply_async(self, func, args=(), kwds={}, callback=None, error_callback=None):
        res = multiprocessing.pool.ApplyResult(self._owner, callback, error_callback)
        self._pending.append((res, func, tuple(args), dict(kwds)))
        pool = self

        class _Handle(object):
            def get(self_, timeout=None):
                pool._flush()
                return ControlledPool._get(res)

            def wait(self_, timeout=None):
                pool._flush()

            def ready(self_):
                pool._flush()
                return res.ready()

            def successful(self_):
                pool._flush()
                return res.successful()
        return _Handle()

    def _flush(self):
        """run every pending apply_async task, in the completion order chosen by the schedule (callbacks fire in it)"""
        pending, self._pending = self._pending, []
        if not pending:
            return
        order = list(self._chooser(len(pending)))
        self._log.append(("apply_async", len(pending), 1, len(pending), tuple(order)))
        for k in order:
            if 0 <= k < len(pending):
                res, func, args, kwds = pending[k]
                if res.ready():
                    continue
                try:
                    out = (True, self._x(func(*self._x(args), **self._x(kwds))))
                except Exception as ex:
                    out = (False, ex)
                res._set(0, out)

    def close(self):
        self.closed = True

    def join(self):
        self._flush()

    def terminate(self):
        self.closed = True

    def __enter__(self):
        return self

    def __exit__(self, *a):
        self.terminate()


class MPShim(object):
    """stands in for the name `multiprocessing` inside slopecovariance.py"""

    def __init__(self, factory):
        self._factory = factory

    def Pool(self, processes=None, *a, **k):
        return self._factory(processes)

    def get_context(self, method=None):
        return self

    def __getattr__(self, name):
        return getattr(multiprocessing, name)


class patched(object):
    """context manager: substitute attributes of slopecovariance.py (always restored)"""

    def __init__(self, **attrs):
        self.attrs = attrs

    def __enter__(self):
        sc = sc_module()
        self.saved = {}
        for k, v in self.attrs.items():
            self.saved[k] = (hasattr(sc, k), getattr(sc, k, None))
            setattr(sc, k, v)
        return self

    def __exit__(self, *a):
        sc = sc_module()
        for k, (had, v) in self.saved.items():
            if had:
                setattr(sc, k, v)
            else:
                delattr(sc, k)


def pool_patch(factory):
    sc = sc_module()
    attrs = {"multiprocessing": MPShim(factory)}
    if hasattr(sc, "Pool"):                       # `from multiprocessing import Pool`
        attrs["Pool"] = lambda processes=None, *a, **k: factory(processes)
    return patched(**attrs)


# ------------------------------------------------------------------------------------------ configurations
def gen_config(rng, thorough=False, max_wfs=None, n_wfs=None, hetero=False):
    """`hetero`: the class of systems on which the two assembly paths, and a first and a second build, have the most room to
    differ — sensors of different sub-aperture size, an off-axis NATURAL guide star (cone factor 1: positions are only
    translated) next to a laser guide star, at least two layers, at least one of them well above the ground"""
    exact = n_wfs
    n_wfs = rng.choice([1, 2, 2, 3, 3, 4] + ([5] if thorough else []))
    if max_wfs:
        n_wfs = min(n_wfs, max_wfs)
    if exact:
        n_wfs = exact
    if hetero and not exact:
        n_wfs = max(n_wfs, 2)
    n_layers = rng.choice([2, 2, 3, 4] if hetero else [1, 2, 2, 3, 4])
    tel = rng.choice([2.0, 4.2, 8.0])
    masks, diams = [], []
    for _ in range(n_wfs):
        nx = rng.choice([2, 3, 3, 4])
        ny = nx if rng.random() < 0.8 else rng.choice([2, 3])
        m = [[1 if rng.random() < 0.75 else 0 for _ in range(ny)] for _ in range(nx)]
        m[rng.randrange(nx)][rng.randrange(ny)] = 1
        masks.append(m)
        diams.append(tel / nx * rng.choice([1.0, 1.0, 0.9]))
    gs_alt = [rng.choice([0, 0, 90000.0, 80000.0 + 1000 * rng.randint(0, 20)]) for _ in range(n_wfs)]
    identical = rng.random() < 0.5 and not hetero
    if hetero:
        gs_alt[0] = 0
        if n_wfs > 1:
            gs_alt[1] = rng.choice([90000.0, 80000.0 + 1000 * rng.randint(0, 20)])
            if abs(diams[1] - diams[0]) < 1e-9:
                diams[1] = diams[0] * 0.8
    if identical:                                 # the usual instrument: identical sensors looking in different directions —
        masks = [masks[0]] * n_wfs                # every block has the same shape, so a mixed-up result is silently accepted
        diams = [diams[0]] * n_wfs
        if rng.random() < 0.7:
            gs_alt = [gs_alt[0]] * n_wfs
    gs_pos = [[rng.uniform(-30, 30), rng.uniform(-30, 30)] for _ in range(n_wfs)]
    if n_wfs > 1 and rng.random() < 0.2:
        gs_pos[1] = list(gs_pos[0])               # two sensors looking the same way
    wl = [rng.choice([500e-9, 589e-9, 1.65e-6]) for _ in range(n_wfs)]
    if identical and rng.random() < 0.7:
        wl = [wl[0]] * n_wfs
    alts = sorted(rng.choice([0.0, 500.0, 2000.0, 5000.0, 10000.0, 15000.0]) + rng.uniform(0, 100) for _ in range(n_layers))
    if rng.random() < 0.5:
        alts[0] = 0.0
    if hetero and alts[-1] < 2000.0:
        alts[-1] = rng.choice([5000.0, 10000.0, 15000.0]) + rng.uniform(0, 100)
    r0s = [rng.uniform(0.05, 1.0) for _ in range(n_layers)]
    L0s = [rng.choice([10.0, 25.0, 50.0, 100.0]) for _ in range(n_layers)]
    return {"n_wfs": n_wfs, "pupil_masks": masks, "telescope_diameter": tel, "subap_diameters": diams,
            "gs_altitudes": gs_alt, "gs_positions": gs_pos, "wfs_wavelengths": wl, "n_layers": n_layers,
            "layer_altitudes": alts, "layer_r0s": r0s, "layer_L0s": L0s,
            # how the caller holds the per-layer / per-sensor numbers: lists, float64 arrays, or single-precision arrays (the elements
            # then reach the workers as numpy.float32 scalars: both assembly paths must do the same arithmetic with them)
            "containers": rng.choice(["list", "ndarray", "list", "ndarray", "float32"])}


FIELDS = ["subap_diameters", "gs_altitudes", "gs_positions", "wfs_wavelengths", "layer_altitudes", "layer_r0s", "layer_L0s"]
MASK_KINDS = ["float", "bool", "int", "uint8", "float32", "fortran", "strided", "negstride", "readonly", "stack3d", "tuple"]
DECORATIONS = ["legacy", "legacy", "legacy", "f4-all", "f4-all", "mixed", "mixed", "layouts", "tuples", "ints"]
_DT = {"f8": numpy.float64, "f4": numpy.float32, "i8": numpy.int64, "i4": numpy.int32}


def _field(cfg, name, value=None):
    """the object a caller hands over for constructor argument `name` (value: the numbers, as nested lists).  Without a
    `field_kinds` entry: what rounds 1-4 handed over (`containers`: lists, float64 arrays, float32 arrays for r0/L0/diameters;
    layer altitudes always a float64 array).  With one: list / tuple / float64 / float32 / int64 / int32 arrays / Python ints,
    or a float64 array with an unusual memory layout (strided view, negative stride, Fortran order, read-only, broadcast)"""
    v = cfg[name] if value is None else value
    kind = (cfg.get("field_kinds") or {}).get(name)
    if kind is None:
        if name == "layer_altitudes":
            return numpy.array(v)
        if cfg.get("containers") == "float32" and name in ("layer_r0s", "layer_L0s", "subap_diameters"):
            return numpy.array(v, dtype=numpy.float32)
        # (inner lists copied: the caller's container is the object's, not the configuration record's — op "CI" writes into it)
        return numpy.array(v) if cfg.get("containers") in ("ndarray", "float32") else [list(x) if isinstance(x, (list, tuple)) else x for x in v]
    if kind == "list":
        return [list(x) if isinstance(x, (list, tuple)) else x for x in v]
    if kind == "tuple":
        return tuple(tuple(x) if isinstance(x, (list, tuple)) else x for x in v)
    if kind == "pyint":
        return [int(x) for x in v]
    if kind in _DT:
        return numpy.array(v, dtype=_DT[kind])
    a = numpy.array(v, dtype=numpy.float64)
    if kind == "f8-strided":
        big = numpy.full((2 * a.shape[0],) + a.shape[1:], 1e300)
        big[::2] = a
        return big[::2]
    if kind == "f8-negstride":
        return numpy.array(a[::-1])[::-1]
    if kind == "f8-fortran":
        return numpy.asfortranarray(a) if a.ndim == 2 else numpy.array(a[::-1])[::-1]
    if kind == "f8-readonly":
        a.setflags(write=False)
        return a
    if kind == "f8-broadcast":                   # stride 0 (and read-only) when every entry is the same number
        if a.ndim == 1 and a.size and (a == a[0]).all():
            return numpy.broadcast_to(numpy.float64(a[0]), a.shape)
        a.setflags(write=False)
        return a
    raise ValueError(kind)


def _masks(cfg, masks=None):
    """the pupil masks as a caller may hold them: element type, memory layout and outer container vary (`mask_kind`)"""
    kind = cfg.get("mask_kind", "float")
    ms = cfg["pupil_masks"] if masks is None else masks
    if kind in ("bool", "int", "uint8", "float32"):
        return [numpy.array(m, dtype=kind) for m in ms]
    if kind == "fortran":
        return [numpy.asfortranarray(numpy.array(m, dtype=float)) for m in ms]
    if kind == "strided":
        out = []
        for m in ms:
            a = numpy.array(m, dtype=float)
            big = numpy.ones((2 * a.shape[0], 2 * a.shape[1] + 1))     # the skipped entries say "active": they must not be read
            big[::2, ::2][:, :a.shape[1]] = a
            out.append(big[::2, ::2][:, :a.shape[1]])
        return out
    if kind == "negstride":
        return [numpy.array(numpy.array(m, dtype=float)[::-1, ::-1])[::-1, ::-1] for m in ms]
    if kind == "readonly":
        out = [numpy.array(m, dtype=float) for m in ms]
        for a in out:
            a.setflags(write=False)
        return out
    if kind == "stack3d" and len({(len(m), len(m[0])) for m in ms}) == 1:
        return numpy.array(ms, dtype=int)         # one (n_wfs, nx, ny) array, as the test-suite builds it
    if kind == "tuple":
        return tuple(numpy.array(m, dtype=float) for m in ms)
    return [numpy.array(m, dtype=float) for m in ms]


def _cls(cfg):
    """the entry point: the class under its module name or under one of the package-level names"""
    sc = sc_module()
    entry = cfg.get("entry", "module")
    if entry == "turbulence":
        import aotools.turbulence
        return getattr(aotools.turbulence, "CovarianceMatrix", sc.CovarianceMatrix)
    if entry == "aotools":
        import aotools
        return getattr(aotools, "CovarianceMatrix", sc.CovarianceMatrix)
    return sc.CovarianceMatrix


def _int(cfg, n):
    return numpy.int64(n) if cfg.get("np_ints") else n


def _tel(cfg):
    t, kind = cfg["telescope_diameter"], cfg.get("tel_kind", "float")
    if kind == "int" and float(t).is_integer():
        return int(t)
    if kind == "f8":
        return numpy.float64(t)
    if kind == "f4":
        return numpy.float32(t)
    if kind == "0d":
        return numpy.array(float(t))
    return t


BUILT = []                # the configurations objects were made of in this process, in order (the last 200)


def make_obj(cfg, threads=1, share=None, fresh=()):
    """`share`: an existing object whose CURRENT attribute values (the caller's arrays) are handed to the new object as they
    are, except the arguments named in `fresh` — two instruments described by the same arrays"""
    def arg(name):
        if share is not None and name not in fresh and hasattr(share, name):
            return getattr(share, name)
        return _masks(cfg) if name == "pupil_masks" else _field(cfg, name)
    if not BUILT or BUILT[-1] is not cfg:
        BUILT.append(cfg)
        del BUILT[:-200]
    return _cls(cfg)(_int(cfg, cfg["n_wfs"]), arg("pupil_masks"), _tel(cfg), arg("subap_diameters"),
                     arg("gs_altitudes"), arg("gs_positions"), arg("wfs_wavelengths"),
                     _int(cfg, cfg["n_layers"]), arg("layer_altitudes"), arg("layer_r0s"),
                     arg("layer_L0s"), _int(cfg, threads))


def decorate(rng, cfg, which=None):
    """how the caller holds the numbers of `cfg` (the numbers themselves are not changed)"""
    which = which or rng.choice(DECORATIONS)
    cfg = dict(cfg)
    cfg["decor"] = which
    if which == "legacy":
        return cfg
    if which == "f4-all":                        # a single-precision caller: EVERY per-sensor / per-layer number is float32
        fk = {f: "f4" for f in FIELDS}
    elif which == "mixed":
        fk = {f: rng.choice(["list", "f8", "f4", "tuple"]) for f in FIELDS}
    elif which == "layouts":
        fk = {f: rng.choice(["f8-strided", "f8-negstride", "f8-fortran", "f8-readonly", "f8-broadcast"]) for f in FIELDS}
    elif which == "tuples":
        fk = {f: "tuple" for f in FIELDS}
    elif which == "ints":                        # integer-valued numbers given as integers
        fk = {f: rng.choice(["list", "f8"]) for f in FIELDS}
        fk["layer_L0s"] = rng.choice(["i8", "i4", "pyint"])
        if all(float(a).is_integer() for a in cfg["gs_altitudes"]):
            fk["gs_altitudes"] = rng.choice(["i8", "i4", "pyint"])
    else:
        raise ValueError(which)
    cfg["field_kinds"] = fk
    cfg["mask_kind"] = rng.choice(MASK_KINDS)
    cfg["np_ints"] = rng.random() < 0.4
    cfg["entry"] = rng.choice(["module", "turbulence", "aotools"])
    cfg["tel_kind"] = rng.choice(["float", "int", "f8", "f4"] if which != "f4-all" else ["f4", "f4", "float"])
    return cfg


def _circle(n):
    c = (n - 1) / 2.0
    return [[1 if (x - c) ** 2 + (y - c) ** 2 <= (n / 2.0) ** 2 else 0 for y in range(n)] for x in range(n)]


SPECIALS = ["large", "many-layers", "many-wfs", "single-subap", "dup-layers", "on-axis", "unsorted-layers", "same-count-masks", "long-profile"]


def shuffle_layers(rng, cfg, how=None):
    """the layers listed in another order than from the ground up (descending, or any order): same atmosphere, but the
    float32 accumulation runs through the layers in the order they are listed — in BOTH paths"""
    n = cfg["n_layers"]
    order = list(range(n))
    if n >= 2:
        while order == list(range(n)):
            if (how or rng.choice(["descending", "any"])) == "descending":
                order = order[::-1]
            else:
                rng.shuffle(order)
    cfg = dict(cfg)
    for f in ("layer_altitudes", "layer_r0s", "layer_L0s"):
        cfg[f] = [cfg[f][k] for k in order]
    cfg["layer_order"] = "as-listed:" + ",".join(str(k) for k in order)
    return cfg


def gen_special(rng, kind, thorough=False):
    """input classes the general generator produces never or almost never (the numbers stay inside its ranges)"""
    def layers(cfg, n):
        alts = sorted(rng.choice([0.0, 500.0, 2000.0, 5000.0, 10000.0, 15000.0]) + rng.uniform(0, 100) for _ in range(n))
        if rng.random() < 0.5:
            alts[0] = 0.0
        cfg.update(n_layers=n, layer_altitudes=alts, layer_r0s=[rng.uniform(0.05, 1.0) for _ in range(n)],
                   layer_L0s=[rng.choice([10.0, 25.0, 50.0, 100.0]) for _ in range(n)])
    if kind == "large":
        # realistic sensor sizes: 32-52 active sub-apertures each (a task's blocks have > 1024 entries and pickle to > 64 kB, the
        # matrix has > 2^14 entries), sensors of different size in descending, ascending or mixed order
        cfg = gen_config(rng, n_wfs=rng.choice([2, 2, 2, 3]), hetero=rng.random() < 0.5)
        tel = cfg["telescope_diameter"]
        masks, diams = [], []
        for w in range(cfg["n_wfs"]):
            nx = rng.choice([6, 7, 7, 8] if thorough else [6, 7])
            m = _circle(nx)
            if rng.random() < 0.5:
                m[rng.randrange(nx)][rng.randrange(nx)] = 0
            masks.append(m)
            diams.append(tel / nx * rng.choice([1.0, 1.0, 0.9]))
        if abs(diams[1] - diams[0]) < 1e-9 and rng.random() < 0.5:
            diams[1] = diams[0] * 0.8
        cfg.update(pupil_masks=masks, subap_diameters=diams)
        layers(cfg, rng.choice([2, 3]))
    elif kind == "many-layers":                  # more layers than any sensible per-round buffer, and than 4·workers
        cfg = gen_config(rng, n_wfs=rng.choice([1, 2, 2, 3] if thorough else [1, 2, 2]))
        layers(cfg, rng.choice([9, 12, 17, 35] if thorough else [9, 12]))
    elif kind == "many-wfs":                     # 21 / 28 / 36 tasks per layer: Pool.map puts several tasks into one chunk for 2-8 workers
        cfg = gen_config(rng, n_wfs=rng.choice([6, 7, 8] if thorough else [6, 7]))
        cfg["pupil_masks"] = [[row[:3] for row in m[:3]] for m in cfg["pupil_masks"]]
        for m in cfg["pupil_masks"]:
            if not any(any(r) for r in m):
                m[0][0] = 1
        cfg["subap_diameters"] = [cfg["telescope_diameter"] / len(m) * (0.9 if k % 3 == 2 else 1.0) for k, m in enumerate(cfg["pupil_masks"])]
        if cfg["n_layers"] > 2:
            layers(cfg, 2)
    elif kind == "single-subap":                 # a sensor with exactly one active sub-aperture (1×n and n×1 blocks), or all of them
        cfg = gen_config(rng, n_wfs=rng.choice([1, 2, 2, 3, 3] if thorough else [2, 2, 3]))
        masks = [[row[:] for row in m] for m in cfg["pupil_masks"]]
        which = list(range(cfg["n_wfs"])) if rng.random() < 0.3 else [rng.randrange(cfg["n_wfs"])]
        for w in which:
            nx, ny = len(masks[w]), len(masks[w][0])
            masks[w] = [[0] * ny for _ in range(nx)]
            masks[w][rng.randrange(nx)][rng.randrange(ny)] = 1
        cfg["pupil_masks"] = masks
    elif kind == "dup-layers":
        # layers that agree in SOME of their parameters: two at the same altitude with different turbulence, two with the same
        # r0 and L0 at different altitudes (a key made of only part of a layer's parameters confuses them); all layers identical
        cfg = gen_config(rng, hetero=True)
        if cfg["n_layers"] < 3:
            layers(cfg, rng.choice([3, 4]))
            if cfg["layer_altitudes"][-1] < 2000.0:
                cfg["layer_altitudes"][-1] = rng.choice([5000.0, 10000.0, 15000.0]) + rng.uniform(0, 100)
        for f in ("layer_altitudes", "layer_r0s", "layer_L0s"):
            cfg[f] = list(cfg[f])
        if thorough and rng.random() < 0.25:
            for f in ("layer_altitudes", "layer_r0s", "layer_L0s"):
                cfg[f] = [cfg[f][-1]] * cfg["n_layers"]
        else:
            k = rng.randrange(1, cfg["n_layers"] - 1)                  # layers k-1, k: same altitude; layers k, k+1: same turbulence
            cfg["layer_altitudes"][k - 1] = cfg["layer_altitudes"][k]
            cfg["layer_r0s"][k + 1] = cfg["layer_r0s"][k]
            cfg["layer_L0s"][k + 1] = cfg["layer_L0s"][k]
            if cfg["layer_L0s"][k - 1] == cfg["layer_L0s"][k]:
                cfg["layer_L0s"][k - 1] = 10.0 if cfg["layer_L0s"][k] != 10.0 else 25.0
    elif kind == "on-axis":                      # the usual truth sensor: an NGS at exactly (0, 0); and every sensor on axis
        cfg = gen_config(rng, hetero=rng.random() < 0.5)
        cfg["gs_positions"] = [list(p) for p in cfg["gs_positions"]]
        for w in (range(cfg["n_wfs"]) if rng.random() < 0.25 else [0]):
            cfg["gs_positions"][w] = [0.0, 0.0] if rng.random() < 0.7 else [0, 0]
        cfg["gs_altitudes"] = [0] + list(cfg["gs_altitudes"][1:])
    elif kind == "unsorted-layers":
        cfg = gen_config(rng, hetero=True)
        if cfg["n_layers"] < 3 and rng.random() < 0.7:
            layers(cfg, rng.choice([3, 4, 5]))
        cfg = shuffle_layers(rng, cfg)
    elif kind == "same-count-masks":
        # sensors that agree in everything a cheap equivalence test looks at — number of sub-apertures, sub-aperture size, grid — but
        # not in WHICH sub-apertures are lit (a different dead sub-aperture each), over a layer at altitude exactly 0 (no cone, no
        # shift: the one layer where "the same sensor" is tempting) plus an elevated one
        cfg = gen_config(rng, n_wfs=rng.choice([2, 3, 3, 4]))
        nx = rng.choice([3, 4])
        base = [[1] * nx for _ in range(nx)]
        cells = rng.sample([(i, j) for i in range(nx) for j in range(nx)], cfg["n_wfs"])
        masks = []
        for (i, j) in cells:
            m = [row[:] for row in base]
            m[i][j] = 0
            masks.append(m)
        cfg.update(pupil_masks=masks, subap_diameters=[cfg["telescope_diameter"] / nx] * cfg["n_wfs"])
        layers(cfg, rng.choice([2, 3]))
        cfg["layer_altitudes"] = [0.0] + [float(a) + 1000.0 for a in list(cfg["layer_altitudes"])[1:]]
    elif kind == "long-profile":
        # the profile arrays hold more layers than n_layers says (a tabulated profile of which the first n are used — the test-suite
        # does the same with gs_positions): both assembly paths must use the same n_layers of them
        cfg = gen_config(rng, hetero=rng.random() < 0.5)
        if cfg["n_layers"] < 2:
            layers(cfg, 3)
        extra = rng.randint(1, 3)
        for f, gen in (("layer_altitudes", lambda: rng.choice([3000.0, 8000.0, 12000.0]) + rng.uniform(0, 100)),
                       ("layer_r0s", lambda: rng.uniform(0.05, 1.0)), ("layer_L0s", lambda: rng.choice([10.0, 25.0, 50.0]))):
            cfg[f] = list(cfg[f]) + [gen() for _ in range(extra)]
    else:
        raise ValueError(kind)
    cfg["special"] = kind
    return cfg


def cfg_class(cfg):
    same = all(m == cfg["pupil_masks"][0] for m in cfg["pupil_masks"]) and cfg["n_wfs"] > 1
    ngs_off = any(a == 0 and any(abs(v) > 0 for v in p) for a, p in zip(cfg["gs_altitudes"], cfg["gs_positions"]))
    up = any(h > 0 for h in cfg["layer_altitudes"])
    mixed = len({(a != 0, round(d, 9)) for a, d in zip(cfg["gs_altitudes"], cfg["subap_diameters"])}) > 1
    return "wfs%d:layers%d%s%s%s%s%s" % (cfg["n_wfs"], cfg["n_layers"], ":identical-sensors" if same else "",
                                       ":offaxis-ngs+elevated" if ngs_off and up else "", ":mixed-diam/gs+elevated" if mixed and up else "",
                                       (":" + cfg["special"] if cfg.get("special") else "") + (":layers-unsorted" if cfg.get("layer_order") and not cfg.get("special") else ""),
                                       ":held-as-" + cfg["decor"] if cfg.get("decor", "legacy") != "legacy" else "")


def _as_container(cfg, value, attr=None):
    return _field(cfg, attr, value)


def gen_reconfigure(rng, cfg):
    """a change of constructor attributes a caller may make between two builds (the number of sub-apertures is computed by the
    constructor, so masks are left alone): ["C", attribute, new value]"""
    f = rng.choice(["layer_r0s", "layer_L0s", "wfs_wavelengths", "gs_positions", "layer_altitudes", "gs_altitudes", "subap_diameters"])
    if f == "layer_r0s":
        v = [r * rng.choice([0.5, 2.0, 1.3]) for r in cfg[f]]
    elif f == "layer_L0s":
        v = [rng.choice([10.0, 25.0, 50.0, 100.0]) for _ in cfg[f]]
    elif f == "wfs_wavelengths":
        v = [w * rng.choice([1.0, 2.0, 0.5]) for w in cfg[f]][::-1]
    elif f == "gs_positions":
        v = [[rng.uniform(-30, 30), rng.uniform(-30, 30)] for _ in cfg[f]]
    elif f == "layer_altitudes":
        v = [h + 250.0 for h in cfg[f]]
    elif f == "gs_altitudes":
        v = [90000.0 if a == 0 else 0 for a in cfg[f]]
    else:
        v = [d * 0.9 for d in cfg[f]]
    return ["C", f, v]


def n_tasks(cfg):
    return cfg["n_wfs"] * (cfg["n_wfs"] + 1) // 2


def same_bits(a, b):
    a, b = numpy.asarray(a), numpy.asarray(b)
    if a.shape != b.shape or a.dtype != b.dtype:
        return False
    return bool(numpy.array_equal(numpy.ascontiguousarray(a).view(numpy.uint8), numpy.ascontiguousarray(b).view(numpy.uint8)))


def first_diff(a, b):
    a, b = numpy.asarray(a), numpy.asarray(b)
    if a.shape != b.shape or a.dtype != b.dtype:
        return "shape/dtype %s %s vs %s %s" % (a.shape, a.dtype, b.shape, b.dtype)
    ai = numpy.ascontiguousarray(a).view("int%d" % (8 * a.dtype.itemsize))
    bi = numpy.ascontiguousarray(b).view("int%d" % (8 * b.dtype.itemsize))
    w = numpy.argwhere(ai != bi)
    if len(w) == 0:
        return "equal"
    i = tuple(int(x) for x in w[0])
    return "%d of %d entries differ; first at %s: %r vs %r" % (len(w), a.size, i, float(a[i]), float(b[i]))


# ------------------------------------------------------------------------------------------ references from a pristine process
def _build_sequence(seq):
    """in the CURRENT process: build every (mode, configuration) of `seq` in order ("mp": two workers under the controlled pool, in
    process); returns the last matrix"""
    out = None
    for mode, cfg in seq:
        if mode == "mp":
            with pool_patch(lambda p: ControlledPool(p, lambda n: list(range(n)))):
                out = make_obj(cfg, 2).make_covariance_matrix()
        else:
            out = make_obj(cfg, 1).make_covariance_matrix()
    return out


def _pristine_one(cfg, conn):
    try:
        conn.send(("ok", _build_sequence(cfg) if isinstance(cfg, list) else make_obj(cfg, 1).make_covariance_matrix()))
    except (OSError, MemoryError) as ex:          # infrastructure, not a verdict
        conn.send(("infra", "%s: %s" % (type(ex).__name__, ex)))
    except BaseException as ex:                   # noqa: B036 — whatever else happens is reported to the asking process
        conn.send(("err", "%s: %s" % (type(ex).__name__, ex)))
    finally:
        conn.close()


def _pristine_server(conn):
    ctx = multiprocessing.get_context("fork")
    try:
        sc_module()                               # imported (no call made), so that the per-request children need not import it
    except Exception:
        pass
    while True:
        try:
            msg = conn.recv()
        except (EOFError, OSError):
            return
        if msg is None:
            return
        ticket, cfg = msg
        a, b = ctx.Pipe(duplex=False)
        p = ctx.Process(target=_pristine_one, args=(cfg, b))
        p.start()
        b.close()
        try:
            out = a.recv()
        except (EOFError, OSError):
            out = ("infra", "the reference process died")
        p.join()
        a.close()
        conn.send((ticket, out))


class Pristine(object):
    """Single-process matrices of fresh objects computed in processes that have NEVER built anything: a server is forked from
    the harness before its first call into the library, and forks one short-lived child per request.  A reference computed
    inside the long-lived harness process shares module- and class-level state with every build made before it; if the
    library keeps such state (a memo keyed without one of the arguments, geometry remembered per class), that reference is
    wrong in the same way as the build it is compared with.  These are not."""

    def __init__(self):
        ctx = multiprocessing.get_context("fork")
        self.conn, child = ctx.Pipe()
        self.proc = ctx.Process(target=_pristine_server, args=(child,))
        self.proc.start()
        child.close()
        self.asked = 0
        self.answers = {}
        self.context = {}         # ticket -> (configuration, the configurations seen before it)
        self.searched = False

    def ask(self, cfg):
        """request the matrix (computed while the asking process goes on); returns a ticket for `answer`.  A list
        [(mode, configuration), …] asks for the LAST matrix of that sequence of builds made in one pristine process."""
        self.asked += 1
        self.conn.send((self.asked, cfg))
        if not isinstance(cfg, list):
            self.context[self.asked] = (cfg, [c for k, c in enumerate(BUILT[-60:]) if k == 0 or c is not BUILT[-60:][k - 1]])
        return self.asked

    def polluter(self, ticket, pristine_matrix):
        """which single earlier configuration, built first in an otherwise pristine process, changes the matrix of the ticket's
        configuration (searched once per run, most recent first; [] if none does alone)"""
        cfg, before = self.context.get(ticket, (None, []))
        if cfg is None or self.searched:
            return []
        self.searched = True
        for c in reversed(before):
            for mode in ("single", "mp"):
                status, val = self.answer(self.ask([(mode, c), ("single", cfg)]))
                if status == "infra":
                    return []
                if status != "ok" or not same_bits(val, pristine_matrix):
                    return [[mode, c]]
        return []

    def answer(self, ticket):
        while ticket not in self.answers:
            if not self.conn.poll(300):
                raise OSError("the pristine reference server does not answer")
            t, out = self.conn.recv()
            self.answers[t] = out
        return self.answers.pop(ticket)

    def close(self):
        try:
            self.conn.send(None)
            self.proc.join(10)
        except (OSError, ValueError):
            pass
        if self.proc.is_alive():
            self.proc.terminate()
            self.proc.join()
        self.conn.close()


PRISTINE = None


def ask_pristine(cfg):
    return PRISTINE.ask(cfg) if PRISTINE is not None else None


def against_pristine(ticket, ref, context):
    """[] if the in-process reference `ref` is the matrix a process that never built anything computes (asked for with
    `ask_pristine` before `ref` was computed, so that both run side by side), else one failure"""
    if PRISTINE is None or ticket is None:
        return []
    status, val = PRISTINE.answer(ticket)
    if status == "infra":
        raise OSError("pristine reference process: %s" % val)
    if status != "ok":
        return [("raises:fresh-process:" + context, "the single-process build of a fresh object succeeds in the long-lived process "
                 "but fails in a process that has not built anything before (%s)" % val)]
    if not same_bits(val, ref):
        what = ("the single-process matrix of a FRESH object computed in the long-lived process (after other builds, %s) differs from "
                "the one computed in a process that has not built anything before — state is carried over between objects: %s"
                % (context, first_diff(ref, val)))
        after = PRISTINE.polluter(ticket, val)
        if after:
            what += " [reproduced in a pristine process by first building (%s) a %s system]" % (after[0][0], cfg_class(after[0][1]))
            POLLUTER_OF[what] = after
        return [("fresh-object≠fresh-process:" + context, what)]
    return []


POLLUTER_OF = {}          # failure text -> [[mode, configuration]] to be built first when the failure is replayed


# ------------------------------------------------------------------------------------------ scenarios (oracle)
EDITS = ["scale2", "nan", "plus1", "zero-diagonal"]


def apply_edit(mat, how):
    """what a user may do to the matrix a build returned (it is also obj.covariance_matrix)"""
    if how == "scale2":
        mat *= 2
    elif how == "nan":
        mat[...] = numpy.nan
    elif how == "plus1":
        mat += 1
    elif how == "zero-diagonal":
        mat[numpy.diag_indices(min(mat.shape))] = 0


def run_history(cfg, scen, ref=None):
    """Run one scenario on ONE real object; returns (failures, outputs).  scen = {"threads0", "pool": "controlled"|"real",
    "pickled", "ops": [["T", k] | ["B", kind, seed] | ["E", how] | ["MP1"]], "delay_seed"}.
    A failure is (key, what, index of the op)."""
    sc = sc_module()
    if ref is None:
        ref = make_obj(cfg, 1).make_covariance_matrix()
    obj = make_obj(cfg, scen["threads0"])
    fails, outs = [], []
    observations = scen.setdefault("_observations", [])
    state = {"kind": "fifo", "seed": 0, "calls": 0}
    live = []

    def chooser(n):
        o = make_order(state["kind"], state["seed"], state["calls"], n)
        state["calls"] += 1
        return o

    def factory(processes):
        if scen.get("pool") == "real":
            # "fork" workers inherit the parent's memory (and the delay wrapper); "spawn" / "forkserver" workers import the
            # library afresh and see nothing the parent set up after import (the start method of Windows and macOS)
            p = multiprocessing.get_context(scen.get("start_method", "fork")).Pool(processes)
            live.append(p)
            return p
        return ControlledPool(processes, chooser, pickled=scen.get("pickled", True))

    attrs = {}
    if scen.get("pool") == "real" and scen.get("delay_seed") is not None:
        attrs["wfs_covariance"] = _Delayed(sc.wfs_covariance, scen["delay_seed"])
    prev_mode, edited, earlier, reconf, sibling = None, False, [], "", ""
    with pool_patch(factory), patched(**attrs):
        try:
            for n_op, op in enumerate(scen["ops"]):
                if op[0] == "T":
                    obj.threads = _int(cfg, op[1])
                elif op[0] == "C":
                    # the caller assigns new constructor attributes: from here on the reference is a FRESH object made with them
                    cfg = dict(cfg)
                    cfg[op[1]] = op[2]
                    setattr(obj, op[1], _field(cfg, op[1], op[2]))
                    ticket = ask_pristine(cfg)
                    ref = make_obj(cfg, 1).make_covariance_matrix()
                    reconf = ":after-reconfigure"
                    fails.extend((k, w, n_op) for k, w in against_pristine(ticket, ref, "reference-after-reconfigure:" + op[1]))
                elif op[0] == "CI":
                    # the caller writes new numbers INTO the array / list it gave to the constructor (the object holds that very
                    # container); where the container cannot be written (tuple, read-only array) it is re-assigned as in "C"
                    cfg = dict(cfg)
                    if _write_into(getattr(obj, op[1]), op[2]):
                        cfg[op[1]] = numpy.asarray(getattr(obj, op[1]), dtype=numpy.float64).tolist()
                        reconf = ":after-inplace-reconfigure"
                    else:
                        cfg[op[1]] = op[2]
                        setattr(obj, op[1], _field(cfg, op[1], op[2]))
                        reconf = ":after-reconfigure"
                    ticket = ask_pristine(cfg)
                    ref = make_obj(cfg, 1).make_covariance_matrix()
                    fails.extend((k, w, n_op) for k, w in against_pristine(ticket, ref, "reference%s:%s" % (reconf, op[1])))
                elif op[0] == "X":
                    # a SECOND instrument built in between: it is described by the same caller arrays as `obj` (the very objects),
                    # except argument op[1] (a fresh container holding op[2]; "none" = a twin) — its matrix must be the one a fresh
                    # single-process object made from the numbers alone gives, and `obj` must not notice
                    scfg = dict(cfg)
                    if op[1] != "none":
                        scfg[op[1]] = op[2]
                    ticket = ask_pristine(scfg)
                    sref = make_obj(scfg, 1).make_covariance_matrix()
                    fails.extend((k, w, n_op) for k, w in against_pristine(ticket, sref, "sibling-reference:" + ("twin" if op[1] == "none" else "differs-in-" + op[1])))
                    sib = make_obj(scfg, op[3], share=obj, fresh=(op[1],))
                    smode = "single" if op[3] == 1 else "mp"
                    state.update(kind=op[4], seed=op[5], calls=0)
                    what = "twin" if op[1] == "none" else "differs-in-" + op[1]
                    try:
                        sout = sib.make_covariance_matrix()
                    except (OSError, MemoryError):
                        raise
                    except Exception as ex:
                        fails.append(("raises:sibling:%s:%s:%s" % (smode, what, type(ex).__name__),
                                      "a second object sharing the caller's arrays with the first (%s; %s, threads=%s, schedule %s), built after "
                                      "%d build(s) of the first, raised %s: %s" % (what, smode, op[3], op[4:], len(outs), type(ex).__name__, ex), n_op))
                    else:
                        if not same_bits(sout, sref):
                            fails.append(("sibling:%s≠single:%s%s" % (smode, what, ":after-%s-build" % prev_mode if prev_mode else ""),
                                          "a second object sharing the caller's arrays with the first (%s; %s, threads=%s, schedule %s), built "
                                          "after %d build(s) of the first, differs from the single-process matrix of a fresh object made from "
                                          "the same numbers: %s" % (what, smode, op[3], op[4:], len(outs), first_diff(sout, sref)), n_op))
                    sibling = ":after-sibling-build"
                elif op[0] == "R":
                    # the sibling method that consumes the matrix (its result is not C03's subject; a NaN-edited matrix may not invert)
                    if outs and cfg["n_wfs"] >= 2:
                        try:
                            obj.make_tomographic_reconstructor(op[1])
                        except (OSError, MemoryError):
                            raise
                        except Exception:
                            pass
                elif op[0] == "E":
                    if outs:
                        apply_edit(outs[-1], op[1])
                        earlier[-1] = (outs[-1], outs[-1].copy())
                        edited = True
                elif op[0] in ("B", "MP1"):
                    state.update(kind=op[1] if len(op) > 1 else "fifo", seed=op[2] if len(op) > 2 else 0, calls=0)
                    mode = ("single" if obj.threads == 1 else "mp") if op[0] == "B" else "mp1"
                    try:
                        if op[0] == "B":
                            out = obj.make_covariance_matrix()
                        else:                   # the multi-process path with ONE worker (not reachable through `threads`)
                            obj._make_covariance_matrix_mp(1)
                            obj.covariance_matrix = sc.mirror_covariance_matrix(obj.covariance_matrix)
                            out = obj.covariance_matrix
                    except (OSError, MemoryError):
                        raise                   # infrastructure, not a verdict
                    except Exception as ex:     # the single-process build of a fresh object succeeded on this configuration
                        fails.append(("raises:%s:%s" % (mode if prev_mode is None else prev_mode + "→" + mode, type(ex).__name__),
                                      "build #%d (%s, threads=%s, schedule %s) raised %s: %s while the single-process build of a "
                                      "fresh object succeeds" % (len(outs), mode, obj.threads, op[1:] or "-", type(ex).__name__, ex), n_op))
                        prev_mode, edited = mode, False
                        continue
                    if not same_bits(out, ref):
                        if prev_mode is None:
                            key = "%s≠single:first-build" % mode
                        else:
                            key = "rebuild:%s→%s%s%s%s" % (prev_mode, mode, ":after-inplace-edit" if edited else "", reconf, sibling)
                        fails.append((key, "build #%d (%s, threads=%s, schedule %s) differs from the single-process matrix of a "
                                      "fresh object%s: %s" % (len(outs), mode, obj.threads, op[1:] or "-",
                                                               " made with the re-assigned attributes" if reconf else "",
                                                               first_diff(out, ref)), n_op))
                    for k, (arr, snap) in enumerate(earlier):
                        # not a violation of C03 by itself (a library may hand out one buffer): recorded as an observation;
                        # if the values handed out are wrong the comparison above fails
                        if arr is not out and not same_bits(arr, snap):
                            observations.append("build #%d wrote into the array returned by build #%d" % (len(outs), k))
                            earlier[k] = (arr, arr.copy())
                    outs.append(out)
                    earlier.append((out, out.copy()))
                    prev_mode, edited = mode, False
                else:
                    raise ValueError(op)
        finally:
            for p in live:
                p.terminate()
                p.join()
    return fails, outs


class _Delayed(object):
    """wfs_covariance with a pseudo-random pause before and after the computation (per task, per process) — only makes the
    OS schedule more varied; the value is the original function's"""

    def __init__(self, fn, seed):
        self.fn, self.seed = fn, seed

    def __call__(self, *args):
        h = hash((self.seed, os.getpid() % 7, int(args[0]), int(args[1]), float(numpy.sum(args[2])), float(args[6])))
        r = random.Random(h)
        time.sleep(r.choice([0, 0, 0.0005, 0.002, 0.004]))
        out = self.fn(*args)
        time.sleep(r.choice([0, 0, 0.0005, 0.003]))
        return out


def _write_into(container, value):
    """the caller overwrites the numbers of a container it owns, in place; False if that container cannot be written"""
    if isinstance(container, numpy.ndarray):
        if not container.flags.writeable:
            return False
        container[...] = numpy.array(value)
        return True
    if isinstance(container, list):
        if any(isinstance(x, tuple) for x in container):
            return False
        for k, v in enumerate(value):
            if isinstance(container[k], list):
                container[k][:] = list(v)
            elif isinstance(container[k], numpy.ndarray):
                container[k][...] = v
            else:
                container[k] = type(container[k])(v) if isinstance(container[k], int) and float(v).is_integer() else v
        return True
    return False


def gen_sibling(rng, cfg, tasks):
    """["X", argument, new value, threads, schedule kind, seed]"""
    f = rng.choice(["none", "gs_positions", "gs_positions", "pupil_masks", "pupil_masks", "layer_r0s", "wfs_wavelengths", "layer_altitudes"])
    if f == "none":
        v = None
    elif f == "pupil_masks":                     # the same numbers of sub-apertures in another arrangement
        v = []
        for m in cfg["pupil_masks"]:
            how = rng.choice(["rot180", "transpose", "flipud"])
            if how == "transpose" and len(m) == len(m[0]):
                v.append([list(r) for r in zip(*m)])
            elif how == "flipud":
                v.append([list(r) for r in m[::-1]])
            else:
                v.append([list(r[::-1]) for r in m[::-1]])
    elif f == "gs_positions":
        v = [[rng.uniform(-30, 30), rng.uniform(-30, 30)] for _ in cfg[f]]
    elif f == "layer_r0s":
        v = [r * 1.5 for r in cfg[f]]
    elif f == "wfs_wavelengths":
        v = [w * 2.0 for w in cfg[f]]
    else:
        v = [h + 250.0 for h in cfg[f]]
    return ["X", f, v, rng.choice([1, 2, 3, tasks + 1]), rng.choice(SCHED_KINDS), rng.randrange(10 ** 6)]


def gen_history(rng, n_ops, tasks, cfg=None, reconfigure=False):
    threads0 = rng.choice([1, 1, 2, 3, 4, 8, tasks + 3])
    ops, built = [], False
    cur = cfg
    for _ in range(n_ops):
        c = rng.random()
        if c < 0.27:
            ops.append(["T", rng.choice([1, 1, 2, 3, 5, 8, 2 * tasks, 4 * tasks + 1])])
        elif reconfigure and cur is not None and built and c < 0.52:
            ops.append(gen_reconfigure(rng, cur))
            if rng.random() < 0.5:               # the new numbers are written into the caller's container instead of re-assigned
                ops[-1][0] = "CI"
            cur = dict(cur)
            cur[ops[-1][1]] = ops[-1][2]
        elif c < 0.38 and built:
            ops.append(["E", rng.choice(EDITS)])
        elif c < 0.45 and built:
            ops.append(["MP1", rng.choice(SCHED_KINDS), rng.randrange(10 ** 6)])
        elif c < 0.55 and built and cur is not None:
            ops.append(gen_sibling(rng, cur, tasks))
        elif c < 0.60 and built:
            ops.append(["R", rng.choice([0, 0.01])])
        else:
            ops.append(["B", rng.choice(SCHED_KINDS), rng.randrange(10 ** 6)])
            built = True
    ops.append(["B", rng.choice(SCHED_KINDS), rng.randrange(10 ** 6)])
    return {"threads0": threads0, "pool": "controlled", "pickled": rng.random() < 0.8, "ops": ops}


def report(chk, cfg, scen, fails):
    obs = scen.pop("_observations", [])
    if obs and not any(n.startswith("observation: a later build wrote") for n in chk.notes):
        chk.notes.append("observation: a later build wrote into an array returned by an earlier build (e.g. %s, %s)" % (obs[0], cfg_class(cfg)))
    for key, what, n_op in fails:
        chk.fail(key, "%s [%s, %d ops]" % (what, cfg_class(cfg), len(scen["ops"])),
                 {"cfg": cfg, "scenario": dict(scen, ops=scen["ops"][:n_op + 1]), "key": key, "after": POLLUTER_OF.get(what, [])})


def exercise(chk, rng, cfg, it, quick, light=False):
    """everything the oracle does with ONE configuration under the controlled pool"""
    tasks = n_tasks(cfg)
    chk.count("oracle:" + cfg_class(cfg))
    if cfg.get("decor", "legacy") != "legacy":
        chk.count("held-as:" + cfg["decor"])
        chk.count("masks-as:" + cfg.get("mask_kind", "float"))
    ticket = ask_pristine(cfg)
    o1, o2 = make_obj(cfg, 1), make_obj(cfg, 1)
    ref = o1.make_covariance_matrix()
    chk.oracle_cases += 1
    chk.case(("oracle-ref", it), sample={"n_wfs": cfg["n_wfs"], "n_layers": cfg["n_layers"], "shape": list(ref.shape)} if it in (0, 1) else None)
    if not same_bits(ref, o2.make_covariance_matrix()):
        chk.fail("single≠single:two-fresh-objects", "two fresh single-process builds differ: %s" % cfg_class(cfg), {"cfg": cfg})
    for key, what in against_pristine(ticket, ref, "first-reference"):
        chk.fail(key, "%s [%s]" % (what, cfg_class(cfg)), {"cfg": cfg, "key": key, "after": POLLUTER_OF.get(what, [])})
    # fresh object, k workers, adversarial schedule
    for kind in (SCHED_KINDS if not (quick or light) else rng.sample(SCHED_KINDS, 2 if light and quick else 3)):
        k = rng.choice([2, 3, 4, 7, 8, tasks, 4 * tasks + 1])
        scen = {"threads0": max(k, 2), "pool": "controlled", "pickled": True, "ops": [["B", kind, rng.randrange(10 ** 6)]]}
        fails, _ = run_history(cfg, scen, ref)
        chk.oracle_cases += 1
        chk.case(("oracle-fresh", it, kind, k))
        chk.count("schedule:" + kind)
        report(chk, cfg, scen, fails)
    # MANY workers for few tasks (a pool larger than one layer's task list invites batching several layers per round; one as large
    # as the whole job — layers × pairs — invites queueing everything at once)
    many, whole = [2 * tasks, 3 * tasks + 1, 4 * tasks + 1], [cfg["n_layers"] * tasks, cfg["n_layers"] * tasks + 1]
    if cfg["n_layers"] <= 4:                      # then 4·tasks+1 workers already are as many as the whole job has tasks
        whole = []
    for k in ([rng.choice(many)] + whole[:1] if light and quick else many + whole):
        scen = {"threads0": max(k, 2), "pool": "controlled", "pickled": rng.random() < 0.5,
                "ops": [["B", rng.choice(SCHED_KINDS), rng.randrange(10 ** 6)], ["B", rng.choice(SCHED_KINDS), rng.randrange(10 ** 6)]]}
        fails, outs = run_history(cfg, scen, ref)
        chk.oracle_cases += len(outs)
        chk.case(("oracle-many-workers", it, k))
        chk.count("many-workers:layers%s" % (">=2" if cfg["n_layers"] >= 2 else "1"))
        report(chk, cfg, scen, fails)
    # a second and third build of the same object in every order of modes (first build already compared above)
    for modes in ((rng.choice(((1, 3), (3, 1))),) if light and quick else ((1, 1), (1, 3), (3, 1))):
        scen = {"threads0": modes[0], "pool": "controlled", "pickled": True,
                "ops": [["B", "random", rng.randrange(10 ** 6)], ["T", modes[1]], ["B", "random", rng.randrange(10 ** 6)],
                        ["B", "reverse", 0]]}
        fails, outs = run_history(cfg, scen, ref)
        chk.oracle_cases += len(outs)
        chk.case(("oracle-rebuild", it, modes))
        chk.count("rebuild-modes")
        report(chk, cfg, scen, fails)
    # a twin / a sibling object made from the same caller arrays, before and after builds of the first, in every pair of modes
    pairs = ((1, 2), (2, 2), (2, 1))
    for m0, m1 in ((rng.choice(pairs),) if quick else pairs):
        if quick and not light and isinstance(it, int) and it % 2:      # quick tier: every second general configuration (the histories
            break                                                       # below contain sibling builds as well)
        scen = {"threads0": m0, "pool": "controlled", "pickled": True,
                "ops": [["B", "random", rng.randrange(10 ** 6)], gen_sibling(rng, cfg, tasks)[:3] + [m1, "reverse", 0],
                        ["B", "random", rng.randrange(10 ** 6)]]}
        fails, outs = run_history(cfg, scen, ref)
        chk.oracle_cases += len(outs) + 1
        chk.case(("oracle-sibling", it, m0, m1, scen["ops"][1][1]))
        chk.count("sibling:" + scen["ops"][1][1])
        report(chk, cfg, scen, fails)
    # histories
    for h in range((1 if light else 2) if quick else 6):
        scen = gen_history(rng, rng.randint(3, 7 if quick else 12), tasks, cfg, reconfigure=(h % 2 == 1 or (light and quick and rng.random() < 0.5)))
        fails, outs = run_history(cfg, scen, ref)
        chk.oracle_cases += len(outs)
        chk.case(("oracle-history", it, h), sample={"history": scen["ops"][:6]} if it == 0 and h == 0 else None)
        chk.count("history-builds", len(outs))
        for code, name in (("C", "reconfigure"), ("CI", "inplace-reconfigure"), ("X", "sibling"), ("R", "reconstructor")):
            chk.count("history-%s-ops" % name, sum(1 for op in scen["ops"] if op[0] == code))
        report(chk, cfg, scen, fails)


def oracle(chk, quick):
    rng = chk.rng
    n_cfg = 24 if quick else 500
    for it in range(n_cfg):
        cfg = gen_config(rng, thorough=not quick, hetero=(it % 3 == 0))
        if it % 6 == 4 and cfg["n_layers"] >= 2:   # the layers not listed from the ground up
            cfg = shuffle_layers(rng, cfg)
        # how the caller holds the numbers: every fourth configuration single precision throughout, every fourth drawn from all
        # holdings (dtypes, containers, memory layouts, mask types, NumPy integers, entry point), the rest as in rounds 1-4
        cfg = decorate(rng, cfg, "f4-all" if it % 4 == 1 else None if it % 4 == 3 else "legacy")
        exercise(chk, rng, cfg, it, quick)
    # input classes the general generator never produces
    for n, kind in enumerate(SPECIALS * (1 if quick else 12)):
        cfg = decorate(rng, gen_special(rng, kind, not quick), None if n % 2 else "legacy")
        exercise(chk, rng, cfg, ("special", kind, n), quick, light=True)
        chk.count("special:" + kind)
    # a LONG life of one object: more builds than any per-object buffer is long, modes alternating irregularly
    for n in range(1 if quick else 10):
        cfg = decorate(rng, gen_config(rng, max_wfs=3), None)
        tasks = n_tasks(cfg)
        ops = []
        for _ in range(rng.choice([18, 20]) if quick else rng.choice([40, 65, 130])):
            if rng.random() < 0.5:
                ops.append(["T", rng.choice([1, 2, 3, tasks + 1])])
            ops.append(["B", rng.choice(SCHED_KINDS), rng.randrange(10 ** 6)])
        scen = {"threads0": rng.choice([1, 2]), "pool": "controlled", "pickled": True, "ops": ops}
        fails, outs = run_history(cfg, scen)
        chk.oracle_cases += len(outs)
        chk.case(("oracle-long-history", n, len(outs)))
        chk.count("long-history-builds", len(outs))
        report(chk, cfg, scen, [(k + ":long-history", wh, i) for k, wh, i in fails])
    # every completion order
    for n_wfs, limit in ((2, None), (3, 120 if quick else None)):
        cfg = gen_config(rng, n_wfs=n_wfs)
        cfg_small = dict(cfg)
        cfg_small["n_layers"] = 1 if n_wfs == 3 else min(cfg["n_layers"], 2)
        for f in ("layer_altitudes", "layer_r0s", "layer_L0s"):
            cfg_small[f] = cfg[f][:cfg_small["n_layers"]]
        ref = make_obj(cfg_small, 1).make_covariance_matrix()
        perms = list(itertools.permutations(range(n_tasks(cfg_small))))
        if limit is not None and len(perms) > limit:
            perms = rng.sample(perms, limit)
        for p in perms:
            scen = {"threads0": 2, "pool": "controlled", "pickled": False,
                    "ops": [["B", "explicit", [list(p)] * cfg_small["n_layers"]]]}
            fails, _ = run_history(cfg_small, scen, ref)
            chk.oracle_cases += 1
            chk.case(("oracle-allorders", n_wfs, p))
            report(chk, cfg_small, scen, fails)
        chk.count("all-orders:wfs%d" % n_wfs, len(perms))
    # real processes
    reals = [(1, 0), (2, 0), (3, 0), (4, 0), (8, 0)] if quick else [(w, r) for w in range(1, 9) for r in range(8)]
    for w, r in reals:
        cfg = decorate(rng, gen_config(rng, thorough=not quick, hetero=(w % 2 == 0)), "f4-all" if (w + r) % 4 == 3 else None if (w + r) % 4 == 0 else "legacy")
        ref = make_obj(cfg, 1).make_covariance_matrix()
        if w == 1:
            ops = [["B"], ["MP1"], ["T", 2], ["B"], ["MP1"]]
            scen = {"threads0": 1, "pool": "real", "delay_seed": rng.randrange(10 ** 6), "ops": ops}
        else:
            scen = {"threads0": w, "pool": "real", "delay_seed": rng.randrange(10 ** 6),
                    "ops": [["B"], ["T", 1], ["B"], ["T", w], ["B"], ["E", "nan"], ["B"]]}
        fails, outs = run_history(cfg, scen, ref)
        chk.oracle_cases += len(outs)
        chk.case(("oracle-realpool", w, r))
        chk.count("real-pool:workers%d" % w)
        report(chk, cfg, scen, [(k.replace("mp", "mp(real-pool)"), wh, n) for k, wh, n in fails])
    # real processes on the special classes: results of the large sensors exceed the 64 kB of a pipe buffer; many layers = many
    # rounds through one pool; many sensors = several tasks per chunk
    for n, (kind, w) in enumerate([("large", 3), ("many-layers", 2), ("many-wfs", 2)] * (1 if quick else 6)):
        cfg = decorate(rng, gen_special(rng, kind, not quick), None if n % 2 else "legacy")
        scen = {"threads0": w, "pool": "real", "delay_seed": rng.randrange(10 ** 6),
                "ops": [["B"], ["T", 1], ["B"]] + ([] if quick else [["T", w + 1], ["B"]])}
        fails, outs = run_history(cfg, scen)
        chk.oracle_cases += len(outs)
        chk.case(("oracle-realpool-special", kind, w, n))
        chk.count("real-pool:special:" + kind)
        report(chk, cfg, scen, [(k.replace("mp", "mp(real-pool)"), wh, i) for k, wh, i in fails])
    # workers that do NOT inherit the parent's memory (start methods spawn / forkserver: Windows, macOS, Python >= 3.14): they import
    # the library afresh, so nothing the parent computed or stored after import is visible to them except the pickled arguments
    starts = [("spawn", 2)] if quick else [("spawn", 2), ("spawn", 3), ("forkserver", 2), ("forkserver", 5)]
    for method, w in starts:
        cfg = decorate(rng, gen_config(rng, hetero=True, max_wfs=3), "f4-all" if w % 2 else None)
        scen = {"threads0": w, "pool": "real", "start_method": method, "delay_seed": None,
                "ops": [["B"], ["T", 1], ["B"]] + ([] if quick else [["T", w], ["B"]])}
        fails, outs = run_history(cfg, scen)
        chk.oracle_cases += len(outs)
        chk.case(("oracle-realpool-start-method", method, w))
        chk.count("real-pool:start-method:" + method)
        report(chk, cfg, scen, [(k.replace("mp", "mp(real-pool:%s)" % method), wh, i) for k, wh, i in fails])


# ------------------------------------------------------------------------------------------ correspondence 1: Pool.map
def corr_poolmap(chk, quick):
    rng = chk.rng
    lines, expect, descr = [], [], []
    # chunking: the model against a REAL pool's MapResult (no task is run: the iterable is mapped by `int`)
    combos = [(0, 1), (1, 1), (3, 2), (6, 2), (6, 1), (10, 3), (15, 8)] if quick else \
        [(n, w) for n in (0, 1, 2, 3, 5, 6, 10, 15, 21, 33) for w in (1, 2, 3, 4, 8)]
    real_pools = {}
    try:
        for n, w in combos:
            if w not in real_pools:
                real_pools[w] = multiprocessing.get_context("fork").Pool(w)
            res = real_pools[w].map_async(int, list(range(n)))
            cs, left = res._chunksize, (n // res._chunksize + bool(n % res._chunksize)) if res._chunksize else 0
            res.get(timeout=60)
            sizes = [len(t[1]) for t in multiprocessing.pool.Pool._get_tasks(int, list(range(n)), cs)]
            lines.append("C03 chunk %d %d" % (n, w))
            expect.append(" ".join(str(x) for x in [cs, left] + sizes))
            descr.append(("chunk", n, w))
    finally:
        for p in real_pools.values():
            p.terminate()
            p.join()
    # collection: the model against CPython's MapResult driven in adversarial completion orders
    for it in range(80 if quick else 1500):
        n, w = rng.choice([1, 2, 3, 6, 6, 10, 15, 21]), rng.choice([1, 2, 3, 4, 8])
        log = []
        kind = rng.choice(SCHED_KINDS)
        seed = rng.randrange(10 ** 6)
        drop = rng.random() < 0.25
        orders = []

        def chooser(nc, kind=kind, seed=seed, drop=drop, orders=orders):
            o = make_order(kind, seed, 0, nc)
            if drop and nc > 0:
                o = [k for k in o if k != seed % nc]
            orders.append(o)
            return o
        pool = ControlledPool(w, chooser, pickled=False, log=log)
        try:
            got = "ok " + " ".join(str(x) for x in pool.map(_f73, list(range(n))))
        except NeverReturns:
            got = "hang"
        lines.append("C03 map %d %d %s" % (w, n, " ".join(str(k) for k in orders[0])))
        expect.append(got.strip())
        descr.append(("map", n, w, kind, "incomplete" if drop else "complete"))
        chk.count("map:" + ("incomplete" if drop else kind))
    ans = common.run_driver(lines, "C03")
    for l, e, a, d in zip(lines, expect, ans, descr):
        chk.corr_cases += 1
        chk.case(("corr",) + d, sample={"op": l, "model": a, "cpython": e} if chk.corr_cases in (3, 12) else None)
        if a.strip() != e.strip():
            chk.broke("correspondence", "Pool.map model disagrees with CPython on `%s`: model %r, CPython %r" % (l, a, e))


def _f73(x):
    return 7 * x + 3


# ------------------------------------------------------------------------------------------ correspondence 2: tagged results
class Tagged(numpy.ndarray):
    """ndarray that remembers which wfs_covariance call produced it and reports what is done with it"""
    tag = None
    kind = None
    scale = None

    def __array_finalize__(self, obj):
        if obj is not None:
            self.tag = getattr(obj, "tag", None)
            self.kind = getattr(obj, "kind", None)
            self.scale = getattr(obj, "scale", None)

    def __array_ufunc__(self, ufunc, method, *inputs, out=None, **kwargs):
        src = [x for x in inputs if isinstance(x, Tagged)]
        plain = tuple(x.view(numpy.ndarray) if isinstance(x, Tagged) else x for x in inputs)
        if out is not None:
            outs = tuple(o.view(numpy.ndarray) if isinstance(o, Tagged) else o for o in out)
            tgt = outs[0]
            if src and ufunc is numpy.add and method == "__call__" and isinstance(tgt, numpy.ndarray) and tgt.base is not None \
                    and tgt.ndim == 2 and not isinstance(out[0], Tagged):
                base = tgt.base
                while getattr(base, "base", None) is not None and isinstance(base.base, numpy.ndarray):
                    base = base.base
                off = tgt.__array_interface__["data"][0] - base.__array_interface__["data"][0]
                ok = base.ndim == 2 and base.strides[1] == base.itemsize and tgt.strides == base.strides
                r0, c0 = (off // base.strides[0], (off % base.strides[0]) // base.strides[1]) if ok else (-1, -1)
                TRACE.append({"base": base, "r0": int(r0), "c0": int(c0), "h": int(tgt.shape[0]), "w": int(tgt.shape[1]),
                              "tag": src[-1].tag, "kind": src[-1].kind, "scale": src[-1].scale,
                              "operand": numpy.array(src[-1].view(numpy.ndarray), dtype=numpy.float64, copy=True),
                              "opdtype": str(src[-1].dtype)})
            res = getattr(ufunc, method)(*plain, out=outs, **kwargs)
            return out[0] if len(out) == 1 else res
        res = getattr(ufunc, method)(*plain, **kwargs)
        if isinstance(res, numpy.ndarray) and src:
            res = res.view(Tagged)
            res.tag, res.kind, res.scale = src[0].tag, src[0].kind, src[0].scale
            if ufunc is numpy.multiply and len(inputs) == 2:
                other = [x for x in inputs if not isinstance(x, Tagged)]
                if other and numpy.ndim(other[0]) == 0:
                    res.scale = float(other[0])
        return res


TRACE = []


class Tracer(object):
    """wfs_covariance that returns the real values, tagged with the task (layer, i, j) its ARGUMENTS describe"""

    def __init__(self, orig, obj, refgeom):
        self.orig, self.obj, self.refgeom = orig, obj, refgeom
        self.calls = []

    def identify(self, args):
        """which (layer, i, j) the argument tuple is, by identity with the object's CURRENT geometry lists; and whether the
        geometry it carries is bitwise the one a fresh object computes (g = 1) or not (g = 0)"""
        lp = getattr(self.obj, "subap_layer_positions", [])
        hit_i = [(l, i) for l, lst in enumerate(lp) for i, a in enumerate(lst) if a is args[2]]
        hit_j = [(l, j) for l, lst in enumerate(lp) for j, a in enumerate(lst) if a is args[3]]
        for (l, i) in hit_i:
            for (l2, j) in hit_j:
                if l == l2:
                    rp, rd = self.refgeom
                    fresh = (l < len(rp) and i < len(rp[l]) and j < len(rp[l]) and same_bits(args[2], rp[l][i])
                             and same_bits(args[3], rp[l][j])
                             and same_bits(numpy.float64(args[4]), numpy.float64(rd[l][i]))
                             and same_bits(numpy.float64(args[5]), numpy.float64(rd[l][j])))
                    return (1 if fresh else 0, l, i, j)
        return (0, 9, 9, 9)

    def __call__(self, *args):
        tid = self.identify(args)
        self.calls.append(tid)
        out = []
        res = self.orig(*args)
        if not isinstance(res, tuple):
            raise LookupError("wfs_covariance no longer returns a tuple of blocks")
        for n, r in enumerate(res):              # (cov_xx, cov_yy, cov_xy[, …]) — however many blocks the library returns
            if isinstance(r, numpy.ndarray):
                t = numpy.array(r, dtype=r.dtype).view(Tagged)
                t.tag, t.kind = tid, n
                out.append(t)
            else:
                out.append(r)
        return tuple(out)


def scribble(obj, rng):
    """leave garbage in every scratch attribute a build is modelled to re-initialise"""
    def junk(a):
        return numpy.full_like(numpy.asarray(a, dtype=float), 777.0 + rng.random())
    if hasattr(obj, "subap_positions"):
        obj.subap_positions = [junk(a) for a in obj.subap_positions] + [numpy.zeros((1, 2))]
    if hasattr(obj, "subap_layer_positions"):
        obj.subap_layer_positions = [[junk(a) for a in lst] for lst in obj.subap_layer_positions] + [[]]
    if hasattr(obj, "subap_layer_diameters"):
        obj.subap_layer_diameters = [[123.0 for _ in lst] for lst in obj.subap_layer_diameters]
    if hasattr(obj, "covariance_matrix"):
        obj.covariance_matrix[...] = 7.0
    obj.cov_mats = ["garbage"]


def groups_of(events):
    """consecutive `+=` events with the same source tag"""
    out = []
    for e in events:
        if out and out[-1][0]["tag"] == e["tag"] and out[-1][0]["base"] is e["base"]:
            out[-1].append(e)
        else:
            out.append([e])
    return out


def block_of(n_subaps, g):
    """(i, j) of the 2n_i × 2n_j block a group of rectangles lies in, and whether the rectangles tile it exactly"""
    offs = [0]
    for n in n_subaps:
        offs.append(offs[-1] + 2 * int(n))

    def which(x):
        for b in range(len(n_subaps)):
            if offs[b] <= x < offs[b + 1]:
                return b
        return 9
    e = g[0]
    i, j = which(e["r0"]), which(e["c0"])
    if i == 9 or j == 9:
        return 9, 9, False
    cover = numpy.zeros((offs[i + 1] - offs[i], offs[j + 1] - offs[j]), dtype=int)
    inside = True
    for e in g:
        r, c = e["r0"] - offs[i], e["c0"] - offs[j]
        if r < 0 or c < 0 or r + e["h"] > cover.shape[0] or c + e["w"] > cover.shape[1]:
            inside = False
            continue
        cover[r:r + e["h"], c:c + e["w"]] += 1
    return i, j, bool(inside and (cover == 1).all())


def corr_history(chk, quick):
    """the model's state machine (logging kernel) against the real object with tagged results, op for op"""
    sc = sc_module()
    rng = chk.rng
    lines, expect, descr, folds, hung = [], [], [], [], []
    for it in range(20 if quick else 400):
        cfg = gen_config(rng, thorough=not quick, max_wfs=3 if quick else 4)
        tasks = n_tasks(cfg)
        refobj = make_obj(cfg, 1)
        refmat = refobj.make_covariance_matrix()
        refgeom = (refobj.subap_layer_positions, refobj.subap_layer_diameters)
        # reference r0_scale per (layer, i, j) from a traced single build of a fresh object
        del TRACE[:]
        o = make_obj(cfg, 1)
        with patched(wfs_covariance=Tracer(sc.wfs_covariance, o, refgeom)):
            traced_ref = o.make_covariance_matrix()
        ref_events = list(TRACE)
        if not same_bits(traced_ref, refmat):
            chk.broke("correspondence", "tagging the wfs_covariance results changes the matrix (%s): %s"
                      % (cfg_class(cfg), first_diff(traced_ref, refmat)))
            continue
        ref_groups = groups_of(ref_events)
        ref_scale = [g[0]["scale"] for g in ref_groups]
        # a history
        threads0 = rng.choice([1, 1, 2, 3, 4, 0])
        ops, wire = [], []
        for _ in range(rng.randint(3, 8)):
            c = rng.random()
            if c < 0.3:
                ops.append(("T", rng.choice([1, 1, 2, 2, 3, 5, 8, 0, 4 * tasks + 1])))
            elif c < 0.45:
                ops.append(("S",))
            else:
                ops.append(("B", rng.choice(SCHED_KINDS), rng.randrange(10 ** 6), rng.random() < 0.1))
        ops.append(("B", rng.choice(SCHED_KINDS), rng.randrange(10 ** 6), False))
        obj = make_obj(cfg, threads0)
        tracer = Tracer(sc.wfs_covariance, obj, refgeom)
        state = {"hung": False}
        used = []

        def chooser(n):
            o_ = make_order(state["kind"], state["seed"], state["calls"], n)
            if state["drop"] and state["calls"] == state["drop_at"] and n > 0:
                o_ = [k for k in o_ if k != state["seed"] % n]
            state["calls"] += 1
            used.append(o_)
            return o_
        answers = []
        with pool_patch(lambda p: ControlledPool(p, chooser, pickled=False)), patched(wfs_covariance=tracer):
            for op in ops:
                if op[0] == "T":
                    obj.threads = op[1]
                    wire.append("T%d" % op[1])
                elif op[0] == "S":
                    scribble(obj, rng)
                    wire.append("S")
                else:
                    state.update(kind=op[1], seed=op[2], calls=0, drop=op[3], drop_at=rng.randrange(cfg["n_layers"]))
                    del used[:]
                    del TRACE[:]
                    try:
                        out, err = obj.make_covariance_matrix(), "raise"
                    except NeverReturns:
                        out, err = None, "raise"
                        state["hung"] = True
                    except ValueError as ex:
                        out, err = None, ("raise" if obj.threads == 0 else "raise:ValueError:%s" % str(ex)[:80].replace(" ", "_"))
                    except Exception as ex:
                        out, err = None, "raise:%s:%s" % (type(ex).__name__, str(ex)[:80].replace(" ", "_"))
                    wire.append("B" + "/".join(",".join(str(k) for k in o_) for o_ in used))
                    if out is None:
                        answers.append(err)
                        chk.count("hist-build:raise")
                        continue
                    chk.count("hist-build:" + ("single" if obj.threads == 1 else "mp"))
                    groups = groups_of(list(TRACE))
                    ents, tiled = [], True
                    for k, g in enumerate(groups):
                        bi, bj, t = block_of(obj.n_subaps, g)
                        tiled = tiled and t
                        lpos = k // tasks if tasks else 0
                        g_acc = 1 if (k < len(ref_scale) and g[0]["scale"] is not None and ref_scale[k] is not None
                                      and same_bits(numpy.float64(g[0]["scale"]), numpy.float64(ref_scale[k]))) else 0
                        ents.append("%d.%d.%d.%d<%d.%d.%d.%d" % ((g_acc, lpos, bi, bj) + tuple(g[0]["tag"])))
                    answers.append(" ".join(ents) if ents else "empty")
                    if not tiled:
                        chk.notes.append("C03: a build's `+=` rectangles do not tile their block exactly (%s)" % cfg_class(cfg))
                    # all `+=` of a build go into ONE fresh array, and the value returned is its mirror
                    bases = {id(e["base"]) for e in TRACE}
                    if len(bases) > 1:
                        chk.broke("correspondence", "one build accumulated into %d different arrays (%s)" % (len(bases), cfg_class(cfg)))
                    if tiled and TRACE and all(e["opdtype"] == "float64" for e in TRACE) and len(folds) < (6 if quick else 40) and obj.covariance_matrix.shape[0] <= 40:
                        folds.append((cfg, list(TRACE), out.copy()))
        lines.append("C03 hist %d %d %d %s" % (cfg["n_wfs"], cfg["n_layers"], threads0, " ".join(wire)))
        cm = getattr(obj, "cov_mats", [])
        if not isinstance(cm, (list, tuple)):
            cm = list(cm)
        if len(cm) == 1 and isinstance(cm[0], str) and cm[0] == "garbage":
            cm_s = "0.8.8.8"
        elif len(cm) == 0:
            cm_s = "none"
        else:
            cm_s = " ".join("%d.%d.%d.%d" % tuple(r[0].tag) if isinstance(r, tuple) and len(r) and isinstance(r[0], Tagged) else "?" for r in cm)
        expect.append((";".join(answers) if answers else "nobuild") + " # " + cm_s)
        hung.append(state.get("hung", False))
        descr.append(("hist", it, cfg_class(cfg), len(ops)))
    for cfg, events, out in folds:
        groups = groups_of(events)
        toks = ["C03 fold %d %d %d %d" % (out.shape[0], cfg["n_layers"], cfg["n_wfs"], len(groups))]
        for g in groups:
            toks.append("%d %d %d %d" % (g[0]["tag"][1], g[0]["tag"][2], g[0]["tag"][3], len(g)))
            for e in g:
                toks.append("%d %d %d %d" % (e["r0"], e["c0"], e["h"], e["w"]))
                toks.append(" ".join(common.f2h(x) for x in e["operand"].ravel()))
        lines.append(" ".join(toks))
        expect.append(out)
        descr.append(("fold", cfg_class(cfg), int(out.shape[0])))
    ans = common.run_driver(lines, "C03")
    for l, e, a, d in zip(lines, expect, ans, descr):
        chk.corr_cases += 1
        chk.case(("corr",) + d, sample={"op": l[:300], "model": a[:300], "real": e[:300]} if d[0] == "hist" and d[1] == 0 else None)
        chk.count("corr:" + d[0])
        if d[0] == "hist" and hung[d[1]]:
            # a `map` that never returns leaves a half-finished build behind; the model does not describe the content of
            # self.cov_mats after such a call (only that later builds do not depend on it)
            a, e = a.split(" # ")[0], e.split(" # ")[0]
        if d[0] == "fold":
            # the model's accumulated float32 matrix, passed through the library's own mirror_covariance_matrix (uninterpreted
            # in the model), must be the matrix the build returned — bit for bit
            try:
                acc = numpy.array([int(x) for x in a.split()], dtype=numpy.uint32).view(numpy.float32).reshape(e.shape)
                got = sc.mirror_covariance_matrix(acc)
            except Exception as ex:
                chk.broke("correspondence", "float32 replay: cannot mirror the model's matrix (%s): %s" % (d[1], ex))
                continue
            if not same_bits(numpy.asarray(got, dtype=e.dtype) if got.dtype == e.dtype else got, e):
                chk.broke("correspondence", "float32 replay of the recorded `+=` operands by the model (then the library's mirror) "
                          "differs from the real matrix (%s, N=%d): %s" % (d[1], d[2], first_diff(got, e)))
        elif a.strip() != e.strip():
            chk.broke("correspondence", "state-machine model and real object disagree on `%s`:\n model: %s\n real : %s"
                      % (l, a[:1500], e[:1500]))


# ------------------------------------------------------------------------------------------ static tie
def static_tie(chk):
    """the two copies of the assembly loop body (lines 163-191 and 218-246) must be the same statements, and the argument tuple
    packed for the pool the same expressions as the direct call's"""
    path = os.path.join(common.REPO, "aotools", "turbulence", "slopecovariance.py")
    try:
        tree = ast.parse(open(path).read())
        cls = [n for n in tree.body if isinstance(n, ast.ClassDef) and n.name == "CovarianceMatrix"][0]
        meth = {n.name: n for n in cls.body if isinstance(n, ast.FunctionDef)}
        s, m = meth["_make_covariance_matrix"], meth["_make_covariance_matrix_mp"]

        def inner_loops(fn):
            return [n for n in ast.walk(fn) if isinstance(n, ast.For) and isinstance(n.target, ast.Name) and n.target.id == "wfs_j"]
        s_loop = inner_loops(s)[0]
        m_loops = inner_loops(m)
        m_args = [l for l in m_loops if any(isinstance(x, ast.Call) and getattr(x.func, "attr", "") == "append" for x in ast.walk(l))][0]
        m_use = [l for l in m_loops if l is not m_args][0]
        s_body, m_body = list(s_loop.body), list(m_use.body)
        call = s_body[0].value
        if not (isinstance(s_body[0], ast.Assign) and isinstance(call, ast.Call) and getattr(call.func, "id", "") == "wfs_covariance"):
            raise LookupError("single path: first statement is not the wfs_covariance call")
        if not (isinstance(m_body[0], ast.Assign) and isinstance(m_body[0].value, ast.Subscript)):
            raise LookupError("mp path: first statement is not a read of cov_mats")
        if ast.dump(s_body[0].targets[0]) != ast.dump(m_body[0].targets[0]):
            chk.broke("translator", "the two paths unpack the task result differently")
        s_rest = [ast.dump(x) for x in s_body[1:]]
        m_rest = [ast.dump(x) for x in m_body[1:] if not (isinstance(x, ast.AugAssign) and getattr(x.target, "id", "") == "thread_n")]
        if s_rest != m_rest:
            n = next((k for k, (a, b) in enumerate(zip(s_rest, m_rest)) if a != b), min(len(s_rest), len(m_rest)))
            ln = (s_body[1:] + [s_body[-1]])[n].lineno
            chk.broke("translator", "the assembly statements of _make_covariance_matrix and _make_covariance_matrix_mp differ "
                      "(first difference at statement %d, near line %d): the model uses ONE `acc` for both paths" % (n, ln))
        app = [x for x in ast.walk(m_args) if isinstance(x, ast.Call) and getattr(x.func, "attr", "") == "append"][0]
        if [ast.dump(a) for a in app.args[0].elts] != [ast.dump(a) for a in call.args]:
            chk.broke("translator", "the argument tuple packed for pool.map differs from the arguments of the direct call")
        chk.notes.append("static tie: assembly loop bodies of both paths are identical statements (%d), argument tuples identical"
                         % len(s_rest))
    except (LookupError, IndexError, KeyError, AttributeError, OSError, SyntaxError) as ex:
        chk.notes.append("static tie not applicable to the current source layout (%s); the dynamic operation-log "
                         "correspondence covers both paths" % ex)


# ------------------------------------------------------------------------------------------ static tie 2: the field split
MUTATORS = {"append", "extend", "insert", "pop", "remove", "clear", "sort", "reverse", "fill", "resize", "put", "itemset",
            "update", "setdefault", "popitem", "partition", "setflags", "byteswap"}


class _Effects(object):
    """Definite-assignment analysis of the `self.X` attributes over the statements of a method (callees `self._m()` inlined,
    loops may run zero times, both arms of an `if` are followed): which attributes a build READS BEFORE IT ASSIGNS THEM
    (`inputs`), which it rebinds (`writes`) and which it changes in place, directly or through a local alias (`mutated`)."""

    def __init__(self, methods):
        self.methods = methods
        self.inputs, self.writes, self.mutated = set(), set(), set()
        self.stack = []

    @staticmethod
    def self_attr(node):
        if isinstance(node, ast.Attribute) and isinstance(node.value, ast.Name) and node.value.id == "self":
            return node.attr
        return None

    def root(self, node, taint):
        """the attribute (or tainted local) an lvalue/receiver expression is a view of, without any call in between"""
        while isinstance(node, (ast.Subscript, ast.Attribute)) and self.self_attr(node) is None:
            node = node.value
        a = self.self_attr(node)
        if a is not None:
            return a
        if isinstance(node, ast.Name):
            return taint.get(node.id)
        return None

    def reads(self, node, assigned, taint):
        for n in ast.walk(node):
            a = self.self_attr(n)
            if a is not None and isinstance(n.ctx, ast.Load):
                if a in self.methods:
                    continue
                if a not in assigned:
                    self.inputs.add(a)
            if isinstance(n, ast.Call):
                f = n.func
                if isinstance(f, ast.Attribute) and f.attr in MUTATORS:
                    r = self.root(f.value, taint)
                    if r is not None:
                        self.mutated.add(r)
        # inlined calls of the object's own methods, in source order
        for n in ast.walk(node):
            if isinstance(n, ast.Call) and self.self_attr(n.func) in self.methods and self.self_attr(n.func) not in self.stack:
                name = self.self_attr(n.func)
                self.stack.append(name)
                assigned |= self.block(self.methods[name].body, set(assigned), {}) - assigned
                self.stack.pop()

    def store(self, tgt, assigned, taint, value=None):
        if isinstance(tgt, (ast.Tuple, ast.List)):
            for t in tgt.elts:
                self.store(t, assigned, taint)
            return
        a = self.self_attr(tgt)
        if a is not None:
            assigned.add(a)
            self.writes.add(a)
            return
        if isinstance(tgt, ast.Name):
            src = None
            if value is not None and not any(isinstance(x, ast.Call) or isinstance(x, ast.BinOp) for x in ast.walk(value)):
                src = self.root(value, taint)
            if src is not None:
                taint[tgt.id] = src
            else:
                taint.pop(tgt.id, None)
            return
        if isinstance(tgt, (ast.Subscript, ast.Attribute)):
            self.reads(tgt.value, assigned, taint)
            if isinstance(tgt, ast.Subscript):
                self.reads(tgt.slice, assigned, taint)
            r = self.root(tgt, taint)
            if r is not None:
                self.mutated.add(r)

    def block(self, stmts, assigned, taint):
        for st in stmts:
            if isinstance(st, ast.Assign):
                self.reads(st.value, assigned, taint)
                for t in st.targets:
                    self.store(t, assigned, taint, st.value)
            elif isinstance(st, ast.AugAssign):
                self.reads(st.value, assigned, taint)
                a = self.self_attr(st.target)
                if a is not None:
                    if a not in assigned:
                        self.inputs.add(a)
                    self.writes.add(a)
                    assigned.add(a)
                else:
                    if not isinstance(st.target, ast.Name):
                        self.reads(st.target.value, assigned, taint)
                    r = self.root(st.target, taint)
                    if r is not None:
                        self.mutated.add(r)
            elif isinstance(st, (ast.For, ast.While)):
                if isinstance(st, ast.For):
                    self.reads(st.iter, assigned, taint)
                    inner_t = dict(taint)
                    src = self.root(st.iter, taint) if not any(isinstance(x, ast.Call) for x in ast.walk(st.iter)) else None
                    for n in ast.walk(st.target):
                        if isinstance(n, ast.Name):
                            if src is not None:
                                inner_t[n.id] = src
                            else:
                                inner_t.pop(n.id, None)
                else:
                    self.reads(st.test, assigned, taint)
                    inner_t = dict(taint)
                self.block(st.body, set(assigned), inner_t)
                self.block(st.orelse, set(assigned), dict(taint))
            elif isinstance(st, ast.If):
                self.reads(st.test, assigned, taint)
                a1 = self.block(st.body, set(assigned), dict(taint))
                a2 = self.block(st.orelse, set(assigned), dict(taint))
                assigned |= (a1 & a2)
            elif isinstance(st, (ast.With, ast.Try)):
                for item in getattr(st, "items", []):
                    self.reads(item.context_expr, assigned, taint)
                self.block(st.body, set(assigned), dict(taint))
                for h in getattr(st, "handlers", []):
                    self.block(h.body, set(assigned), dict(taint))
                self.block(getattr(st, "finalbody", []), set(assigned), dict(taint))
            elif isinstance(st, (ast.Expr, ast.Return)):
                if st.value is not None:
                    self.reads(st.value, assigned, taint)
            elif isinstance(st, ast.Delete):
                for t in st.targets:
                    a = self.self_attr(t)
                    if a is not None:
                        assigned.discard(a)
                        self.writes.add(a)
            elif isinstance(st, (ast.Pass, ast.Import, ast.ImportFrom, ast.Assert, ast.Raise, ast.Break, ast.Continue)):
                for n in ast.iter_child_nodes(st):
                    if isinstance(n, ast.expr):
                        self.reads(n, assigned, taint)
            else:
                raise LookupError("statement kind %s not handled by the effect analysis" % type(st).__name__)
        return assigned


def static_fields(chk):
    """the model splits an instance into constructor arguments (read by a build, never written) and scratch attributes (written
    by every build before it reads them).  Recompute that split from the source."""
    path = os.path.join(common.REPO, "aotools", "turbulence", "slopecovariance.py")
    try:
        tree = ast.parse(open(path).read())
        cls = [n for n in tree.body if isinstance(n, ast.ClassDef) and n.name == "CovarianceMatrix"][0]
        methods = {n.name: n for n in cls.body if isinstance(n, ast.FunctionDef)}
        ctor = _Effects(methods)
        ctor_assigned = ctor.block(methods["__init__"].body, set(), {})
        b = _Effects(methods)
        b.stack.append("make_covariance_matrix")
        b.block(methods["make_covariance_matrix"].body, set(), {})
    except (LookupError, IndexError, KeyError, AttributeError, OSError, SyntaxError) as ex:
        chk.broke("translator", "the effect analysis cannot read CovarianceMatrix.make_covariance_matrix: %s" % ex)
        return
    stale = sorted(b.inputs - ctor_assigned)
    if stale:
        chk.broke("translator", "make_covariance_matrix reads %s before assigning it and __init__ does not definitely assign it: "
                  "a value left by an earlier build can reach a later one (the model re-initialises every scratch attribute)"
                  % ", ".join("self." + a for a in stale))
    carried = sorted(b.inputs & (b.writes | b.mutated))
    if carried:
        chk.broke("translator", "make_covariance_matrix both reads %s as an input and modifies it: state is carried from one build "
                  "to the next (the model never writes the constructor arguments)" % ", ".join("self." + a for a in carried))
    chk.notes.append("static tie: a build reads as inputs {%s}, all definitely assigned by __init__ and never modified by a build; "
                     "it (re)assigns {%s} before reading them" % (", ".join(sorted(b.inputs)), ", ".join(sorted(b.writes))))
    chk.count("static:build-inputs", len(b.inputs))
    chk.count("static:build-scratch", len(b.writes))


# ------------------------------------------------------------------------------------------ entry points
def run(chk):
    quick = chk.tier == "quick"
    chk.rule = ("bitwise everywhere (no tolerance): model answers vs CPython MapResult / vs the operation log of the real object "
                "(integers) / vs the real float32 matrix (bit patterns); oracle: int32 views of real matrices equal across worker "
                "counts (2 … 4·tasks+1, i.e. also pools much larger than one layer's task list), schedules, rebuild histories "
                "(thread toggles, in-place edits of returned matrices, re-assigned constructor attributes — then against a fresh "
                "object made with the new attributes); every third configuration is heterogeneous (different sub-aperture sizes, "
                "off-axis NGS + LGS, >= 2 layers, one well above ground); distinct = distinct (configuration, schedule, history). "
                "Round 5: half of the configurations are HELD by the caller in other ways than lists / float64 arrays (every number "
                "float32; tuples; integer arrays / Python ints where integral; strided, negative-stride, Fortran, read-only, broadcast "
                "arrays; masks bool / int / uint8 / float32 / one 3-D array / strided / read-only; NumPy integers for n_wfs, n_layers, "
                "threads; package-level class names); special classes (32-52 sub-apertures per sensor, 9-35 layers, 6-8 sensors, a "
                "sensor with one sub-aperture, layers sharing altitude or turbulence, on-axis NGS, layers not listed from the ground "
                "up); histories also contain a SECOND object made from the very arrays of the first (twin / one argument differing, "
                "masks re-arranged), new numbers written INTO the caller's arrays, calls of make_tomographic_reconstructor, one long "
                "life of 18-130 builds; every reference computed in the long-lived harness process after other builds (first reference "
                "of a configuration, after reconfiguration, of a sibling) is compared bitwise with the matrix a process that never built "
                "anything computes; real pools also on the special classes and with the spawn / forkserver start methods")
    chk.assumptions = [
        "wfs_covariance, the four `+=` of one task and mirror_covariance_matrix are functions of their arguments "
        "(uninterpreted in the model; sampled by the oracle under permuted execution orders and across processes)",
        "the OS scheduler is abstracted to the completion order of Pool.map's chunks, each chunk completing once; "
        "CPython's MapResult slice assignment is modelled per chunk slot (checked against the real MapResult each run)",
        "pickling of arguments/results between processes preserves float64 bit patterns (sampled, not modelled)",
        "worker processes compute with the same libm/BLAS as the parent (fork, spawn, forkserver on this machine); cross-machine pools "
        "are outside the model",
        "state shared between OBJECTS (class or module level) is outside the Lean state machine (one object); it is sampled by the oracle: "
        "sibling objects sharing the caller's arrays, and references recomputed in a process that has not built anything",
        "`poolMap_eq` at workers = 0 holds only through Lean's n % 0 = n (no such pool exists: Pool(0) raises, `build` = none); the "
        "statement about CPython is `poolMap_eq_pos` / `chunkSize_spec` (workers >= 1)",
        "re-assigned constructor attributes between builds: `reconfigure_between_builds` is a corollary of `rebuild_idempotent` in the "
        "model (cfg is read afresh by every build); on the real object it is sampled by the oracle only (the Lean state-machine "
        "correspondence does not replay such histories); masks are not re-assigned (n_subaps is computed by the constructor)",
    ]
    global PRISTINE
    PRISTINE = Pristine()                         # forked BEFORE the first call into the library
    try:
        _run(chk, quick)
    finally:
        PRISTINE.close()
        chk.count("references-from-a-pristine-process", PRISTINE.asked)
        PRISTINE = None


def _run(chk, quick):
    chk.build_and_audit("AoVerif.Props.C03", "AoVerif.Props.C03", REQUIRED)
    static_tie(chk)
    static_fields(chk)
    for part in (corr_poolmap, corr_history):
        try:
            part(chk, quick)
        except common.LeanError as ex:
            chk.broke("correspondence", "the C03 driver does not build / run", str(ex))
        except (ValueError, TypeError, LookupError, AttributeError) as ex:
            # the instrumentation (tagged results, operation log) assumes the shape of the code the model mirrors; a library that
            # no longer has that shape is a broken correspondence, not an infrastructure failure — the oracle below still decides
            chk.broke("correspondence", "%s could not be carried out on this code: %s: %s" % (part.__name__, type(ex).__name__, ex))
    oracle(chk, quick)


def replay(rec):
    """./check C03 --replay file : re-run the recorded scenario on the real code"""
    global PRISTINE
    f = rec.get("failure")
    if not f or "cfg" not in f.get("replay", {}):
        print("nothing to replay on the real code (the record names a broken proof / correspondence obligation)")
        return 1
    cfg = f["replay"]["cfg"]
    scen = f["replay"].get("scenario") or {"threads0": 1, "pool": "controlled", "pickled": True, "ops": [["B", "fifo", 0]]}
    PRISTINE = Pristine()
    try:
        if f["replay"].get("after"):             # what this process had built before (found to matter when the failure was recorded)
            _build_sequence([(m, c) for m, c in f["replay"]["after"]])
        ticket = ask_pristine(cfg)
        ref = make_obj(cfg, 1).make_covariance_matrix()
        fails = [(k, w, 0) for k, w in against_pristine(ticket, ref, "first-reference")]
        more, outs = run_history(cfg, scen, ref)
        fails += more
    finally:
        PRISTINE.close()
        PRISTINE = None
    for key, what, n_op in fails:
        print("STILL FAILS [%s] %s" % (key, what))
    if not fails:
        print("the recorded scenario no longer fails (%d builds compared bitwise)" % len(outs))
    return 1 if fails else 0
