"""C19 — empirical estimators implement their definitions
(calculate_structure_function, calc_slope_temporalps, get_tps_time_axis)."""
import json
import math
from fractions import Fraction

import numpy

from .. import common

MANIFEST = {
    "text": "Lean 4 theorems over the real numbers about a hand-written model of the three estimators that includes the output "
            "buffer's allocation (lag loop over an arbitrary initial buffer; naive DFT; fftfreq): every lag j>=1 is the mean squared "
            "difference at shift j*step for every initial buffer, lag 0 is 0 for the zero-initialised buffer (and is the buffer's "
            "old content otherwise), ramp law a^2 (j step)^2, quadratic scaling, |DFT|^2 averaged over sub-apertures, Parseval in "
            "the returned half-spectrum form with the dropped bins explicit, a pure sinusoid occupies exactly its own bin, frequency "
            "axis k*frame_rate/n_frames - for all sizes, lags, steps and frame counts (induction/algebra, no enumeration). The model "
            "is tied to the source by a correspondence driver (same definitions at Float; bit-exact on integer-valued phases and on "
            "the frequency axis, 1e-9 on spectra) and a direct oracle on the real code with heap poisoning supplies failing inputs.",
    "note": "Trusted: Lean kernel + propext/Classical.choice/Quot.sound; Mathlib's Real.cos/sin/pi; numpy.fft.fft is modelled by the "
            "naive DFT (checked numerically per instance); numpy.empty is modelled as an arbitrary initial buffer; IEEE rounding and "
            "NumPy slicing/axis semantics are exercised by the correspondence only. 'Follows the analytic structure function on "
            "generated screens' is statistical and not carried.",
    "technique": "Lean 4 proof over a hand-written executable model + correspondence driver (Float) + oracle search on the real code",
}
REQUIRED = ["sf_size", "sf_def_any_buffer", "sf_def", "sf_zero_lag_is_buffer", "sf_zero_lag", "sf_zero_lag_fails_on_empty",
            "sf_ramp", "sf_quadratic", "msd_piston", "msd_nonneg",
            "tps_size", "tps_def", "tps_pinned_quartic", "tps_quadratic_fails_pinned", "tps_batch", "tps_quadratic", "tps_parseval_full", "tps_parseval", "tps_parseval_even",
            "tps_parseval_odd", "tps_sinusoid", "tps_sinusoid_peak", "tps_axis_size", "tps_axis", "fftfreq_eq",
            "sf_def_overlap", "sf_no_overlap"]
POISON = 7.0
# frame counts with a prime factor >= 13 (not 11-smooth: an FFT that pads to a "fast" length changes them) next to smooth ones
ROUGH_N = [13, 17, 19, 26, 34, 101, 1001, 23, 39, 58]
_VIA = [0]


def _entry(name):
    """the function under its module name, its sub-package re-export and its package-level re-export, in turn"""
    import aotools
    import aotools.turbulence
    from aotools.turbulence import slopecovariance as SC, temporal_ps as TP
    _VIA[0] += 1
    home = SC if name == "calculate_structure_function" else TP
    return getattr((home, aotools.turbulence, aotools)[_VIA[0] % 3], name)


def ulps(a, b):
    """distance of two finite floats in units of the last place of the larger one"""
    if a == b:
        return 0.0
    return abs(a - b) / math.ulp(max(abs(a), abs(b)))


# ------------------------------------------------------------------------------------------------ helpers
# round 5: the same VALUES held in the ways a caller may hold them (the property quantifies over all arrays, not over C-ordered
# float64 ones).  `relayout(a, label)` is deterministic, so a replay record (values + label) rebuilds the very same input.
LAYOUTS_2D = ["F", "rev", "readonly", "bcast-rows", "bcast-cols", "F-slice", "C-slice", "swapped", "T-of-C"]
LAYOUTS_ND = ["swap-last2", "F", "rev-frames", "rev-subaps", "readonly", "bcast-lead", "slice", "swapped"]
_LAYOUT = ["C"]


def relayout(a, label):
    """the array `a` (or, for the broadcast labels, its first row / column / item repeated) stored as `label` says"""
    if label == "C":
        return a
    if label == "F":
        return numpy.asfortranarray(a)
    if label == "rev":                       # negative strides on both axes
        return numpy.ascontiguousarray(a[::-1, ::-1])[::-1, ::-1]
    if label == "readonly":
        b = a.copy()
        b.setflags(write=False)
        return b
    if label == "bcast-rows":                # every row is the first row: stride 0 along the lag axis, all lags are 0
        return numpy.broadcast_to(a[:1, :].copy(), a.shape)
    if label == "bcast-cols":                # every column is the first column: stride 0 along axis 1
        return numpy.broadcast_to(a[:, :1].copy(), a.shape)
    if label == "F-slice":                   # a window of a larger Fortran-ordered buffer
        big = numpy.asfortranarray(numpy.zeros((a.shape[0] + 3, 2 * a.shape[1] + 1), dtype=a.dtype))
        big[2:2 + a.shape[0], 1:1 + 2 * a.shape[1]:2] = a
        return big[2:2 + a.shape[0], 1:1 + 2 * a.shape[1]:2]
    if label == "C-slice":                   # every second row / third column of a larger C-ordered buffer
        big = numpy.zeros((2 * a.shape[0], 3 * a.shape[1]), dtype=a.dtype)
        big[::2, 1::3] = a
        return big[::2, 1::3]
    if label == "swapped":                   # non-native byte order (data read from a big-endian file)
        return a.astype(a.dtype.newbyteorder(">"))
    if label == "T-of-C":                    # the transpose of a C-ordered (n1, n0) array
        return numpy.ascontiguousarray(a.T).T
    # ---- slope arrays (..., n_frames, n_subaps)
    if label == "swap-last2":
        return numpy.moveaxis(numpy.ascontiguousarray(numpy.moveaxis(a, -1, -2)), -1, -2)
    if label == "rev-frames":
        return numpy.ascontiguousarray(a[..., ::-1, :])[..., ::-1, :]
    if label == "rev-subaps":
        return numpy.ascontiguousarray(a[..., ::-1])[..., ::-1]
    if label == "bcast-lead":                # every item of the batch is the first item (stride 0 on the leading axes)
        return numpy.broadcast_to(a[(0,) * (a.ndim - 2)].copy(), a.shape) if a.ndim > 2 else a
    if label == "slice":
        big = numpy.zeros(a.shape[:-2] + (2 * a.shape[-2] + 1, a.shape[-1] + 2), dtype=a.dtype)
        big[..., 1::2, 1:-1] = a
        return big[..., 1::2, 1:-1]
    raise ValueError(label)


NP_INTS = ["int64", "int32", "int16", "uint8", "uint16", "uint32", "intp"]


def as_form(v, form):
    """a Python number re-typed as the NumPy scalar type `form` names (None / 'py' = unchanged)"""
    return v if (v is None or form in (None, "py")) else getattr(numpy, form)(v)


def xm_expected(n1, nb, step):
    """length documented by the code: int(min(nbOfPoint, shape[1]/step - 1)), nbOfPoint default shape[1]/4"""
    st = 1 if step is None else int(step)
    nbv = n1 / 4 if nb is None else nb
    return int(min(nbv, n1 / st - 1))


def poison_heap(xm, value):
    """make numpy.empty(xm) observable: fill and free buffers of the sizes the allocator may hand out next"""
    for size in {max(xm, 1), max(xm, 1) + 1, 2}:
        bufs = [numpy.full(size, value + k) for k in range(8)]
        del bufs


def call_sf(phase, nb, step, poison=POISON):
    kw = {}
    if nb is not None:
        kw["nbOfPoint"] = nb
    if step is not None:
        kw["step"] = step
    poison_heap(xm_expected(phase.shape[1], nb, step), poison)
    with numpy.errstate(all="ignore"):
        return _entry("calculate_structure_function")(phase, **kw)


def exact_lag_mean(rows, i):
    """mean over r < n0-i, all c of (p[r][c]-p[r+i][c])^2 as an exact Fraction (rows: lists of Fractions)"""
    n0, n1 = len(rows), len(rows[0])
    s = Fraction(0)
    for r in range(n0 - i):
        a, b = rows[r], rows[r + i]
        for c in range(n1):
            d = a[c] - b[c]
            s += d * d
    return s / ((n0 - i) * n1)


def rel_close(a, b, rtol, scale=0.0):
    if a != a or b != b:
        return (a != a) and (b != b)
    return abs(a - b) <= rtol * max(abs(a), abs(b), scale)


# ------------------------------------------------------------------------------------------------ oracles
def check_sf(phase, nb, step, exact):
    """the structure-function clauses on the REAL code for one input; returns [(key, what)]"""
    out = []
    before = phase.copy()
    sf = numpy.asarray(call_sf(phase, nb, step, POISON))
    if not numpy.array_equal(before, phase):
        out.append(("sf:mutates-input", "calculate_structure_function changed its phase argument"))
    st = 1 if step is None else int(step)
    n0, n1 = phase.shape
    if sf.ndim != 1:
        return out + [("sf:shape", "result has shape %s, not 1-D" % (sf.shape,))]
    want_len = xm_expected(n1, nb, step)
    if len(sf) != want_len:
        out.append(("sf:length", "result has %d entries, documented size int(min(nbOfPoint, shape[1]/step - 1)) = %d (shape %s "
                    "nbOfPoint=%r step=%r)" % (len(sf), want_len, phase.shape, nb, step)))
    f32 = phase.dtype.kind == "f" and phase.dtype.itemsize == 4
    if len(sf) > 0 and not (sf[0] == 0.0):
        out.append(("sf:lag0-nonzero", "sf[0]=%r (must be 0) for phase shape %s nbOfPoint=%r step=%r"
                    % (float(sf[0]), phase.shape, nb, step)))
    phase = before                     # every reference below is computed from the pre-call contents
    rows = [[Fraction(float(v)) for v in row] for row in phase.tolist()]
    for j in range(1, len(sf)):
        i = j * st
        if i >= n0:          # no overlapping rows: the definition has no value there (the code answers NaN)
            continue
        ref = exact_lag_mean(rows, i)
        got = float(sf[j])
        # exact inputs: the correctly rounded value up to 2 ulp (the sum is exact, the division may be done as a multiplication
        # by the reciprocal); float32 inputs are reduced in single precision by NumPy: 2e-5 (observed <= 1.9e-7 over 12 seeds)
        ok = rel_close(got, float(ref), 2e-5) if f32 else ((ulps(got, float(ref)) <= 2) if exact else rel_close(got, float(ref), 1e-12))
        if not ok:
            out.append(("sf:def:lag>=1", "sf[%d]=%r but mean((phase[:-%d]-phase[%d:])**2)=%r (shape %s nbOfPoint=%r step=%r)"
                        % (j, got, i, i, float(ref), phase.shape, nb, step)))
            break
    # same call again on a differently poisoned heap: no state may leak between calls
    sf2 = numpy.asarray(call_sf(phase, nb, step, POISON + 100.0))
    # (bit-identical where the arithmetic is exact; NumPy's reductions may differ in the last bits between two calls
    #  on Gaussian data because the temporaries land at differently aligned addresses)
    same = sf2.shape == sf.shape and (numpy.array_equal(sf, sf2, equal_nan=True) if (exact and not f32) else
                                      all(rel_close(float(p), float(q), 1e-5 if f32 else 1e-12) for p, q in zip(sf, sf2)))
    if not same:
        out.append(("sf:not-repeatable", "two identical calls returned different results (shape %s nbOfPoint=%r step=%r): %r vs %r"
                    % (phase.shape, nb, step, sf.tolist()[:4], sf2.tolist()[:4])))
    return out


def check_sf_quadratic(phase, nb, step, c):
    sf1 = numpy.asarray(call_sf(phase, nb, step))
    sf2 = numpy.asarray(call_sf(c * phase, nb, step))
    if sf1.shape != sf2.shape:
        return [("sf:quadratic", "shape changes under scaling")]
    for j in range(len(sf1)):
        if not rel_close(float(sf2[j]), c * c * float(sf1[j]), 1e-12):
            return [("sf:quadratic", "sf(c*phase)[%d]=%r but c^2*sf(phase)[%d]=%r (c=%r, shape %s nbOfPoint=%r step=%r)"
                     % (j, float(sf2[j]), j, c * c * float(sf1[j]), c, phase.shape, nb, step))]
    return []


def check_sf_ramp(n0, n1, a, offsets, nb, step, piston=0.0):
    """ramp of dyadic slope a along axis 0 plus dyadic column offsets plus a (large, integer) piston: every phase value, every
    difference, every square and every partial sum is exact in binary64, so a^2 (j step)^2 must come back to 2 ulp — also when the
    piston is 1e8 (an estimator that expands the square, mean(p^2 + q^2 - 2pq), cancels catastrophically there)"""
    phase = (a * numpy.arange(n0, dtype=float)[:, None] + numpy.asarray(offsets, dtype=float)[None, :]) + float(piston)
    sf = numpy.asarray(call_sf(phase, nb, step))
    st = 1 if step is None else int(step)
    for j in range(len(sf)):
        i = j * st
        if i >= n0:
            continue
        want = a * a * i * i
        if not (float(sf[j]) == float(sf[j]) and ulps(float(sf[j]), want) <= 2):          # a, offsets, piston dyadic: exact
            return [("sf:ramp" + (":piston" if piston else ""),
                     "ramp of slope %r%s, shape (%d,%d), nbOfPoint=%r step=%r: sf[%d]=%r, expected a^2 (j step)^2=%r"
                     % (a, " on a piston of %r" % piston if piston else "", n0, n1, nb, step, j, float(sf[j]), want))]
    return []


def check_sf_piston(phase, nb, step, piston, exact):
    """adding a constant to the phase does not change any difference: sf(phase + c) = sf(phase).  `exact`: phase and
    phase + c are integer-valued (every operation exact: 2 ulp); otherwise phase + c is rounded to ~|c|*1e-16, which moves
    the differences by that much: tolerance 1e-7 relative to the largest entry for |c| <= 1e6 (observed <= 1.4e-11 over 12 seeds)"""
    sf1 = numpy.asarray(call_sf(phase, nb, step))
    sf2 = numpy.asarray(call_sf(phase + piston, nb, step))
    if sf1.shape != sf2.shape:
        return [("sf:piston", "shape changes when a constant is added to the phase")]
    fin = numpy.isfinite(sf1)
    scale = float(numpy.abs(sf1[fin]).max()) if fin.any() else 0.0
    for j in range(len(sf1)):
        p, q = float(sf1[j]), float(sf2[j])
        if p != p and q != q:
            continue
        ok = (p == p and q == q) and ((ulps(p, q) <= 2) if exact else abs(p - q) <= 1e-7 * scale)
        if not ok:
            return [("sf:piston", "sf(phase + %r)[%d]=%r but sf(phase)[%d]=%r (shape %s nbOfPoint=%r step=%r)"
                     % (piston, j, q, j, p, phase.shape, nb, step))]
    return []


def check_sf_history(phase, nb, step, c):
    """the caller re-uses ITS array: sf(p), then p is overwritten in place (p *= c, c a power of two: exact), then sf(p) again
    on the same object at the same address with the same shape — the second answer must be the one of the new contents
    (c^2 times the first, to 2 ulp), and a third call after restoring the contents must reproduce the first"""
    p = numpy.array(phase, dtype=float, copy=True)
    s1 = numpy.array(call_sf(p, nb, step), dtype=float, copy=True)
    p *= c
    s2 = numpy.array(call_sf(p, nb, step), dtype=float, copy=True)
    p /= c
    s3 = numpy.array(call_sf(p, nb, step), dtype=float, copy=True)
    if s1.shape != s2.shape or s1.shape != s3.shape:
        return [("sf:history", "shape of the result changes between calls on the same array object")]
    for j in range(len(s1)):
        a, b, d = float(s1[j]), float(s2[j]), float(s3[j])
        if a != a and b != b and d != d:
            continue
        if not (a == a and b == b and d == d and ulps(b, c * c * a) <= 2 and ulps(d, a) <= 2):
            return [("sf:history", "same array object, contents multiplied in place by %r between two calls: sf[%d] = %r, then %r "
                     "(expected %r), then %r after restoring (shape %s nbOfPoint=%r step=%r): the result does not follow the "
                     "array's current contents" % (c, j, a, b, c * c * a, d, phase.shape, nb, step))]
    return []


def make_big_phase(seed, n0, n1, kind, layout):
    """a LARGE phase (tens of thousands to some 1e5 elements: beyond any small-array path), reproducible from the replay record;
    integer-valued kinds are exact in every operation of the definition"""
    g = numpy.random.default_rng(seed)
    if kind == "float":
        a = g.standard_normal((n0, n1)) * 3.0
    else:
        a = g.integers(-99, 100, size=(n0, n1)).astype(float)
        if kind == "int+1e8":
            a = a + 1e8
        elif kind == "int32":
            a = a.astype(numpy.int32)
        elif kind == "float32":
            a = a.astype(numpy.float32)          # integer-valued; NumPy reduces float32 in single precision: tolerance, not ulps
    return relayout(a, layout)


def check_sf_big(seed, n0, n1, kind, layout, nb, step):
    """the definition on a large array, reference by exact integer arithmetic (integer-valued kinds: 2 ulp) or by a float64
    evaluation of the definition on a C-ordered copy (Gaussian: 1e-11; observed <= 2.3e-16 over 12 seeds x 14 shapes; float32
    integer-valued: 1e-4, observed <= 1.5e-7)"""
    phase = make_big_phase(seed, n0, n1, kind, layout)
    before = phase.copy()
    sf = numpy.asarray(call_sf(phase, nb, step))
    out = []
    if not numpy.array_equal(before, phase):
        out.append(("sf:mutates-input", "calculate_structure_function changed its phase argument (shape %s)" % (phase.shape,)))
    want_len = xm_expected(n1, nb, step)
    if sf.ndim != 1 or len(sf) != want_len:
        return out + [("sf:length", "result has shape %s, documented size %d (shape %s nbOfPoint=%r step=%r)" % (sf.shape, want_len, phase.shape, nb, step))]
    if len(sf) and not (sf[0] == 0.0):
        out.append(("sf:lag0-nonzero", "sf[0]=%r (must be 0) for phase shape %s" % (float(sf[0]), phase.shape)))
    st = 1 if step is None else int(step)
    exact = kind in ("int", "int+1e8", "int32")
    ref_src = numpy.ascontiguousarray(before).astype(numpy.int64 if exact else float)
    for j in range(1, len(sf)):
        i = j * st
        if i >= n0:
            continue
        d = ref_src[:-i, :] - ref_src[i:, :]
        got = float(sf[j])
        if exact:
            want = float(Fraction(int((d * d).sum()), int(d.size)))
            ok = got == got and ulps(got, want) <= 2
        else:
            want = math.fsum((d * d).ravel().tolist()) / d.size
            ok = rel_close(got, want, 1e-4 if kind == "float32" else 1e-11)
        if not ok:
            out.append(("sf:def:lag>=1:large", "sf[%d]=%r but mean((phase[:-%d]-phase[%d:])**2)=%r (shape %s, %s, %s, nbOfPoint=%r step=%r)"
                        % (j, got, i, i, want, phase.shape, kind, layout, nb, step)))
            break
    return out


def check_sf_screens(cfg, seeds):
    """'applied to generated screens it follows the analytic structure function': the estimator averaged over len(seeds) seeded
    ft_sh_phase_screen realisations against structure_function_vk(j*step*delta, r0, L0) at a few lags, within +-25 % (the only
    place where the estimator's axis / pixel-scale convention meets the analytic curve).  Returns (fails, ratios)."""
    import aotools
    N, delta, r0, L0, step, nb, lags = cfg
    acc = 0.0
    for sd in seeds:
        scr = aotools.ft_sh_phase_screen(r0, N, delta, L0, 0.01, seed=sd)
        acc = acc + numpy.asarray(call_sf(scr, nb, step))
    sf = acc / len(seeds)
    out, ratios = [], []
    for j in lags:
        th = float(aotools.structure_function_vk(j * step * delta, r0, L0))
        ratios.append(float(sf[j]) / th)
        if not abs(ratios[-1] - 1.0) <= 0.25:
            out.append(("sf:screens", "mean over %d ft_sh_phase_screen(r0=%r, N=%d, delta=%r, L0=%r) screens: sf[%d] = %r (lag %d px = "
                        "%.3g m) but structure_function_vk gives %r (ratio %.3f, allowed 1 +- 0.25)"
                        % (len(seeds), r0, N, delta, L0, j, float(sf[j]), j * step, j * step * delta, th, ratios[-1])))
    return out, ratios


def naive_tps(x):
    """|DFT along axis -2|^2 averaged over the last axis, bins k < n//2, without numpy.fft"""
    n = x.shape[-2]
    k = numpy.arange(n // 2)[:, None]
    t = numpy.arange(n)[None, :]
    ang = -2.0 * numpy.pi * ((k * t) % max(n, 1)) / max(n, 1)
    w = numpy.cos(ang) + 1j * numpy.sin(ang)
    X = numpy.einsum("kt,...ts->...ks", w, x.astype(complex))
    return (X.real ** 2 + X.imag ** 2).mean(-1), X


def dft_bin(x, k):
    n = x.shape[-2]
    t = numpy.arange(n)
    ang = -2.0 * numpy.pi * ((k * t) % n) / n
    w = numpy.cos(ang) + 1j * numpy.sin(ang)
    return numpy.einsum("t,...ts->...s", w, x.astype(complex))


def _is_f32(x):
    return x.dtype.kind == "f" and x.dtype.itemsize == 4


def call_tps(x):
    with numpy.errstate(all="ignore"):
        m, e = _entry("calc_slope_temporalps")(x)
    return numpy.asarray(m), numpy.asarray(e)


def check_tps(x, c=2.0, bins=None):
    """`bins`: None = the definition at every returned bin (naive DFT, n^2 work); else the definition at these returned bins
    only (long records: the naive transform of every bin is too slow) — Parseval, scaling, batch are evaluated in full"""
    out = []
    before = x.copy()
    m, e = call_tps(x)
    if not numpy.array_equal(before, x):
        out.append(("tps:mutates-input", "calc_slope_temporalps changed its argument"))
    x = before                         # every reference below is computed from the pre-call contents
    m_again, _ = call_tps(x.copy())
    if m_again.shape != m.shape or not numpy.all(numpy.abs(m - m_again) <= (1e-4 if _is_f32(x) else 1e-12)
                                                   * float(numpy.abs(m).max() if m.size else 0.0)):
        out.append(("tps:not-repeatable", "two identical calls of calc_slope_temporalps returned different spectra (input shape %s)" % (x.shape,)))
    n, ns = x.shape[-2], x.shape[-1]
    want_shape = x.shape[:-2] + (n // 2,)
    if m.shape != want_shape:
        return out + [("tps:shape", "mean spectrum has shape %s, expected %s for input %s" % (m.shape, want_shape, x.shape))]
    if m.size == 0:
        return out
    # float32 slopes are transformed in single precision by numpy.fft: 1e-4 (observed <= 2.6e-7 over 12 seeds); else 1e-9
    T9, T12 = (1e-4, 1e-4) if _is_f32(x) else (1e-9, 1e-12)
    if bins is None:
        ref, _ = naive_tps(x)
        scale = float(numpy.abs(ref).max()) if ref.size else 0.0
        if not numpy.all(numpy.abs(m - ref) <= T9 * scale):
            idx = numpy.unravel_index(numpy.argmax(numpy.abs(m - ref)), m.shape)
            out.append(("tps:def", "mean_tps%s=%r but mean over sub-apertures of |DFT|^2 is %r (input shape %s)"
                        % ([int(i) for i in idx], float(m[idx]), float(ref[idx]), x.shape)))
    else:
        # the sampled bins always include the bin where the returned spectrum is largest, so `scale` is the spectrum's maximum
        # whenever the code is right
        ks = sorted(set(int(k) for k in bins if 0 <= int(k) < n // 2) | {int(numpy.argmax(m.reshape(-1, n // 2).max(0)))})
        refs = {k: (numpy.abs(dft_bin(x, k)) ** 2).mean(-1) for k in ks}
        scale = max(float(numpy.abs(r).max()) for r in refs.values())
        for k in ks:
            if not numpy.all(numpy.abs(m[..., k] - refs[k]) <= T9 * scale):
                out.append(("tps:def", "mean_tps[..., %d]=%r but mean over sub-apertures of |DFT|^2 is %r (input shape %s)"
                            % (k, numpy.ravel(m[..., k])[0].item(), numpy.ravel(refs[k])[0].item(), x.shape)))
                break
    # quadratic in amplitude
    m2, _ = call_tps(c * x)
    if not numpy.all(numpy.abs(m2 - c * c * m) <= T12 * max(c * c * float(numpy.abs(m).max()), 0.0)):
        idx = numpy.unravel_index(numpy.argmax(numpy.abs(m2 - c * c * m)), m.shape)
        out.append(("tps:quadratic", "tps(c*x)%s=%r but c^2*tps(x)=%r (c=%r, input shape %s)"
                    % (list(idx), float(m2[idx]), c * c * float(m[idx]), c, x.shape)))
    # Parseval, half-spectrum form: 2*sum_k P_k - P_0 + (dropped bins) = n * mean_s sum_t x^2
    if n % 2 == 0:
        dropped = (numpy.abs(dft_bin(x, n // 2)) ** 2).mean(-1)
    else:
        dropped = 2.0 * (numpy.abs(dft_bin(x, (n - 1) // 2)) ** 2).mean(-1) if n > 1 else 0.0
    lhs = 2.0 * m.sum(-1) - m[..., 0] + dropped
    rhs = n * (x.astype(float) ** 2).sum(-2).mean(-1)
    sc = float(numpy.abs(rhs).max())
    if not numpy.all(numpy.abs(lhs - rhs) <= T9 * sc):
        out.append(("tps:parseval", "2*sum(P)-P[0]+dropped bins = %r but n*mean_s(sum_t x^2) = %r (input shape %s)"
                    % (numpy.ravel(lhs)[0].item(), numpy.ravel(rhs)[0].item(), x.shape)))
    # leading axes are independent
    if x.ndim > 2:
        idx = tuple(0 if s == 1 else s - 1 for s in x.shape[:-2])
        mb, _ = call_tps(numpy.ascontiguousarray(x[idx]))
        if mb.shape != m[idx].shape or not numpy.all(numpy.abs(mb - m[idx]) <= T12 * scale):
            out.append(("tps:batch", "tps(x)[%s] differs from tps(x[%s]) (input shape %s)" % (idx, idx, x.shape)))
    return out


def check_tps_sinusoid(lead, n, ns, k0, amps, phis):
    """x[..., t, s] = A_s cos(2 pi k0 t / n + phi_s), 0 < k0 < n/2 : all power in bin k0, value n^2/4 mean(A^2)"""
    t = numpy.arange(n)[:, None]
    x = numpy.asarray(amps)[None, :] * numpy.cos(2 * numpy.pi * k0 * t / n + numpy.asarray(phis)[None, :])
    x = numpy.broadcast_to(x, tuple(lead) + x.shape).copy()
    m, _ = call_tps(x)
    if m.shape != tuple(lead) + (n // 2,):
        return [("tps:shape", "mean spectrum has shape %s for input %s" % (m.shape, x.shape))]
    peak = n * n / 4.0 * float(numpy.mean(numpy.asarray(amps) ** 2))
    mm = m.reshape(-1, n // 2)
    for row in mm:
        if int(numpy.argmax(row)) != k0:
            return [("tps:sinusoid-peak", "sinusoid at bin %d of %d frames: spectrum peaks at bin %d" % (k0, n, int(numpy.argmax(row))))]
        if not rel_close(float(row[k0]), peak, 1e-9):
            return [("tps:sinusoid-peak", "sinusoid at bin %d of %d frames: P[k0]=%r, expected n^2/4*mean(A^2)=%r"
                     % (k0, n, float(row[k0]), peak))]
        rest = numpy.delete(row, k0)
        if rest.size and float(numpy.abs(rest).max()) > 1e-9 * peak:
            return [("tps:sinusoid-peak", "sinusoid at bin %d of %d frames: leakage %r into another bin (peak %r)"
                     % (k0, n, float(numpy.abs(rest).max()), peak))]
    return []


def check_tps_history(x, c):
    """the caller's slope buffer re-used: tps(x); x *= c in place (c a power of two: the transform scales exactly); tps(x) on the
    same object must be c^2 times the first result; after restoring the contents, the first result again"""
    p = numpy.array(x, dtype=float, copy=True)
    m1 = call_tps(p)[0].copy()
    p *= c
    m2 = call_tps(p)[0].copy()
    p /= c
    m3 = call_tps(p)[0].copy()
    sc = float(numpy.abs(m1).max()) if m1.size else 0.0
    if m1.shape != m2.shape or not numpy.all(numpy.abs(m2 - c * c * m1) <= 1e-12 * c * c * sc) or not numpy.all(numpy.abs(m3 - m1) <= 1e-12 * sc):
        return [("tps:history", "same slope array object, contents multiplied in place by %r between two calls: the second spectrum is "
                 "not %r times the first (or the third, after restoring, not the first); input shape %s" % (c, c * c, x.shape))]
    return []


def check_plot_tps(x, fr):
    """plot_tps is a third way into both estimators: what it returns must be what the two functions return for its arguments
    (3-D slope data: it draws one line per leading item)"""
    import matplotlib
    matplotlib.use("Agg", force=True)
    from matplotlib import pyplot
    import aotools.turbulence.temporal_ps as TP
    import contextlib
    import io
    before = x.copy()
    try:
        with numpy.errstate(all="ignore"), contextlib.redirect_stdout(io.StringIO()), contextlib.redirect_stderr(io.StringIO()):
            res = TP.plot_tps(x, fr)
    finally:
        pyplot.close("all")
    out = []
    if not numpy.array_equal(before, x):
        out.append(("tps:mutates-input", "plot_tps changed its slope_data argument"))
    n = x.shape[-2]
    m, e = call_tps(before)
    if len(res) != 3 or numpy.shape(res[0]) != m.shape or not numpy.all(numpy.abs(numpy.asarray(res[0]) - m) <= 1e-12 * float(numpy.abs(m).max())):
        out.append(("tps:plot_tps", "plot_tps(x, %r) does not return calc_slope_temporalps(x) as its first value (input shape %s)" % (fr, x.shape)))
    elif numpy.shape(res[2]) != (n // 2,) or not numpy.all(numpy.abs(numpy.asarray(res[2]) - numpy.arange(n // 2) * float(fr) / n)
                                                           <= 1e-12 * numpy.arange(n // 2) * float(fr) / n):
        out.append(("tps:plot_tps", "plot_tps(x, %r) returns a frequency axis %r..., expected k*frame_rate/n_frames with n_frames=%d"
                    % (fr, numpy.ravel(res[2])[:3].tolist(), n)))
    return out


# round 5: forms in which a caller may hold the two arguments of get_tps_time_axis.  n_frames: Python int or a NumPy integer
# (e.g. numpy.int32 from a FITS header); frame_rate: Python int / float, NumPy scalars, a 0-d array.
# Left out (documented, not in the domain): n_frames as numpy.uint64 (numpy.fft.fftfreq raises OverflowError on -(n//2)), float or
# bool n_frames (fftfreq: "n should be an integer"); float32 / float16 frame rates give the axis to single / half precision
# (3.5e-9 / 1.2e-4 relative): a precision wart, not checked.
N_FORMS = ["py", "py", "int64", "int32", "int16", "uint16", "uint32", "intp", "uint8", "int8"]
FR_FORMS = ["py", "py", "float64", "int64", "int32", "uint16", "uint8", "0d"]


def check_axis(fr, n, nform="py", frform="py"):
    nn = as_form(n, nform)
    ff = numpy.array(float(fr)) if frform == "0d" else as_form(fr, frform)
    ax = numpy.asarray(_entry("get_tps_time_axis")(ff, nn))
    tag = "" if (nform, frform) == ("py", "py") else " [n_frames as %s, frame_rate as %s]" % (nform, frform)
    if ax.shape != (n // 2,):
        return [("tps:axis", "get_tps_time_axis(%r,%d)%s has shape %s, expected (%d,)" % (fr, n, tag, ax.shape, n // 2))]
    want = numpy.array([k * float(fr) / n for k in range(n // 2)]) if n <= 400 else numpy.arange(n // 2) * float(fr) / n
    bad = numpy.nonzero(~(numpy.abs(ax.astype(float) - want) <= 1e-12 * numpy.abs(want)))[0]
    if bad.size:
        k = int(bad[0])
        return [("tps:axis", "get_tps_time_axis(%r,%d)%s[%d]=%r, expected k*frame_rate/n_frames=%r"
                 % (fr, n, tag, k, float(ax[k]), float(want[k])))]
    # history: the caller rescales / edits the axis it was given (rad/s, a log axis) and asks for the same axis again later
    got = _entry("get_tps_time_axis")(ff, nn)
    if isinstance(got, numpy.ndarray) and got.size and got.flags.writeable:
        got *= 2 * numpy.pi
        got[0] = -1.0
        again = numpy.asarray(_entry("get_tps_time_axis")(ff, nn), dtype=float)
        if again.shape != want.shape or not (numpy.abs(again - want) <= 1e-12 * numpy.abs(want)).all():
            return [("tps:axis:history", "get_tps_time_axis(%r,%d)%s called again after the caller rescaled the array returned by the first call: "
                     "[0]=%r, [-1]=%r, expected %r, %r" % (fr, n, tag, float(again[0]) if again.size else None,
                                                             float(again[-1]) if again.size else None, float(want[0]), float(want[-1])))]
    return []


# ------------------------------------------------------------------------------------------------ generators
EXACT_KINDS = ("int", "intdtype", "dyadic", "int+1e8", "int32", "int16", "uint8", "int*2^60", "int*2^-60")


def gen_phase(rng, big):
    """-> kind, phase, nbOfPoint, step; the layout label of the phase is left in _LAYOUT[0] (replay: relayout(values, label)),
    nbOfPoint / step may be NumPy integer scalars (replay: their type names in _FORMS)"""
    kind = rng.choice(["int", "int", "dyadic", "float", "intdtype", "float32", "int+1e8", "float+1e6",
                       "int32", "int16", "uint8", "int*2^60", "int*2^-60"])
    hi = 40 if big else 14
    n0, n1 = rng.randint(1, hi), rng.randint(1, hi)
    if rng.random() < 0.3:
        n0 = n1
    if kind == "int":
        a = numpy.array([[float(rng.randint(-9, 9)) for _ in range(n1)] for _ in range(n0)]).reshape(n0, n1)
    elif kind == "intdtype":
        a = numpy.array([[rng.randint(-9, 9) for _ in range(n1)] for _ in range(n0)], dtype=numpy.int64).reshape(n0, n1)
    elif kind in ("int32", "int16"):
        hi = 9 if rng.random() < 0.5 else (30000 if kind == "int16" else 10 ** 6)          # beyond ±181 / ±46340: squares leave the dtype
        a = numpy.array([[rng.randint(-hi, hi) for _ in range(n1)] for _ in range(n0)], dtype=kind).reshape(n0, n1)
    elif kind == "uint8":
        # full-range narrow integers (finding sf:integer-dtype-overflow, fixed by b32d7a3: the squared differences overflowed in the
        # dtype of the phase array); exact: every difference is an integer below 2^8, every square below 2^16
        a = numpy.array([[rng.randint(0, 255) for _ in range(n1)] for _ in range(n0)], dtype=numpy.uint8).reshape(n0, n1)
    elif kind == "dyadic":
        a = numpy.array([[common.dyadic(rng, -8, 8) for _ in range(n1)] for _ in range(n0)]).reshape(n0, n1)
    elif kind == "int+1e8":       # a large piston under integer structure: every operation of the definition stays exact
        a = numpy.array([[float(rng.randint(-9, 9)) for _ in range(n1)] for _ in range(n0)]).reshape(n0, n1) + 1e8
    elif kind in ("int*2^60", "int*2^-60"):       # huge / tiny phase units (an absolute floor or offset shows only here); exact
        a = numpy.array([[float(rng.randint(-9, 9)) for _ in range(n1)] for _ in range(n0)]).reshape(n0, n1) * 2.0 ** (60 if kind == "int*2^60" else -60)
    elif kind == "float32":
        a = numpy.array([[rng.gauss(0, 3) for _ in range(n1)] for _ in range(n0)], dtype=numpy.float32).reshape(n0, n1)
    elif kind == "float+1e6":     # Gaussian structure on a large mean (unwrapped phase far from zero)
        a = numpy.array([[rng.gauss(0, 3) for _ in range(n1)] for _ in range(n0)]).reshape(n0, n1) + 1e6
    else:
        a = numpy.array([[rng.gauss(0, 3) for _ in range(n1)] for _ in range(n0)]).reshape(n0, n1)
    _LAYOUT[0] = "C"
    if rng.random() < 0.35:                # the same values in another memory layout / as a view / read-only / byte-swapped
        _LAYOUT[0] = rng.choice(LAYOUTS_2D)
        a = relayout(a, _LAYOUT[0])
    nb = None if rng.random() < 0.4 else rng.randint(0, n1 + 2)
    _FORMS[0] = _FORMS[1] = "py"
    if nb is not None and rng.random() < 0.15:
        nb = nb + rng.choice([0.0, 0.25, 0.5])          # a float nbOfPoint (the default, shape[1]/4, is one)
    elif nb is not None and rng.random() < 0.15:
        _FORMS[0] = rng.choice(NP_INTS)                 # a NumPy integer scalar (e.g. taken from a shape computation or a header)
        nb = as_form(nb, _FORMS[0])
    r = rng.random()
    step = None if r < 0.35 else (float(rng.randint(1, 3)) if r < 0.45 else rng.randint(1, max(1, min(5, n1))))
    if r >= 0.45 and rng.random() < 0.1:
        step = rng.randint(1, n1 + 1)                   # steps up to and beyond the array width (few or no lags left)
    if r >= 0.45 and rng.random() < 0.15:
        _FORMS[1] = rng.choice(NP_INTS)
        step = as_form(step, _FORMS[1])
    return kind, a, nb, step


_FORMS = ["py", "py"]


def py_num(v):
    """a NumPy scalar as the Python number of the same value (for replay records)"""
    return v.item() if isinstance(v, numpy.generic) else v


def gen_slopes(rng, big, n=None):
    """-> kind, slopes; the layout label is left in _LAYOUT[0]"""
    kind = rng.choice(["int", "float", "intdtype", "float32", "int32", "uint8", "int*2^40", "int*2^-40"])
    lead = rng.choice([(), (), (rng.randint(1, 3),), (rng.randint(1, 2), rng.randint(1, 3)), (rng.choice([3, 5, 7]),)])
    if n is None:
        n = rng.randint(1, 48 if big else 20)
    elif n > 200:
        lead = ()
    ns = rng.randint(1, 6)
    shape = tuple(lead) + (n, ns)
    size = int(numpy.prod(shape))
    if kind == "int":
        x = numpy.array([float(rng.randint(-9, 9)) for _ in range(size)]).reshape(shape)
    elif kind in ("intdtype", "int32"):
        x = numpy.array([rng.randint(-9, 9) for _ in range(size)], dtype=numpy.int64 if kind == "intdtype" else numpy.int32).reshape(shape)
    elif kind == "uint8":             # raw detector counts
        x = numpy.array([rng.randint(0, 255) for _ in range(size)], dtype=numpy.uint8).reshape(shape)
    elif kind in ("int*2^40", "int*2^-40"):      # slopes in huge / tiny units (nanoradians vs. counts): scaling by 2^k is exact
        x = numpy.array([float(rng.randint(-9, 9)) for _ in range(size)]).reshape(shape) * 2.0 ** (40 if kind == "int*2^40" else -40)
    elif kind == "float32":
        x = numpy.array([rng.gauss(0, 2) for _ in range(size)], dtype=numpy.float32).reshape(shape)
    else:
        x = numpy.array([rng.gauss(0, 2) for _ in range(size)]).reshape(shape)
    _LAYOUT[0] = "C"
    if rng.random() < 0.35:                # non-contiguous / Fortran-ordered / reversed / read-only / broadcast / byte-swapped
        _LAYOUT[0] = rng.choice(LAYOUTS_ND)
        x = relayout(x, _LAYOUT[0])
    return kind, x


AMP_KINDS = ["random", "ramp", "xy", "few-hot"]


def sub_amps(g, ns, akind):
    """per-sub-aperture signal levels (illumination / x-vs-y differences: no two sub-apertures of a real WFS see the same power)"""
    if akind == "random":
        return 10 ** g.uniform(-1, 1, ns)
    if akind == "ramp":
        return numpy.linspace(0.5, 5.0, ns)
    if akind == "xy":              # all X slopes first, then all Y slopes (the documented layout), different power in the two halves
        a, b = g.uniform(0.5, 5.0, 2)
        return numpy.where(numpy.arange(ns) < ns // 2, a, b)
    if akind == "few-hot":         # a handful of sub-apertures carries nearly all the power
        A = numpy.full(ns, 0.1)
        A[g.choice(ns, size=max(1, min(ns, 1 + ns // 50)), replace=False)] = 10.0
        return A
    raise ValueError(akind)


def make_slopes(seed, lead, n, ns, akind, kind):
    """slopes of shape lead + (n, ns), reproducible from the replay record: unit noise (Gaussian, or integers -9..9) times
    the per-sub-aperture level"""
    g = numpy.random.default_rng(seed)
    A = sub_amps(g, ns, akind)
    shape = tuple(lead) + (n, ns)
    if kind == "int":
        return g.integers(-9, 10, size=shape).astype(float) * numpy.rint(2 * A)
    return g.standard_normal(shape) * A


# ------------------------------------------------------------------------------------------------ correspondence
def sf_line(op, a, nb, step, extra=()):
    st = "-" if step is None else str(int(step))
    # a float nbOfPoint >= 0 enters only through int(min(nbOfPoint, ...)); truncation commutes with min, the model takes int(nb)
    return "C19 %s %d %d %s %s %s" % (op, a.shape[0], a.shape[1], "-" if nb is None else int(nb), st,
                                      " ".join([common.f2h(v) for v in extra] + [common.f2h(v) for v in a.ravel()]))


def parse_ans(a):
    t = a.split()
    if not t or t[0] == "bad-op":
        return None
    n = int(t[0])
    vals = [common.h2f(v) for v in t[1:]]
    return vals if len(vals) == n else None


def correspondence(chk, n_sf, n_tps, n_axis, xm_hi, nmax=16):
    rng = chk.rng
    lines, expect = [], []

    def real(what, fn, *args, **kw):
        """the real code on an in-domain input; an exception is a broken tie (the oracle then looks for the input)"""
        try:
            with numpy.errstate(all="ignore"):
                return fn(*args, **kw)
        except Exception as ex:
            chk.broke("correspondence", "real code raised %s on %s: %s" % (type(ex).__name__, what, str(ex)[:200]))
            return None

    # structure function: same inputs through the real code and the Float model
    for _ in range(n_sf):
        kind, a, nb, step = gen_phase(rng, False)
        r = real("calculate_structure_function shape %s nb=%r step=%r" % (a.shape, nb, step), call_sf, a, nb, step)
        if r is None:
            continue
        impl = [float(v) for v in numpy.asarray(r)]
        lines.append(sf_line("sf", a.astype(float), nb, step))
        expect.append(("sf", kind, impl, {"shape": a.shape, "nb": nb, "step": step, "phase": a.tolist()}))
    # the buffer really is the only source of lag 0: model on an arbitrary buffer u
    for _ in range(4):
        kind, a, nb, step = gen_phase(rng, False)
        xm = xm_expected(a.shape[1], nb, step)
        u = [float(rng.randint(1, 99)) for _ in range(xm)]
        r = real("calculate_structure_function shape %s nb=%r step=%r" % (a.shape, nb, step), call_sf, a, nb, step)
        if r is None:
            continue
        impl = [float(v) for v in numpy.asarray(r)]
        lines.append("C19 sfu %d %d %s %s %d %s" % (a.shape[0], a.shape[1], "-" if nb is None else int(nb),
                                                    "-" if step is None else str(int(step)), xm,
                                                    " ".join([common.f2h(v) for v in u] + [common.f2h(v) for v in a.astype(float).ravel()])))
        expect.append(("sfu", kind, (u[:1] + impl[1:]), {"shape": a.shape, "nb": nb, "step": step}))
    # output length (float arithmetic of the code vs natural-number arithmetic of the model)
    from aotools.turbulence import slopecovariance as SC
    combos = []
    for n1 in range(1, xm_hi + 1):
        for nb in [None] + list(range(0, n1 + 2)):
            for step in [None] + list(range(1, n1 + 2)):
                combos.append((n1, nb, step))
    if len(combos) > 400 and chk.tier == "quick":
        combos = rng.sample(combos, 400)
    for n1, nb, step in combos:
        kw = {}
        if nb is not None:
            kw["nbOfPoint"] = nb
        if step is not None:
            kw["step"] = step
        r = real("calculate_structure_function zeros((2,%d)) %r" % (n1, kw), SC.calculate_structure_function, numpy.zeros((2, n1)), **kw)
        if r is None:
            continue
        ln = len(r)
        lines.append("C19 xm %d %s %s" % (n1, "-" if nb is None else nb, "-" if step is None else step))
        expect.append(("xm", "len", ln, {"n1": n1, "nb": nb, "step": step}))
    # temporal power spectrum
    for _ in range(n_tps):
        kind, x = gen_slopes(rng, False)
        if x.shape[-2] > nmax:
            x = numpy.ascontiguousarray(x[..., :nmax, :])
        r = real("calc_slope_temporalps shape %s" % (x.shape,), call_tps, x)
        if r is None:
            continue
        m, e = r
        lead = int(numpy.prod(x.shape[:-2])) if x.ndim > 2 else 1
        lines.append("C19 tps %d %d %d %s" % (lead, x.shape[-2], x.shape[-1], " ".join(common.f2h(v) for v in x.astype(float).ravel())))
        expect.append(("tps", kind, ([float(v) for v in m.ravel()], [float(v) for v in e.ravel()]), {"shape": x.shape, "x": x.tolist()}))
    # frequency axis
    from aotools.turbulence import temporal_ps as TP
    for _ in range(n_axis):
        fr = rng.choice([common.dyadic(rng, 0.25, 2000.0), math.exp(rng.uniform(-3, 9)), float(rng.randint(1, 2000))])
        n = rng.randint(0, 64)
        if n == 0:
            n = 1            # numpy.fft.fftfreq(0, d) divides by zero: outside the domain
        r = real("get_tps_time_axis(%r, %d)" % (fr, n), TP.get_tps_time_axis, fr, n)
        if r is None:
            continue
        ax = [float(v) for v in r]
        lines.append("C19 axis %s %d" % (common.f2h(fr), n))
        expect.append(("axis", "float", ax, {"frame_rate": fr, "n_frames": n}))

    ans = common.run_driver(lines, "C19")
    err_mismatch = 0
    for line, a, (op, kind, impl, info) in zip(lines, ans, expect):
        chk.corr_cases += 1
        chk.count("corr:%s:%s" % (op, kind))
        chk.case(("corr", op, json.dumps(info, sort_keys=True, default=str)),
                 sample={"op": line[:160], "impl": impl if op != "tps" else impl[0][:4]} if chk.corr_cases % 97 == 1 else None)
        if op == "xm":
            if a != str(impl):
                chk.broke("correspondence", "C19 xm: model length %s, real code length %s at %r" % (a, impl, info), line)
            continue
        vals = parse_ans(a)
        if vals is None:
            chk.broke("correspondence", "driver answered %r to %s" % (a[:80], line[:120]), line)
            continue
        if op in ("sf", "sfu"):
            exact = kind in EXACT_KINDS
            ok = len(vals) == len(impl) and all(
                (common.f2h(v) == common.f2h(w) or (v != v and w != w) or (v == 0 and w == 0)) if exact
                else common.close(v, w, 1e-5 if kind == "float32" else 1e-12)
                for v, w in zip(vals, impl))
            if any(v != v for v in impl):
                chk.count("corr:sf:has-empty-overlap-lag(NaN)")
            if not ok:
                chk.broke("correspondence", "C19 %s (%s): model %r, real code %r at %r" % (op, kind, vals[:6], impl[:6], {k: info[k] for k in ("shape", "nb", "step")}), line)
        elif op == "tps":
            mi, ei = impl
            nm = len(mi)
            scale = max([abs(v) for v in mi] + [0.0])
            if len(vals) != 2 * nm or not all(abs(v - w) <= (1e-4 if kind == "float32" else 1e-9) * scale for v, w in zip(vals[:nm], mi)):
                chk.broke("correspondence", "C19 tps (%s): model %r, real code %r, shape %s" % (kind, vals[:4], mi[:4], info["shape"]), line)
            elif not all(abs(v - w) <= 1e-7 * scale for v, w in zip(vals[nm:], ei)):
                err_mismatch += 1     # the error estimate is not part of the property: recorded, not a verdict
        elif op == "axis":
            if len(vals) != len(impl) or any(abs(v - w) > 1e-13 * max(abs(v), abs(w)) for v, w in zip(vals, impl)):    # to rounding
                chk.broke("correspondence", "C19 axis: model %r, real code %r at %r" % (vals[:4], impl[:4], info), line)
    if err_mismatch:
        chk.notes.append("tps_err (std over sub-apertures / sqrt(n_sub), outside the property's text) differs from the model in %d cases"
                         % err_mismatch)


# ------------------------------------------------------------------------------------------------ oracle driver
def oracle(chk, n_sf, n_tps, big):
    rng = chk.rng

    def report(fn, args, replay):
        try:
            fails = fn(*args)
        except common.LeanError:
            raise
        except Exception as ex:          # the real code raised on an input of the property's domain
            fails = [("%s:raises" % replay["fn"], "%s raised %s: %s" % (replay["fn"], type(ex).__name__, str(ex)[:200]))]
        for key, what in fails:
            chk.fail(key, what, replay)

    for it in range(n_sf):
        chk.oracle_cases += 1
        kind, a, nb, step = gen_phase(rng, big)
        exact = kind not in ("float", "float32", "float+1e6")
        chk.count("sf:%s" % kind)
        if isinstance(nb, float):
            chk.count("sf:float-nbOfPoint")
        chk.count("sf:rows<cols" if a.shape[0] < a.shape[1] else "sf:rows>=cols")
        chk.count("sf:xm=%s" % min(xm_expected(a.shape[1], nb, step), 5))
        rp = {"fn": "sf", "phase": a.tolist(), "dtype": str(a.dtype), "nb": py_num(nb), "step": py_num(step), "exact": exact,
              "layout": _LAYOUT[0], "forms": list(_FORMS)}
        if _LAYOUT[0] != "C":
            chk.count("sf:layout:%s" % _LAYOUT[0])
        if _FORMS != ["py", "py"]:
            chk.count("sf:numpy-integer-nbOfPoint/step")
        chk.case(("sf", it, a.shape, py_num(nb), py_num(step), kind, _LAYOUT[0]),
                 sample={"shape": a.shape, "nb": py_num(nb), "step": py_num(step), "kind": kind} if it < 2 else None)
        report(check_sf, (a, nb, step, exact), rp)
        # (on a large offset c*phase is exact only for powers of two; the rounding of 1.5*phase would otherwise be compared)
        c = rng.choice([2.0, -0.5, 4.0] if "+1e" in kind else [2.0, -0.5, 1.5, 3.0])
        report(check_sf_quadratic, (a.astype(float), nb, step, c), dict(rp, fn="sf_quadratic", c=c))
        a_s = common.dyadic(rng, -4, 4, 3)
        off = [common.dyadic(rng, -4, 4, 3) for _ in range(a.shape[1])]
        piston = (0.0, 0.0, 1e8, float(rng.randint(-10 ** 9, 10 ** 9)))[it % 4]
        report(check_sf_ramp, (a.shape[0], a.shape[1], a_s, off, nb, step, piston),
               {"fn": "sf_ramp", "n0": a.shape[0], "n1": a.shape[1], "a": a_s, "offsets": off, "nb": py_num(nb), "step": py_num(step),
                "piston": piston, "forms": list(_FORMS)})
        if kind in ("int", "intdtype", "float", "int32", "int16", "uint8"):
            pist = 1e8 if kind != "float" else 1e6
            report(check_sf_piston, (a.astype(float), nb, step, pist, kind != "float"),
                   dict(rp, fn="sf_piston", piston=pist, exact=kind != "float"))
            chk.count("sf:piston-invariance")
        if it % 4 == 1 and exact:
            # the caller's array re-used after being overwritten in place (same object, same address, same shape)
            ch = rng.choice([2.0, 0.5, -4.0])
            report(check_sf_history, (a, nb, step, ch), dict(rp, fn="sf_history", c=ch))
            chk.count("sf:history:in-place-reuse")
    # LARGE phases (round 5): 2e4 .. 3e5 elements, beyond any small-array path (NumPy's pairwise summation blocks, a size-gated
    # second algorithm), in all layouts; few lags so that the cost stays small
    BIG_FIRST = [(257, 257), (300, 70), (70, 300), (520, 520), (4000, 9), (3, 30000)]
    n_big = 8 if not big else 60
    for it in range(n_big):
        chk.oracle_cases += 1
        if it < len(BIG_FIRST):
            n0, n1 = BIG_FIRST[it]
        else:
            n0, n1 = rng.choice([(rng.randint(130, 600), rng.randint(130, 600)), (rng.randint(1000, 20000), rng.randint(3, 12)),
                                 (rng.randint(2, 12), rng.randint(1000, 20000)), (256, 256), (512, 513)])
        kindb = rng.choice(["int", "int", "int+1e8", "float", "int32", "float32"])
        layout = rng.choice(["C", "C"] + LAYOUTS_2D)
        stepb = rng.choice([None, 1, 2, 3, rng.randint(1, max(1, n1 // 8))])
        nbb = rng.randint(2, 6)
        seed = rng.getrandbits(32)
        chk.count("sf:large:%s" % ("<2^16" if n0 * n1 < 2 ** 16 else "<2^18" if n0 * n1 < 2 ** 18 else ">=2^18"))
        chk.case(("sf-big", it, n0, n1, kindb, layout, nbb, stepb, seed), sample={"shape": (n0, n1), "kind": kindb, "layout": layout} if it == 0 else None)
        report(check_sf_big, (seed, n0, n1, kindb, layout, nbb, stepb),
               {"fn": "sf_big", "seed": seed, "n0": n0, "n1": n1, "kind": kindb, "layout": layout, "nb": nbb, "step": stepb})
    # generated screens against the analytic von Karman structure function (one cheap sample per run)
    cfg = rng.choice([(64, 0.1, 0.15, 20.0, 1, 13, (2, 4, 8)), (64, 0.05, 0.1, 10.0, 1, 13, (2, 4, 8)),
                      (64, 0.1, 0.15, 5.0, 2, 7, (1, 2, 4)), (48, 0.1, 0.2, 30.0, 1, 10, (2, 4, 8))])
    seeds = [rng.getrandbits(31) for _ in range(40)]
    chk.oracle_cases += 1
    chk.case(("sf-screens", cfg, seeds[0]))
    chk.count("sf:screens")
    try:
        fails, ratios = check_sf_screens(cfg, seeds)
    except Exception as ex:
        fails, ratios = [("sf:screens:raises", "%s: %s" % (type(ex).__name__, str(ex)[:200]))], []
    for key, what in fails:
        chk.fail(key, what, {"fn": "sf_screens", "cfg": list(cfg), "seeds": seeds})
    chk.notes.append("generated screens vs analytic structure function (N, delta, r0, L0, step, nbOfPoint, lags = %r, 40 screens): "
                     "estimator / structure_function_vk = %s (allowed 1 +- 0.25)" % (cfg, ["%.3f" % r for r in ratios]))

    for it in range(n_tps):
        chk.oracle_cases += 1
        # frame counts that are not 11-smooth (13, 17, 19, 26, 34, 101, 1001, ...) come first in every run
        nforce = ROUGH_N[it] if it < len(ROUGH_N) else (rng.choice(ROUGH_N[:6] + ROUGH_N[7:]) if it % 5 == 0 else None)
        kind, x = gen_slopes(rng, big, nforce)
        if nforce:
            chk.count("tps:n_frames-not-11-smooth")
        chk.count("tps:%s:rank%d" % (kind, x.ndim))
        chk.count("tps:n_frames-%s" % ("even" if x.shape[-2] % 2 == 0 else "odd"))
        c = rng.choice([2.0, -3.0, 0.5, 1.25])
        chk.case(("tps", it, x.shape, kind), sample={"shape": x.shape, "kind": kind} if it < 2 else None)
        if _LAYOUT[0] != "C":
            chk.count("tps:layout:%s" % _LAYOUT[0])
        rpt = {"fn": "tps", "x": x.tolist(), "c": c, "dtype": str(x.dtype), "layout": _LAYOUT[0]}
        report(check_tps, (x, c), rpt)
        if it % 4 == 2 and kind in ("int", "intdtype", "int32", "uint8", "int*2^40", "int*2^-40"):
            ch = rng.choice([2.0, 0.5, -4.0])
            report(check_tps_history, (x, ch), dict(rpt, fn="tps_history", c=ch))
            chk.count("tps:history:in-place-reuse")
        n = rng.randint(4, 64 if big else 24)
        if it < len(ROUGH_N):
            n = ROUGH_N[it]
        elif it % 5 == 1:
            n = rng.choice(ROUGH_N[:6] + ROUGH_N[7:])
        k0 = rng.randint(1, n // 2 - 1)          # a returned bin: 0 < k0 < n//2
        ns = rng.randint(1, 4)
        amps = [rng.uniform(0.5, 3) for _ in range(ns)]
        phis = [rng.uniform(0, 2 * math.pi) for _ in range(ns)]
        lead = rng.choice([(), (2,), (1, 2), (3,)])
        report(check_tps_sinusoid, (lead, n, ns, k0, amps, phis),
               {"fn": "tps_sinusoid", "lead": list(lead), "n": n, "ns": ns, "k0": k0, "amps": amps, "phis": phis})
        fr = rng.choice([float(rng.randint(1, 2000)), math.exp(rng.uniform(-3, 9)), rng.randint(1, 1000), 10 ** rng.uniform(-6, 9)])
        nfr = rng.randint(1, 200)
        # LARGE frame counts (vectorised comparison), just below / at / above powers of two, and odd ones
        if it % 8 == 3:
            nfr = rng.choice([1000, 1001, 4096, 4097, 65535, 65536, 65537, rng.randint(201, 70000) | 1, rng.randint(201, 70000)]
                             + ([2 ** 20, 2 ** 20 + 1] if big else []))
            chk.count("axis:n_frames>200")
        nform = rng.choice(N_FORMS)
        if nform != "py" and not (nfr <= numpy.iinfo(getattr(numpy, nform)).max):
            nform = "int64"
        frform = rng.choice(FR_FORMS)
        if frform not in ("py", "float64", "0d") and not (float(fr) == int(fr) and 1 <= fr <= numpy.iinfo(getattr(numpy, frform)).max):
            frform = "float64"
        if (nform, frform) != ("py", "py"):
            chk.count("axis:numpy-scalar-arguments")
        report(check_axis, (fr, nfr, nform, frform), {"fn": "axis", "frame_rate": fr, "n_frames": nfr, "nform": nform, "frform": frform})
    # plot_tps: the third entry point into both estimators (round 5; one call per run, 3-D slope data)
    chk.oracle_cases += 1
    xs = make_slopes(rng.getrandbits(32), (rng.choice([1, 2, 3]),), rng.choice([12, 13, 21, 30]), rng.randint(1, 5), "random", "float")
    frp = float(rng.randint(50, 2000))
    chk.case(("plot_tps", xs.shape, frp))
    chk.count("tps:via-plot_tps")
    report(check_plot_tps, (xs, frp), {"fn": "plot_tps", "x": xs.tolist(), "frame_rate": frp})

    # MANY sub-apertures (a 40x40 Shack-Hartmann has 2480 slopes) with unequal signal levels, and LONG records (thousands of
    # frames, odd counts): the definition counts every sub-aperture once and every frame once however many there are
    n_wide, n_long = (10, 6) if not big else (150, 60)
    WIDE_FIRST = [300, 632, 2480]
    LONG_FIRST = [4096, 4095, 2049]
    # round 5: records longer than 2^13 / 2^14 / 2^16 frames (prime, power of two, power of two + 1) and MANY batch items
    VLONG = [8192, 10007, 16385] + ([65536, 65537, 100003, 131071] if big else [])
    BIGLEAD = [(300,), (17, 19), (3, 5, 7), (1025,)]
    n_extra = 4 if not big else 24
    for it in range(n_wide + n_long + n_extra):
        chk.oracle_cases += 1
        wide = it < n_wide
        extra = it >= n_wide + n_long
        layout = "C"
        if extra:
            j = it - n_wide - n_long
            if j % 2 == 0:
                n = VLONG[(j // 2) % len(VLONG)] if j // 2 < len(VLONG) else rng.randint(4097, 70000)
                ns, lead = rng.randint(1, 4), ()
                bins = [0, 1, n // 2 - 1] + [rng.randrange(n // 2) for _ in range(5)]
                chk.count("tps:very-long-record")
            else:
                lead = BIGLEAD[(j // 2) % len(BIGLEAD)]
                n, ns = rng.choice([7, 8, 13, 16, 26]), rng.randint(1, 5)
                bins = None
                chk.count("tps:many-batch-items")
            layout = rng.choice(["C"] + LAYOUTS_ND)
        elif wide:
            ns = WIDE_FIRST[it] if it < len(WIDE_FIRST) else rng.choice([256, 257, 511, 513, 1024, 3000, rng.randint(257, 3000),
                                                                         rng.randint(257, 3000), rng.randint(257, 700)])
            n = rng.randint(2, 48) if it % 4 else rng.choice(ROUGH_N[:6])
            lead = rng.choice([(), (), (2,)])
            bins = None
            if it >= len(WIDE_FIRST):
                layout = rng.choice(["C", "C"] + LAYOUTS_ND)
        else:
            j = it - n_wide
            n = LONG_FIRST[j] if j < len(LONG_FIRST) else rng.randint(200, 4096)
            if j >= len(LONG_FIRST) and j % 2:
                n |= 1                                     # odd frame counts
            ns = 300 if j == 3 else rng.randint(1, 6)
            lead = () if j % 3 else (2,)
            bins = [0, 1, n // 2 - 1] + [rng.randrange(n // 2) for _ in range(8)]
            if j >= len(LONG_FIRST):
                layout = rng.choice(["C", "C"] + LAYOUTS_ND)
        akind, kind = rng.choice(AMP_KINDS), rng.choice(["float", "float", "int"])
        seed = rng.getrandbits(32)
        c = rng.choice([2.0, -3.0, 0.5, 1.25])
        x = relayout(make_slopes(seed, lead, n, ns, akind, kind), layout)
        if not extra:
            chk.count("tps:many-subaps" if wide else "tps:long-record")
        if layout != "C":
            chk.count("tps:layout:%s" % layout)
        chk.count("tps:levels=%s" % akind)
        chk.count("tps:n_frames-%s" % ("even" if n % 2 == 0 else "odd"))
        chk.case(("tps-gen", it, x.shape, akind, kind, seed, layout), sample={"shape": x.shape, "levels": akind, "kind": kind} if it in (0, n_wide) else None)
        report(check_tps, (x, c, bins), {"fn": "tps_gen", "seed": seed, "lead": list(lead), "n": n, "ns": ns, "levels": akind,
                                         "kind": kind, "c": c, "bins": bins, "layout": layout})
        # the sinusoid clause on the same sizes: P[k0] = n^2/4 * mean over ALL sub-apertures of A_s^2
        g = numpy.random.default_rng(seed ^ 0x5A5A)
        amps = sub_amps(g, ns, akind).tolist()
        phis = g.uniform(0, 2 * math.pi, ns).tolist()
        if n >= 4:
            k0 = rng.randint(1, n // 2 - 1)
            report(check_tps_sinusoid, (lead, n, ns, k0, amps, phis),
                   {"fn": "tps_sinusoid", "lead": list(lead), "n": n, "ns": ns, "k0": k0, "amps": amps, "phis": phis})


def replay(rec):
    """re-evaluate the recorded failing input on the real code"""
    f = rec.get("failure")
    if not f:
        print("nothing to replay on the real code (proof / correspondence obligation): re-run ./check C19")
        return 1
    r = f["replay"]
    fn = r["fn"]
    try:
        fails = _replay_eval(fn, r)
    except Exception as ex:
        fails = [("%s:raises" % fn, "%s raised %s: %s" % (fn, type(ex).__name__, str(ex)[:200]))]
    for key, what in fails:
        print("STILL FAILS [%s] %s" % (key, what))
    if not fails:
        print("the recorded input no longer fails")
    return 1 if fails else 0


def _replay_eval(fn, r):
    forms = r.get("forms", ["py", "py"])
    nb, step = (as_form(r.get("nb"), forms[0]), as_form(r.get("step"), forms[1])) if fn.startswith("sf") and fn != "sf_screens" else (None, None)
    if fn == "sf":
        fails = check_sf(relayout(numpy.array(r["phase"], dtype=r.get("dtype", "float64")), r.get("layout", "C")), nb, step, r["exact"])
    elif fn == "sf_quadratic":
        fails = check_sf_quadratic(numpy.array(r["phase"], dtype=float), nb, step, r["c"])
    elif fn == "sf_ramp":
        fails = check_sf_ramp(r["n0"], r["n1"], r["a"], r["offsets"], nb, step, r.get("piston", 0.0))
    elif fn == "sf_piston":
        fails = check_sf_piston(numpy.array(r["phase"], dtype=float), nb, step, r["piston"], r["exact"])
    elif fn == "sf_history":
        fails = check_sf_history(numpy.array(r["phase"], dtype=float), nb, step, r["c"])
    elif fn == "sf_big":
        fails = check_sf_big(r["seed"], r["n0"], r["n1"], r["kind"], r["layout"], r["nb"], r["step"])
    elif fn == "sf_screens":
        fails = check_sf_screens(tuple(r["cfg"][:6]) + (tuple(r["cfg"][6]),), r["seeds"])[0]
    elif fn == "tps":
        fails = check_tps(relayout(numpy.array(r["x"], dtype=r.get("dtype", "float64")), r.get("layout", "C")), r["c"])
    elif fn == "tps_history":
        fails = check_tps_history(numpy.array(r["x"], dtype=float), r["c"])
    elif fn == "plot_tps":
        fails = check_plot_tps(numpy.array(r["x"], dtype=float), r["frame_rate"])
    elif fn == "tps_gen":
        fails = check_tps(relayout(make_slopes(r["seed"], tuple(r["lead"]), r["n"], r["ns"], r["levels"], r["kind"]), r.get("layout", "C")),
                          r["c"], r.get("bins"))
    elif fn == "tps_sinusoid":
        fails = check_tps_sinusoid(tuple(r["lead"]), r["n"], r["ns"], r["k0"], r["amps"], r["phis"])
    elif fn == "axis":
        fails = check_axis(r["frame_rate"], r["n_frames"], r.get("nform", "py"), r.get("frform", "py"))
    else:
        fails = []
    return fails


def run(chk):
    quick = chk.tier == "quick"
    chk.rule = ("correspondence: Lean model at Float vs real code - structure function bit-exact on integer/dyadic phases (1e-12 rel. on "
                "Gaussian phases), output length exact, frequency axis bit-exact, spectra |impl-model| <= 1e-9*max|spectrum| (FFT vs "
                "naive DFT); oracle on the real code with a poisoned heap: lag 0 == 0, lag j == exact rational mean squared difference, "
                "ramp a^2 (j step)^2 to 2 ulp (dyadic a, pistons up to 1e9), piston invariance, documented output length, quadratic scaling 1e-12, |DFT|^2 mean 1e-9, Parseval 1e-9, sinusoid bin, "
                "axis 1e-12, batch independence, no input mutation, repeatability; the spectrum clauses also on 257..3000 sub-apertures with "
                "unequal signal levels and on records of up to 4096 frames (definition at sampled bins there); distinct = distinct generated inputs")
    chk.assumptions = [
        "numpy.fft.fft is modelled by the naive DFT sum (agreement checked numerically on every generated instance; n_frames <= 16 (quick) / 32 (thorough) in the driver)",
        "numpy.empty is modelled as an arbitrary initial buffer u; numpy.zeros as the all-zero buffer",
        "IEEE rounding and NumPy slicing/broadcast/axis semantics are exercised by the correspondence, not proved",
        "clause 'applied to generated screens it follows the analytic structure function' is statistical: not carried by any "
        "theorem; ONE oracle sample per run (40 seeded ft_sh_phase_screen screens, three lags, estimator / structure_function_vk "
        "within 1 +- 0.25; observed 0.90 .. 1.10 over 48 batches of 40 screens)",
        "lags with j*step >= phase.shape[0] (no overlapping rows; possible because the code bounds lags by shape[1]) have no defined "
        "mean: the code returns NaN there, the oracle skips them; sf_def has no overlap hypothesis and holds there only by 0/0 := 0 "
        "over the reals — the meaningful statement is sf_def_overlap (hypotheses j*step < shape[0] and shape[1] > 0, division-free), "
        "the empty case is sf_no_overlap (count of terms = 0, model value 0/0, nothing claimed about the code); sf_ramp assumes "
        "j*step < n0",
        "exactness demands are 2 ulp, not bit equality (integer / dyadic phases, ramps, also on pistons up to 1e9: every operation "
        "of the definition is exact there); float32 phases / slopes are reduced in single precision by NumPy: 2e-5 / 1e-4",
        "a float nbOfPoint enters the model as int(nbOfPoint) (truncation commutes with min for non-negative values)",
        "output length: the float expression int(min(nbOfPoint, shape[1]/step - 1)) vs the model's natural-number sfXm is compared "
        "exhaustively for shape[1] <= 10 (quick) / 30 (thorough), not proved",
    ]
    common.lake_build(["AoVerif.Audit"])      # a fresh checkout has no Audit.olean yet; build_and_audit only builds the Props module
    chk.build_and_audit("AoVerif.Props.C19", "AoVerif.Props.C19", REQUIRED)
    try:
        correspondence(chk, 200 if quick else 3000, 80 if quick else 1200, 150 if quick else 3000, 10 if quick else 30,
                       nmax=16 if quick else 32)
    except common.LeanError as ex:
        chk.broke("correspondence", "driver does not build / run", str(ex))
    oracle(chk, 500 if quick else 12000, 400 if quick else 12000, not quick)
