"""C05 — infinite screen evolves by exactly one row per step, for any history."""
import copy
import json
import math
import os
import random

# the matrices here are small: BLAS / numba worker pools only add overhead and load on a shared machine
for _v in ("OMP_NUM_THREADS", "OPENBLAS_NUM_THREADS", "MKL_NUM_THREADS", "NUMBA_NUM_THREADS"):
    os.environ.setdefault(_v, "2")

import numpy  # noqa: E402

from .. import common  # noqa: E402

MANIFEST = {
    "text": "Lean 4 theorems, by induction over ARBITRARY histories of add_row / .scrn / repr, about a hand-written state "
            "machine of both infinite-screen classes (payload without algebraic structure, row kernel opaque): N x N shape "
            "(also when the internal Fried size 2^k+1 is larger), one-row shift per add_row (one step and whole histories), "
            "reads change neither the array nor the generator position, exactly nx normals per add_row in consecutive "
            "blocks, find_allowed_size is the least 2^k+1 >= N.  Over the reals: the state machine with the concrete von Karman "
            "kernel IS the linear recursion z' = Fz + Gb (F = shift·[A;I]); block stationarity is proved for covariances that "
            "depend on the displacement only; given the two C04 identities the theoretical covariance is a fixed point of "
            "P -> FPF' + GG'; under a contraction witness ||F^k||_F < 1 it is the unique one, reached geometrically from any "
            "start, and the start is forgotten; conversely a real eigenvalue of modulus >= 1 excludes convergence.  All of this "
            "is about the recursion STATE (the first n_columns rows); for the older rows of the exposed screen the theoretical "
            "covariance is proved NOT to be stationary in general (smallest case: one pixel wide, three rows).  The model "
            "is tied to the code on every run by replaying random histories on real objects with an injected counting "
            "generator (labels: bit-exact; Float: tolerance); a direct oracle on the real code supplies failing inputs and "
            "records the contraction witness per configuration.",
    "note": "Trusted: Lean kernel + propext/Classical.choice/Quot.sound; the hand-written model (tied by correspondence only); "
            "NumPy slicing/append semantics; the Cholesky/SVD kernels behind A and B (C04's contracts, re-checked numerically "
            "here through the Lyapunov residual).  Not proved: IEEE finiteness (no overflow), the numeric contraction witness "
            "(a hypothesis of every stability theorem; computed per configuration), positive-definiteness of the von Karman "
            "kernel.  Scope: stability / stationary covariance are established for the recursion state only; the covariance of "
            "the whole exposed N x N screen deviates from theory (n_columns=1: structure function 0.65..0.26 of theory at row "
            "lags 2..15 for N=16, L0/pixel=100; default n_columns=2: within about 3-5 %) — measured and recorded per run.",
    "technique": "Lean 4 proof by induction over operation histories + matrix algebra over R; differential replay of histories "
                 "(model vs real object) + direct oracle search on the real code",
}
REQUIRED = ["wf_run", "shape_inv", "shape_inv_outputs", "shape_inv_vk", "shape_inv_fried", "shift_inv", "shift_inv_vk",
            "shift_inv_fried", "shift_inv_internal", "rows_hist", "shift_hist", "newRows_length", "read_pure",
            "read_returns_current", "run_erase_reads", "trace_erase_reads", "pos_inv", "add_uses_fresh_block",
            "entries_inv", "entries_from", "findAllowedSize_ge", "findAllowedSize_form", "findAllowedSize_minimal",
            "findAllowedSize_fixed", "findAllowedSize_table", "joint_step", "vk_is_stationary", "vkShift_mulVec",
            "unique_and_convergent", "vk_stable", "stencil_step", "contraction_needed", "vkKernel_rowOK", "vk_state_recursion",
            "start_forgotten", "vk_stable_concrete", "friedKernel_rowOK", "unstable_diverges", "vk_block_stationary",
            "covZZ_symm", "covZX_transpose", "vk_stable_from_cov",
            "exposed_fixed_point", "exposed_model_cov_not_fixed", "exposed_stationary_limit",
            "companionG_gram", "stationary_scales", "stationary_scales_unique"]

VARIANTS = ("vk", "fried")
# realistic parameter domain of the quantitative (stability / stationary-covariance) oracle; see `rule`
RATIO_MAX = 2000.0
# calibrated on the repaired tree (phase_covariance in binary64, fix 4518b2c): 12 seeds x 60 configurations of gen_cfg(vk)
RES_TOL = 5e-9      # |F S F' + G G' - S|max / S(0); observed <= 4.8e-11 (a float32 covariance pipeline leaves ~3e-7)
DEV_TOL = 1e-4      # |P* - S|max / S(0) on the recursion STATE; observed <= 7.1e-7 (= residual amplified by 1/(1-rho), rho <= 0.99995)
ROW_RTOL = 1e-9


# --------------------------------------------------------------------------------------------- real objects
class CountingGen(numpy.random.Generator):
    """a PCG64 Generator that logs every sampling call made through it (name, number of values)"""

    def __init__(self, seed):
        super().__init__(numpy.random.PCG64(seed))
        self.log = []

    def _rec(self, name, r):
        self.log.append((name, int(numpy.size(r))))
        return r


def _mk(name):
    def m(self, *a, **k):
        return self._rec(name, getattr(numpy.random.Generator, name)(self, *a, **k))
    m.__name__ = name
    return m


for _n in ("normal", "standard_normal", "random", "uniform", "integers", "multivariate_normal", "standard_cauchy",
           "exponential", "standard_exponential", "gamma", "standard_gamma", "choice", "permutation", "bytes"):
    setattr(CountingGen, _n, _mk(_n))


def clone_gen(g):
    h = numpy.random.Generator(numpy.random.PCG64(0))
    h.bit_generator.state = copy.deepcopy(g.bit_generator.state)
    return h


ARG_CASTS = ("npint", "smallint", "npfloat", "f32", "zerod", "pyint")
SEED_KINDS = ("int", "int0", "int>2^32", "int>2^53", "int>2^64", "npint", "seq", "none")
CALL_FORMS = ("pos", "allkw", "default")
ENTRIES = ("pkg", "turb")


def seed_argument(kind, seed):
    """the random_seed argument of a seed kind (everything numpy.random.default_rng documents), built from the integer `seed`"""
    if kind == "int":
        return int(seed)
    if kind == "int0":
        return 0
    if kind == "int>2^32":
        return 2 ** 32 + int(seed)
    if kind == "int>2^53":
        return 2 ** 53 + 1 + 2 * int(seed)
    if kind == "int>2^64":
        return 2 ** 64 + 2 ** 40 * int(seed) + 3
    if kind == "npint":
        return numpy.int64(seed)
    if kind == "seq":
        return numpy.random.SeedSequence(int(seed))
    if kind == "none":
        return None
    raise ValueError(kind)


def cast_arguments(cfg):
    """(req, px, r0, L0, par) of a configuration handed over as other numeric types (Round 5).  The history clauses hold for every
    parameter value, so a cast that changes the value (float32) is still the same kind of input; "pyint" rounds the metres to
    whole numbers >= 1."""
    par = cfg["nc"] if cfg["variant"] == "vk" else cfg["factor"]
    req, px, r0, L0 = cfg["req"], cfg["px"], cfg["r0"], cfg["L0"]
    cast = cfg.get("cast")
    if cast is None:
        return req, px, r0, L0, par
    if cast == "npint":
        return numpy.int64(req), px, r0, L0, numpy.int32(par)
    if cast == "smallint":      # the smallest signed type that holds the requested size (n*n does not fit for n >= 12), 16 bits for the depth
        return (numpy.int16(req) if req > 127 else numpy.int8(req)), px, r0, L0, numpy.int16(par)
    if cast == "uint8":         # an 8-bit unsigned size (round 6): n_columns * nx_size does not fit the type for sizes >= 128
        return numpy.uint8(req), px, r0, L0, numpy.uint8(par)
    if cast == "npfloat":
        return numpy.int32(req), numpy.float64(px), numpy.float64(r0), numpy.float64(L0), par
    if cast == "f32":
        return req, numpy.float32(px), numpy.float32(r0), numpy.float32(L0), par
    if cast == "zerod":
        return req, numpy.array(px), numpy.array(r0), numpy.array(L0), par
    if cast == "pyint":
        return int(req), max(1, int(round(px))), max(1, int(round(r0))), max(2, int(round(L0))), int(par)
    raise ValueError(cast)


def construct(cfg):
    """the real object of a configuration dict (raises what the constructor raises).  Optional keys (Round 5): "cast" (argument
    types, see cast_arguments), "seedkind" (what is passed as random_seed instead of an injected counting Generator; the
    generator returned is then the object's own _R), "call" (positional / all keywords / optional keyword left at its default),
    "entry" (package-level alias of the class)."""
    from aotools.turbulence import infinitephasescreen as ips
    import aotools
    vk = cfg["variant"] == "vk"
    name = "PhaseScreenVonKarman" if vk else "PhaseScreenKolmogorov"
    cls = getattr({"pkg": aotools, "turb": aotools.turbulence}.get(cfg.get("entry"), ips), name)
    req, px, r0, L0, par = cast_arguments(cfg)
    kind = cfg.get("seedkind")
    g = CountingGen(cfg["seed"]) if kind is None else None
    seed = g if kind is None else seed_argument(kind, cfg["seed"])
    call = cfg.get("call")
    parname = "n_columns" if vk else "stencil_length_factor"
    if call == "pos":
        ps = cls(req, px, r0, L0, seed, par)
    elif call == "allkw":
        ps = cls(nx_size=req, pixel_scale=px, r0=r0, L0=L0, random_seed=seed, **{parname: par})
    elif call == "default":
        if par != (2 if vk else 4):
            raise ValueError("call form 'default' needs the default n_columns / stencil_length_factor")
        ps = cls(req, px, r0, L0, random_seed=seed) if kind != "none" else cls(req, px, r0, L0)
    else:
        ps = cls(req, px, r0, L0, random_seed=seed, **{parname: par})
    if g is None:
        g = getattr(ps, "_R", None)       # the per-instance Generator the property's state description names
        if not isinstance(g, numpy.random.Generator):
            g = None                      # callers report it: the harness cannot follow this object's random stream
    return ps, g


def no_stream(chk, cfg, g):
    if g is None:
        chk.broke("correspondence", "an object built with random_seed=%s keeps no numpy Generator in _R: the model's state (array, "
                  "stream position) does not describe it  %s" % (cfg.get("seedkind"), json.dumps(cfg, sort_keys=True)))
    return g is None


def bits_equal(a, b):
    a, b = numpy.asarray(a), numpy.asarray(b)
    return a.shape == b.shape and a.dtype == b.dtype and a.tobytes() == b.tobytes()


def logu(rng, lo, hi):
    return math.exp(rng.uniform(math.log(lo), math.log(hi)))


def gen_cfg(rng, maxn, variant=None, req=None, extreme=False):
    variant = variant or rng.choice(VARIANTS)
    if req is None:
        pool = [1, 2, 3, 4, 5, 6, 7, 8, 9, 10, 12, 15, 16, 17, 18, 20, 24, 31, 32, 33]
        req = rng.choice([n for n in pool if n <= maxn] + [rng.randint(1, maxn)])
    px = logu(rng, 0.02, 0.5)
    r0 = logu(rng, 0.05, 0.5)
    if extreme == "huge":
        px = logu(rng, 0.01, 0.1)
        L0 = px * logu(rng, 1e5, 1e7)
    elif extreme == "coarse":      # Round 5: pixels as large as or larger than the outer scale (L0/pixel 0.3 … 4, sometimes 0.02 … 0.3
        px = logu(rng, 0.05, 50.)  # where neighbouring pixels are uncorrelated to better than 1e-11)
        L0 = px * (logu(rng, 0.3, 4.) if rng.random() < 0.8 else logu(rng, 0.02, 0.3))
    elif extreme == "scaled":      # Round 5: the ordinary sampling ratios at other absolute scales, r0 from 1 mm to 30 m (also > L0)
        k = 10. ** rng.choice([-4, -3, -2, 2, 3, 4])
        L0 = logu(rng, max(1.0, 4 * px), min(100.0, RATIO_MAX * px)) * k
        px = px * k
        r0 = logu(rng, 1e-3, 30.)
    elif extreme:
        L0 = px * logu(rng, 2e4, 2e5)
    else:
        L0 = logu(rng, max(1.0, 4 * px), min(100.0, RATIO_MAX * px))
    cfg = {"variant": variant, "req": req, "px": px, "r0": r0, "L0": L0, "seed": rng.randint(0, 2 ** 31)}
    if variant == "vk":
        cfg["nc"] = rng.choice([1, 2, 2, 2, 3, 4])
    else:
        cfg["factor"] = rng.choice([1, 2, 4, 4, 5])
    return cfg


def gen_ops(rng, n, p_add=0.5):
    return "".join("a" if rng.random() < p_add else rng.choice("sr" if rng.random() < 0.8 else "p") for _ in range(n))


def variant_key(ps, cfg):
    return cfg["variant"] + (":req<nx" if ps.nx_size != cfg["req"] else "")


def expected_row(ps, cfg, scr, noise):
    """A·Z + B·b recomputed from the object's public matrices and the array BEFORE the step; returns (row, error scale)"""
    sc = ps.stencil_coords
    z = scr[(sc[:, 0], sc[:, 1])]
    A, B = numpy.asarray(ps.A_mat, dtype=float), numpy.asarray(ps.B_mat, dtype=float)
    if cfg["variant"] == "vk":
        row = A.dot(z) + B.dot(noise)
        scale = numpy.abs(A).dot(numpy.abs(z)) + numpy.abs(B).dot(numpy.abs(noise))
    else:
        ref = scr[ps.reference_coord]
        row = A.dot(z - ref) + B.dot(noise) + ref
        scale = numpy.abs(A).dot(numpy.abs(z - ref)) + numpy.abs(B).dot(numpy.abs(noise)) + abs(ref)
    return row, scale


# --------------------------------------------------------------------------------------------- oracle: histories
def oracle_history(chk, cfg, ops, record=True):
    """the property evaluated directly on a real object along one history.  Returns False when construction raises
    (configuration outside the quantifier), else True."""
    try:
        ps, g = construct(cfg)
    except Exception as ex:   # numpy/scipy LinAlgError, ValueError…: "construction succeeds" is part of the domain
        chk.count("oracle:construct-raises:" + type(ex).__name__)
        return False
    if no_stream(chk, cfg, g):
        return True
    vk = variant_key(ps, cfg)
    req, nx, ln = cfg["req"], ps.nx_size, ps.stencil_length
    nfail = len(chk.failures)

    def bad(kind, what, i):
        if len(chk.failures) - nfail < 3:     # a broken history fails at every later step too: keep the first few
            chk.fail("%s:%s" % (kind, vk), "%s [%s, op %d '%s' of \"%s\"]" % (what, json.dumps(cfg, sort_keys=True), i,
                                                                              ops[i] if 0 <= i < len(ops) else "-", ops[:i + 1]),
                     {"cfg": cfg, "ops": ops[:i + 1], "kind": kind})

    stream_broke = []
    consts = {k: (v.copy() if isinstance(v, numpy.ndarray) else copy.deepcopy(v)) for k, v in vars(ps).items()
              if k not in ("_scrn", "_R", "random_seed")}
    public = ("A_mat", "B_mat", "stencil_coords", "nx_size", "stencil_length", "requested_nx_size", "pixel_scale", "r0", "L0")
    global_state = numpy.random.get_state()
    ref = clone_gen(g)
    prev = numpy.array(ps.scrn, copy=True)
    if prev.shape != (req, req):
        bad("shape", "initial exposed shape %r != (%d,%d)" % (prev.shape, req, req), -1)
    if ps._scrn.shape != (ln, nx):
        bad("shape-internal", "initial internal shape %r != (%d,%d)" % (ps._scrn.shape, ln, nx), -1)
    if not numpy.isfinite(prev).all():
        bad("finite", "initial screen has non-finite entries", -1)
    nadd = 0
    held = (ps.scrn, prev)      # (array as handed to the caller, private copy of its content at that time)
    for i, op in enumerate(ops):
        before = numpy.array(ps._scrn, copy=True)
        st = copy.deepcopy(g.bit_generator.state)
        glog = getattr(g, "log", None)          # only an injected CountingGen logs its calls
        nlog = len(glog) if glog is not None else 0
        try:
            val = {"a": ps.add_row, "s": lambda: ps.scrn, "r": lambda: repr(ps), "p": lambda: str(ps)}[op]()
        except Exception as ex:
            bad("raises", "%s raised %s: %s after %d add_row" % ({"a": "add_row()", "s": ".scrn", "r": "repr()", "p": "str()"}[op],
                                                               type(ex).__name__, str(ex)[:120], nadd), i)
            break
        if op == "a":
            out = val
            nadd += 1
            noise = ref.normal(0, 1, size=nx)
            outc = numpy.array(out, copy=True)
            if held is not None and not bits_equal(numpy.asarray(held[0]), held[1]):
                bad("alias", "add_row rewrote an array handed out earlier (the caller's copy of the PREVIOUS screen changed "
                    "under its feet)", i)
            held = (out, outc)
            if outc.shape != (req, req):
                bad("shape", "add_row() returned shape %r, requested (%d,%d)" % (outc.shape, req, req), i)
            elif not bits_equal(outc[1:], prev[:-1]):
                bad("shift", "exposed screen after add_row is not the previous one moved down by one row "
                    "(max |diff| %.3g)" % float(numpy.max(numpy.abs(outc[1:] - prev[:-1])) if req > 1 else 0), i)
            if not bits_equal(numpy.array(ps.scrn), outc):
                bad("shift", "add_row() returned something else than .scrn shows afterwards", i)
            if not numpy.isfinite(outc).all():
                bad("finite", "non-finite entries after %d add_row" % nadd, i)
            now = numpy.asarray(ps._scrn)
            if now.shape != (ln, nx):
                bad("shape-internal", "internal array became %r, expected (%d,%d)" % (now.shape, ln, nx), i)
            else:
                if not bits_equal(now[1:], before[:-1]):
                    bad("shift-internal", "unexposed part of the working array did not move down by exactly one row", i)
                if outc.shape == (req, req) and not bits_equal(outc[0], now[0, :req]):
                    bad("shift", "row 0 of the exposed screen is not the generated row", i)
                row, scale = expected_row(ps, cfg, before, noise)
                err = numpy.abs(now[0] - row)
                if not (err <= ROW_RTOL * scale + 1e-300).all():
                    bad("row", "generated row differs from A·Z + B·b of the previous array and the next %d normals of the "
                        "stream by %.3g (scale %.3g)" % (nx, float(err.max()), float(scale.max())), i)
            # HOW the innovation is drawn (the model: one block of nx normals per add_row) is a correspondence matter; the
            # property-level consequence — the row is A·Z + B·b with b from the injected stream — is the "row" check above
            if ((glog is not None and glog[nlog:] not in ([("normal", nx)], [("standard_normal", nx)]))
                    or g.bit_generator.state != ref.bit_generator.state) and not stream_broke:         # normal(0, 1, n) and standard_normal(n) take the same values from the same stream
                stream_broke.append(1)
                chk.broke("correspondence", "add_row drew %r from the injected generator / left it at another position than one "
                          "block of %d normals further (model: pos_inv, add_uses_fresh_block)  %s op %d"
                          % ((glog or [])[nlog:][:4], nx, json.dumps(cfg, sort_keys=True), i))
                ref.bit_generator.state = copy.deepcopy(g.bit_generator.state)
            prev = outc
        else:
            if op == "s":
                if not bits_equal(numpy.array(val), prev):
                    bad("read", ".scrn does not show what the last add_row left", i)
            elif op == "r":
                if cfg["variant"] == "fried" and val != str(prev):
                    bad("read", "repr() does not print the current exposed screen", i)
            if not bits_equal(numpy.asarray(ps._scrn), before):
                bad("read", "reading (%s) altered the working array" % {"s": ".scrn", "r": "repr", "p": "str"}[op], i)
            if g.bit_generator.state != st or (glog is not None and len(glog) != nlog):
                bad("read-rng", "reading (%s) advanced the random stream (%r)" % (op, (glog or [])[nlog:]), i)
            if not bits_equal(numpy.array(ps.scrn), prev):
                bad("read", "exposed screen changed by a read", i)
    # "nothing else changes": the documented matrices / parameters of the object are observable, so a change is a failing
    # input; which PRIVATE attributes exist is an implementation matter (the model's state is (_scrn, stream position))
    other = []
    for k, v in consts.items():
        w = getattr(ps, k, None)
        same = bits_equal(v, w) if isinstance(v, numpy.ndarray) else (type(v) is type(w) and v == w)
        if not same:
            if k in public:
                bad("other-state", "attribute %s changed during the history" % k, len(ops) - 1)
            else:
                other.append(k)
    other += sorted(set(vars(ps)) - set(consts) - {"_scrn", "_R", "random_seed"})
    if other:
        chk.broke("correspondence", "the object carries state the model does not have: attributes %r changed / appeared during the "
                  "history  %s" % (other[:6], json.dumps(cfg, sort_keys=True)))
    g2 = numpy.random.get_state()
    if not (g2[0] == global_state[0] and bits_equal(g2[1], global_state[1]) and g2[2:] == global_state[2:]):
        bad("rng-global", "the history moved numpy's GLOBAL random state", len(ops) - 1)
    if record:
        chk.oracle_cases += 1
        chk.count("oracle:hist:%s" % vk)
        chk.count("oracle:ops", len(ops))
        chk.count("oracle:add_rows", nadd)
        chk.case(("oracle-hist", json.dumps(cfg, sort_keys=True), ops),
                 sample={"cfg": cfg, "ops": ops[:40], "internal": [int(ln), int(nx)]} if chk.oracle_cases <= 2 else None)
    return True


# --------------------------------------------------------------------------------------------- oracle: stability
def vk_covariance(d, r0, L0):
    """von Kármán phase covariance in binary64, written independently of aotools.turbulence.turb"""
    from scipy.special import gamma, kv
    d = numpy.asarray(d, dtype=float)
    x = 2 * numpy.pi * d / L0
    a = (L0 / r0) ** (5. / 3) * 2 ** (-5. / 6) * gamma(11. / 6) / numpy.pi ** (8. / 3) * (24. / 5 * gamma(6. / 5)) ** (5. / 6)
    with numpy.errstate(all="ignore"):
        c = numpy.where(x > 0, x ** (5. / 6) * kv(5. / 6, numpy.where(x > 0, x, 1.0)), 2 ** (-1. / 6) * gamma(5. / 6))
    return a * c


def companion(ps):
    """F, G of the state recursion z' = F z + G b.  State = the first R rows of the working array, R = 1 + the largest row
    index the stencil reads (for the pinned code: the first min(n_columns, nx) rows, and then F = vkShift·[A; I] of the Lean
    development); the columns of A_mat are placed where stencil_coords says they are read from."""
    n = ps.nx_size
    sc = numpy.asarray(ps.stencil_coords)
    R = int(sc[:, 0].max()) + 1 if sc.size else 1
    m = R * n
    F = numpy.zeros((m, m))
    F[:n, sc[:, 0] * n + sc[:, 1]] = ps.A_mat
    F[n:, :m - n] = numpy.eye(m - n)
    G = numpy.zeros((m, n))
    G[:n] = ps.B_mat
    return F, G, R


def contraction_witness(F, kmax=2 ** 40):
    k, Fk = 1, F.copy()
    while k < kmax:
        nrm = float(numpy.linalg.norm(Fk))
        if not numpy.isfinite(nrm):
            return None, nrm
        if nrm < 1:
            return k, nrm
        Fk = Fk.dot(Fk)
        k *= 2
    return None, float(numpy.linalg.norm(Fk))


def _oracle_stability(chk, cfg, quantitative=True, steps=0):
    """von Kármán variant: contraction witness, Lyapunov residual and stationary covariance against theory"""
    from scipy.linalg import solve_discrete_lyapunov
    try:
        ps, g = construct(cfg)
    except Exception as ex:
        chk.count("oracle:construct-raises:" + type(ex).__name__)
        return None
    n, px = ps.nx_size, cfg["px"]
    F, G, nce = companion(ps)
    ratio = cfg["L0"] / px
    regime = "realistic" if ratio <= RATIO_MAX else ("L0/pixel>2e4" if ratio >= 2e4 else "intermediate")
    key = "stability:vk:%s" % regime
    rep = {"cfg": cfg, "kind": "stability"}
    rho = float(numpy.max(numpy.abs(numpy.linalg.eigvals(F))))
    k, nrm = contraction_witness(F)
    chk.oracle_cases += 1
    chk.count("oracle:stability:%s" % regime)
    chk.case(("oracle-stab", json.dumps(cfg, sort_keys=True)))
    wit = {"nx": n, "n_columns": cfg["nc"], "L0/px": round(ratio, 1), "rho": rho, "k": k, "||F^k||_F": nrm}
    if len(chk.witnesses) < 40 and regime == "realistic":
        chk.witnesses.append(wit)
    if k is None or not rho < 1:
        # hypothesis instance of theorem unstable_diverges: a REAL eigenpair with |lambda| >= 1
        ev, evec = numpy.linalg.eig(F)
        j = int(numpy.argmax(numpy.abs(ev)))
        if abs(ev[j].imag) == 0 and abs(ev[j]) >= 1:
            v = evec[:, j].real
            wit["real_unstable_eigenvalue"] = float(ev[j].real)
            wit["eigen_residual"] = float(numpy.linalg.norm(F.dot(v) - ev[j].real * v) / numpy.linalg.norm(v))
        if len(chk.unstable) < 20:
            chk.unstable.append(dict(wit, cfg=cfg))
        chk.fail(key, "row recursion of PhaseScreenVonKarman(%d, %.6g, %.6g, %.6g, n_columns=%d) is unstable: spectral radius "
                 "of the companion matrix %.6f, no k <= 2^40 with ||F^k||_F < 1" % (cfg["req"], px, cfg["r0"], cfg["L0"],
                                                                                 cfg["nc"], rho), rep)
        if steps:
            for _ in range(steps):
                ps.add_row()
            mx = float(numpy.max(numpy.abs(ps.scrn))) if numpy.isfinite(ps.scrn).all() else float("inf")
            chk.notes.append("unstable configuration %s: max|scrn| after %d add_row = %.3g" % (json.dumps(cfg, sort_keys=True), steps, mx))
        return wit
    if not quantitative:
        return wit
    ii, jj = numpy.meshgrid(numpy.arange(nce), numpy.arange(n), indexing="ij")
    pos = numpy.stack([ii.ravel(), jj.ravel()], 1) * px
    d = numpy.sqrt(((pos[:, None, :] - pos[None, :, :]) ** 2).sum(-1))
    S = vk_covariance(d, cfg["r0"], cfg["L0"])
    Q = G.dot(G.T)
    res = float(numpy.max(numpy.abs(F.dot(S).dot(F.T) + Q - S)) / S[0, 0])
    if not res <= RES_TOL:
        chk.fail("stationary:vk:residual", "theoretical von Kármán covariance is not a fixed point of the row recursion: "
                 "|F S F' + G G' - S|max/S(0) = %.3g > %.0e  %s" % (res, RES_TOL, json.dumps(cfg, sort_keys=True)), rep)
    P = solve_discrete_lyapunov(F, Q)
    dev = float(numpy.max(numpy.abs(P - S)) / S[0, 0])
    if not dev <= DEV_TOL:
        chk.fail("stationary:vk:covariance", "stationary covariance of the row recursion differs from the von Kármán "
                 "covariance: |P* - S|max/S(0) = %.3g > %.0e  %s" % (dev, DEV_TOL, json.dumps(cfg, sort_keys=True)), rep)
    # convergence from two very different starts: closed form of t = k·q rows with ||F^k||_F^q <= 1e-4
    q = 1 if nrm == 0 else int(min(max(1, math.ceil(math.log(1e-4) / math.log(nrm))), 2 ** 40))
    Ft = numpy.linalg.matrix_power(numpy.linalg.matrix_power(F, k), q)
    wit["rows_to_converge"] = k * q
    for name, P0 in (("zero", numpy.zeros_like(S)), ("10·S(0)·I", 10 * S[0, 0] * numpy.eye(len(S)))):
        Pt = Ft.dot(P0 - P).dot(Ft.T) + P
        far = float(numpy.max(numpy.abs(Pt - S)) / S[0, 0])
        if not far <= DEV_TOL:
            chk.fail("stationary:vk:convergence", "covariance started from %s is still %.3g·S(0) away from the von Kármán "
                     "covariance after %d rows  %s" % (name, far, k * q, json.dumps(cfg, sort_keys=True)), rep)
    wit.update({"lyapunov_residual": res, "stationary_dev": dev})
    return wit


def oracle_stability(chk, cfg, quantitative=True, steps=0):
    try:
        return _oracle_stability(chk, cfg, quantitative, steps)
    except (ValueError, IndexError, numpy.linalg.LinAlgError, ArithmeticError) as ex:
        # the object was constructed but its matrices cannot be read as a state recursion (shapes, NaNs …)
        chk.fail("stability:vk:ill-formed", "state recursion of a constructed PhaseScreenVonKarman cannot be formed or analysed "
                 "(%s: %s)  %s" % (type(ex).__name__, str(ex)[:120], json.dumps(cfg, sort_keys=True)), {"cfg": cfg, "kind": "stability"})
        return None


def oracle_long(chk, cfg, nrows):
    """finiteness and boundedness along a long real history; since Round 5 also, after EVERY step: the working array moved down by
    exactly one row (bitwise) and the new row is A·Z + B·b of the array before the step and the next block of the stream — an
    event that happens only every so many rows (a counter wrapping, a periodic re-centring, a buffer longer than the 3·length
    histories reach) has nowhere to hide"""
    try:
        ps, g = construct(cfg)
    except Exception as ex:
        chk.count("oracle:construct-raises:" + type(ex).__name__)
        return
    vk = variant_key(ps, cfg)
    chk.oracle_cases += 1
    chk.count("oracle:long:%s" % vk)
    chk.case(("oracle-long", json.dumps(cfg, sort_keys=True), nrows))
    s0 = float(vk_covariance(0.0, cfg["r0"], cfg["L0"]))
    ref = clone_gen(g)
    nx = ps.nx_size
    row_fails = 0
    for t in range(nrows):
        before = numpy.array(ps._scrn, copy=True)
        try:
            out = ps.add_row()
        except Exception as ex:
            chk.fail("raises:%s" % vk, "add_row() raised %s: %s after %d add_row  %s" % (type(ex).__name__, str(ex)[:120], t,
                                                                                     json.dumps(cfg, sort_keys=True)),
                     {"cfg": cfg, "ops": "a" * (t + 1), "kind": "raises"})
            return
        now = numpy.asarray(ps._scrn)
        if now.shape != before.shape or not bits_equal(now[1:], before[:-1]):
            chk.fail("shift-internal:%s" % vk, "add_row number %d of a long history did not move the working array down by exactly one "
                     "row (shape %r -> %r)  %s" % (t + 1, before.shape, now.shape, json.dumps(cfg, sort_keys=True)),
                     {"cfg": cfg, "ops": "a" * (t + 1), "kind": "shift-internal"})
            return
        if not bits_equal(numpy.asarray(out), now[:cfg["req"], :cfg["req"]]):
            chk.fail("shift:%s" % vk, "add_row number %d of a long history returned something else than the top-left N x N block of "
                     "the working array  %s" % (t + 1, json.dumps(cfg, sort_keys=True)),
                     {"cfg": cfg, "ops": "a" * (t + 1), "kind": "shift"})
            return
        noise = ref.normal(0, 1, size=nx)
        if g.bit_generator.state == ref.bit_generator.state:      # stream bookkeeping itself is a correspondence matter (oracle_history)
            row, scale = expected_row(ps, cfg, before, noise)
            err = numpy.abs(now[0] - row)
            if not (err <= ROW_RTOL * scale + 1e-300).all():
                chk.fail("row:%s" % vk, "row number %d of a long history differs from A·Z + B·b of the array before it and the next %d "
                         "normals of the stream by %.3g (scale %.3g)  %s" % (t + 1, nx, float(err.max()), float(scale.max()),
                                                                             json.dumps(cfg, sort_keys=True)),
                         {"cfg": cfg, "ops": "a" * (t + 1), "kind": "row"})
                row_fails += 1
                if row_fails >= 2:
                    return
        else:
            ref.bit_generator.state = copy.deepcopy(g.bit_generator.state)
        if t % 64 == 63 or t == nrows - 1:
            if out.shape != (cfg["req"], cfg["req"]):
                chk.fail("shape:%s" % vk, "shape %r after %d add_row  %s" % (out.shape, t + 1, json.dumps(cfg, sort_keys=True)),
                         {"cfg": cfg, "ops": "a" * (t + 1), "kind": "shape"})
                return
            if not numpy.isfinite(ps._scrn).all():
                chk.fail("finite:%s" % vk, "non-finite entries after %d add_row  %s" % (t + 1, json.dumps(cfg, sort_keys=True)),
                         {"cfg": cfg, "ops": "a" * (t + 1), "kind": "finite"})
                return
    if cfg["variant"] == "vk":
        # a stationary Gaussian field with variance S(0): 12 sigma is never reached by a stable recursion
        mx = float(numpy.max(numpy.abs(ps._scrn)))
        if not mx <= 12 * math.sqrt(s0):
            chk.fail("bounded:vk", "max |phase| = %.3g after %d add_row, more than 12 standard deviations (%.3g) of the von "
                     "Kármán field  %s" % (mx, nrows, math.sqrt(s0), json.dumps(cfg, sort_keys=True)),
                     {"cfg": cfg, "ops": "a" * nrows, "kind": "bounded"})


# --------------------------------------------------------------------------------------------- oracle: live siblings (Round 5)
def oracle_interleaved(chk, cfgs, n_ops, late=(), schedule=None, rng=None):
    """several screens alive at the same time in one process, their add_row / read operations interleaved at random; the
    configurations in `late` are constructed in the middle of the schedule.  Each operation is checked on its own object (shape,
    exact one-row shift of the exposed and of the working array, row = A·Z + B·b of ITS array and ITS stream, reads pure), and
    every operation — and every construction — must leave the working array, the stream position and the matrices of all the
    OTHER objects bitwise as they were: 'nothing else changes' includes the sibling screens (layers of one atmosphere)."""
    rng = rng or chk.rng
    live = []           # dicts: cfg, ps, g, ref, prev, vk, A, B
    all_cfgs, n_initial = list(cfgs) + list(late), len(cfgs)

    def enter(cfg):
        try:
            ps, g = construct(cfg)
        except Exception as ex:
            chk.count("oracle:construct-raises:" + type(ex).__name__)
            return
        if no_stream(chk, cfg, g):
            return
        live.append({"cfg": cfg, "ps": ps, "g": g, "ref": clone_gen(g), "prev": numpy.array(ps.scrn, copy=True), "vk": variant_key(ps, cfg),
                     "A": numpy.array(ps.A_mat, copy=True), "B": numpy.array(ps.B_mat, copy=True), "nadd": 0})

    def snapshot(skip):
        return [(o, numpy.array(o["ps"]._scrn, copy=True), copy.deepcopy(o["g"].bit_generator.state)) for o in live if o is not skip]

    def others_untouched(snap, what, sched):
        for o, scr, st in snap:
            same = (bits_equal(numpy.asarray(o["ps"]._scrn), scr) and o["g"].bit_generator.state == st
                    and bits_equal(numpy.asarray(o["ps"].A_mat), o["A"]) and bits_equal(numpy.asarray(o["ps"].B_mat), o["B"]))
            if not same:
                chk.fail("sibling:%s" % o["vk"], "%s changed the %s of ANOTHER live screen %s  [schedule so far: %s]"
                         % (what, "working array" if not bits_equal(numpy.asarray(o["ps"]._scrn), scr) else
                            ("random stream" if o["g"].bit_generator.state != st else "A_mat / B_mat"),
                            json.dumps(o["cfg"], sort_keys=True), sched),
                         {"kind": "interleaved", "cfgs": all_cfgs, "n_initial": n_initial, "schedule": sched.strip()})
                return False
        return True

    for cfg in cfgs:
        snap = snapshot(None)
        enter(cfg)
        if not others_untouched(snap, "constructing %s" % json.dumps(cfg, sort_keys=True), ""):
            return
    if len(live) < 2:
        return
    chk.oracle_cases += 1
    chk.count("oracle:interleaved")
    chk.count("oracle:interleaved:objects", len(live) + len(late))
    chk.case(("oracle-interleaved", json.dumps([o["cfg"] for o in live], sort_keys=True), n_ops))
    late = list(late)
    if schedule is None:        # "+" = construct the next late configuration; "<j><op>" = operation op on live object j
        tokens, n_live = [], len(live)
        for i in range(n_ops):
            if i >= n_ops // 2 and n_live - len(live) < len(late):
                tokens.append("+")
                n_live += 1
            tokens.append("%d%s" % (rng.randrange(n_live), rng.choice("aaaasrp")))
    else:
        tokens = schedule.split()
    sched = ""
    for tok in tokens:
        sched += " " + tok
        if tok == "+":
            if not late:
                return
            cfg = late.pop(0)
            snap = snapshot(None)
            n_before = len(live)
            enter(cfg)
            if len(live) == n_before:          # a late construction that raises ends the schedule (indices would shift)
                return
            if not others_untouched(snap, "constructing %s" % json.dumps(cfg, sort_keys=True), sched):
                return
            continue
        j, op = int(tok[:-1]), tok[-1]
        if not 0 <= j < len(live):
            return
        o = live[j]
        ps, g, cfg, vk = o["ps"], o["g"], o["cfg"], o["vk"]
        req, nx, ln = cfg["req"], ps.nx_size, ps.stencil_length
        snap = snapshot(o)
        before = numpy.array(ps._scrn, copy=True)
        st = copy.deepcopy(g.bit_generator.state)
        rep = {"kind": "interleaved", "cfgs": all_cfgs, "n_initial": n_initial, "schedule": sched.strip()}

        def bad(kind, what):
            chk.fail("%s:%s" % (kind, vk), "%s  [object %d = %s of %d live screens, schedule: %s]"
                     % (what, j, json.dumps(cfg, sort_keys=True), len(live), sched), rep)
        try:
            val = {"a": ps.add_row, "s": lambda: ps.scrn, "r": lambda: repr(ps), "p": lambda: str(ps)}[op]()
        except Exception as ex:
            bad("raises", "%s raised %s: %s" % (op, type(ex).__name__, str(ex)[:120]))
            return
        if op == "a":
            o["nadd"] += 1
            noise = o["ref"].normal(0, 1, size=nx)
            outc = numpy.array(val, copy=True)
            now = numpy.asarray(ps._scrn)
            if outc.shape != (req, req):
                bad("shape", "add_row() returned shape %r, requested (%d,%d)" % (outc.shape, req, req))
                return
            if not bits_equal(outc[1:], o["prev"][:-1]):
                bad("shift", "exposed screen after add_row is not the previous one of THIS object moved down by one row")
                return
            if now.shape != (ln, nx) or not bits_equal(now[1:], before[:-1]) or not bits_equal(outc, now[:req, :req]):
                bad("shift-internal", "working array of THIS object did not move down by exactly one row")
                return
            if not numpy.isfinite(outc).all():
                bad("finite", "non-finite entries after %d add_row" % o["nadd"])
                return
            if g.bit_generator.state == o["ref"].bit_generator.state:
                row, scale = expected_row(ps, cfg, before, noise)
                err = numpy.abs(now[0] - row)
                if not (err <= ROW_RTOL * scale + 1e-300).all():
                    bad("row", "generated row differs from A·Z + B·b of this object's previous array and the next %d normals of its own "
                        "stream by %.3g (scale %.3g)" % (nx, float(err.max()), float(scale.max())))
                    return
            else:
                chk.broke("correspondence", "interleaved add_row left the object's generator at another position than one block of %d "
                          "normals further  %s  schedule %s" % (nx, json.dumps(cfg, sort_keys=True), sched))
                return
            o["prev"] = outc
        else:
            if op == "s" and not bits_equal(numpy.array(val), o["prev"]):
                bad("read", ".scrn does not show what the last add_row of THIS object left")
                return
            if not bits_equal(numpy.asarray(ps._scrn), before) or not bits_equal(numpy.array(ps.scrn), o["prev"]):
                bad("read", "reading (%s) altered the working array" % op)
                return
            if g.bit_generator.state != st:
                bad("read-rng", "reading (%s) advanced the random stream" % op)
                return
        if not others_untouched(snap, "operation '%s' on screen %d (%s)" % (op, j, json.dumps(cfg, sort_keys=True)), sched):
            return


# --------------------------------------------------------------------------------------------- oracle: further histories
def oracle_watched_twin(chk, cfg, n_add):
    """two objects of one configuration and seed: on one, every add_row is followed by repr / str / print / .scrn; the twin only
    adds rows and is never looked at in between.  Reading never alters the screen or the stream ⇒ both show bit-identical
    screens after every add_row (catches a read that writes through a view of the working array)."""
    import io
    try:
        ps, g = construct(cfg)
        tw, gt = construct(cfg)
    except Exception as ex:
        chk.count("oracle:construct-raises:" + type(ex).__name__)
        return
    vk = variant_key(ps, cfg)
    chk.oracle_cases += 1
    chk.count("oracle:watched-twin:%s" % vk)
    chk.case(("oracle-twin", json.dumps(cfg, sort_keys=True), n_add))
    reads = ("r", "p", "P", "s", "f")
    done = ""
    for t in range(n_add):
        a = numpy.array(ps.add_row(), copy=True)
        done += "a"
        for rd in reads:
            if rd == "r":
                repr(ps)
            elif rd == "p":
                str(ps)
            elif rd == "P":
                print(ps, file=io.StringIO())
            elif rd == "f":        # Round 5: the other routes to the printed form, and reading through a copy / reduction
                format(ps), "%s %r" % (ps, ps), "{0} {0!r}".format(ps), numpy.array(ps.scrn).sum(), ps.scrn.copy(), ps.scrn.tolist()
            else:
                ps.scrn
            done += "r" if rd in "rpPf" else "s"
            now = numpy.array(ps.scrn, copy=True)
            if not bits_equal(now, a):
                chk.fail("read:%s" % vk, "%s after %d add_row changed the exposed screen (max |Δ| = %.3g)  %s"
                         % ({"r": "repr()", "p": "str()", "P": "print()", "s": ".scrn", "f": "format() / %-formatting / .scrn.copy()"}[rd], t + 1,
                            float(numpy.max(numpy.abs(now - a))) if now.shape == a.shape else float("nan"),
                            json.dumps(cfg, sort_keys=True)), {"cfg": cfg, "ops": done, "kind": "read"})
                return
        b = numpy.array(tw.add_row(), copy=True)
        if not bits_equal(numpy.array(ps.scrn, copy=True), b) or not bits_equal(numpy.asarray(ps._scrn), numpy.asarray(tw._scrn)) \
                or g.bit_generator.state != gt.bit_generator.state:
            chk.fail("read-twin:%s" % vk, "after %d add_row the screen that was printed / read after every step differs from its twin "
                     "(same configuration and seed) that was never read (max |Δ| of the exposed screens = %.3g, generator "
                     "states equal: %s)  %s" % (t + 1, float(numpy.max(numpy.abs(numpy.asarray(ps.scrn) - b))),
                                               g.bit_generator.state == gt.bit_generator.state, json.dumps(cfg, sort_keys=True)),
                     {"cfg": cfg, "ops": done, "kind": "read-twin"})
            return


def ops_many_adds(rng, n_add, p_read=0.15):
    out = ""
    for _ in range(n_add):
        out += "a"
        if rng.random() < p_read:
            out += rng.choice("srp")
    return out


def view_semantics(chk, cfg):
    """RECORDED, not asserted: .scrn / add_row() hand out VIEWS of the working array (the model returns values).  A caller who
    writes into the returned array changes the screen — that is the caller's write, not a read, so the property is silent about
    it; the other direction (a later add_row must not rewrite an array handed out earlier) is asserted in oracle_history."""
    try:
        ps, g = construct(cfg)
    except Exception:
        return None
    ps.add_row()
    out = ps.scrn
    shares = bool(numpy.shares_memory(out, ps._scrn))
    writable = bool(out.flags.writeable)
    return {"cfg": {k: cfg[k] for k in ("variant", "req")}, ".scrn shares memory with _scrn": shares, "writeable": writable}


def exposed_screen_measurement(cfg, lags=(1, 2, 4, 8, 15)):
    """The stability clause is proved / checked for the recursion STATE (the first n_columns rows).  The
    exposed N×N screen contains older rows too; its stationary covariance is that of the SAME recursion on the full working
    array (N rows; rows below the stencil are only shifted).  Here: discrete Lyapunov solution for the full array vs the
    theoretical covariance — overall deviation and the structure function D(lag) = E[(φ(r,c) − φ(r+lag,c))²] at a few ROW
    lags (averaged over the columns c, and for the middle column) relative to theory."""
    from scipy.linalg import solve_discrete_lyapunov
    ps, g = construct(cfg)
    n, ln, px = ps.nx_size, ps.stencil_length, cfg["px"]
    sc = numpy.asarray(ps.stencil_coords)
    m = ln * n
    F = numpy.zeros((m, m))
    F[:n, sc[:, 0] * n + sc[:, 1]] = ps.A_mat
    F[n:, :m - n] = numpy.eye(m - n)
    G = numpy.zeros((m, n))
    G[:n] = ps.B_mat
    P = solve_discrete_lyapunov(F, G.dot(G.T))
    ii, jj = numpy.meshgrid(numpy.arange(ln), numpy.arange(n), indexing="ij")
    pos = numpy.stack([ii.ravel(), jj.ravel()], 1) * px
    S = vk_covariance(numpy.sqrt(((pos[:, None, :] - pos[None, :, :]) ** 2).sum(-1)), cfg["r0"], cfg["L0"])
    out = {"config": "PhaseScreenVonKarman(%d, %g, %g, %g, n_columns=%d)" % (cfg["req"], px, cfg["r0"], cfg["L0"], cfg["nc"]),
           "L0/px": cfg["L0"] / px, "max|P_full - S|/S(0)": float(numpy.max(numpy.abs(P - S)) / S[0, 0]),
           "max|P_state - S|/S(0) (first n_columns rows)": float(numpy.max(numpy.abs(P - S)[:cfg["nc"] * n, :cfg["nc"] * n]) / S[0, 0]),
           "row-lag structure function, stationary / theory": {}}
    for lag in lags:
        if lag >= ln:
            continue
        i = numpy.arange(n)
        j = lag * n + numpy.arange(n)
        dp = P[i, i] + P[j, j] - 2 * P[i, j]
        ds = S[i, i] + S[j, j] - 2 * S[i, j]
        out["row-lag structure function, stationary / theory"]["lag %d" % lag] = {
            "column mean": round(float(dp.mean() / ds.mean()), 4), "middle column": round(float(dp[n // 2] / ds[n // 2]), 4)}
    return out


EXPOSED_CFGS = [{"variant": "vk", "req": 16, "px": 1.0, "r0": 0.2, "L0": 100.0, "nc": nc, "seed": 1} for nc in (1, 2, 4)] + \
               [{"variant": "vk", "req": 16, "px": 0.1, "r0": 0.15, "L0": 25.0, "nc": 2, "seed": 1}]
# whole-screen deviation max|P_full − S|/S(0) of the four fixed configurations on the repaired tree (2026-09-27); the known finding
# covers the phenomenon, a larger deviation than recorded is reported under its own key
EXPOSED_RECORDED = [0.32354, 0.013222, 0.013810, 0.011413]
HUGE_L0 = [{"variant": "fried", "req": 9, "px": 0.05, "r0": 0.1, "L0": 1e5, "factor": 4, "seed": 3},
           {"variant": "fried", "req": 20, "px": 0.05, "r0": 0.2, "L0": 1e5, "factor": 2, "seed": 4},
           {"variant": "vk", "req": 32, "px": 0.05, "r0": 0.1, "L0": 1e4, "nc": 2, "seed": 5},
           {"variant": "vk", "req": 16, "px": 0.05, "r0": 0.2, "L0": 1e5, "nc": 2, "seed": 6}]


# --------------------------------------------------------------------------------------------- correspondence
def parse_blocks(ans, conv):
    parts = ans.split(" ; ")
    pos = int(parts[0])
    blocks = []
    for p in parts[1:]:
        t = p.split()
        if t[1] == "ragged":
            blocks.append((t[0], None))
            continue
        r, c = int(t[1]), int(t[2])
        vals = [conv(x) for x in t[3:]]
        blocks.append((t[0], (r, c, vals)))
    return pos, blocks


def run_real(ps, g, ops):
    """outputs of the real object along a history: list of (op, exposed array copy), new rows, final internal"""
    outs, rows = [], []
    for op in ops:
        if op == "a":
            out = ps.add_row()
            rows.append(numpy.array(ps._scrn[0], copy=True))
        elif op == "s":
            out = ps.scrn
        else:
            repr(ps)
            out = ps.scrn
        outs.append((op, numpy.array(out, copy=True)))
    return outs, rows


def correspondence(chk, n_ids, n_hist, maxn, all_sizes):
    rng = chk.rng
    jobs = []          # (kind, line, context)
    # --- find_allowed_size and the size configuration
    from aotools.turbulence import infinitephasescreen as ips
    sizes = list(range(1, 70 if chk.tier == "quick" else 1100)) + [2 ** k + d for k in range(7, 15) for d in (0, 1, 2)]
    for n in sizes:
        jobs.append(("fas", "C05 fas %d" % n, n))
    # --- label runs (exact) and float runs (tolerance) on real objects
    cfgs = []
    if all_sizes:
        for v in VARIANTS:
            for n in range(1, maxn + 1):
                cfgs.append(gen_cfg(rng, maxn, variant=v, req=n))
    while len(cfgs) < n_ids:
        cfgs.append(gen_cfg(rng, maxn))
    nh = 0
    for cfg in cfgs:
        try:
            ps, g = construct(cfg)
        except Exception as ex:
            chk.count("corr:construct-raises:" + type(ex).__name__)
            continue
        req, nx, ln = cfg["req"], int(ps.nx_size), int(ps.stencil_length)
        jobs.append(("cfg", "C05 cfg %s %d %d" % (cfg["variant"], req, cfg.get("factor", 1)), (cfg, (req, nx, ln))))
        ops = gen_ops(rng, rng.randint(1, 14 if chk.tier == "quick" else 40))
        S0 = numpy.array(ps._scrn, copy=True)
        A, B = numpy.array(ps.A_mat, dtype=float), numpy.array(ps.B_mat, dtype=float)
        sc = numpy.array(ps.stencil_coords)
        inb = len(sc) > 0 and sc.ndim == 2 and (sc >= 0).all() and (sc[:, 0] < ln).all() and (sc[:, 1] < nx).all()
        if cfg["variant"] == "fried":
            rc = tuple(int(x) for x in ps.reference_coord)
            inb = inb and 0 <= rc[0] < ln and 0 <= rc[1] < nx
        if not inb:
            chk.broke("correspondence", "hypothesis of vkKernel_rowOK / friedKernel_rowOK fails on the real object: stencil "
                      "coordinates or reference point outside the %d x %d working array  %s" % (ln, nx, json.dumps(cfg)))
            continue
        if A.shape != (nx, len(sc)) or B.shape != (nx, nx) or S0.shape != (ln, nx):
            chk.broke("correspondence", "kernel contract RowOK/WF does not hold on the real object: A %r B %r _scrn %r for "
                      "nx=%d n_stencils=%d len=%d  %s" % (A.shape, B.shape, S0.shape, nx, len(sc), ln, json.dumps(cfg)))
            continue
        noise_gen = clone_gen(g)
        nadd = ops.count("a")
        noise = noise_gen.normal(0, 1, size=(nadd, nx)) if nadd else numpy.zeros((0, nx))
        if nadd:   # the stream read in one call equals the stream read block by block (what the model indexes)
            chk_gen = clone_gen(g)
            blockwise = numpy.array([chk_gen.normal(0, 1, size=nx) for _ in range(nadd)])
            if not bits_equal(blockwise, noise):
                raise RuntimeError("numpy Generator.normal is not block-consistent; harness assumption broken")
        pre_log = len(g.log)
        try:
            outs, rows = run_real(ps, g, ops.replace("p", "r"))
        except Exception as ex:
            chk.broke("correspondence", "implementation raised %s (%s) along history %s of %s; the model does not"
                      % (type(ex).__name__, str(ex)[:100], ops, json.dumps(cfg, sort_keys=True)))
            continue
        drew = g.log[pre_log:]
        end_state = g.bit_generator.state
        ref = clone_gen(noise_gen)    # state after exactly nadd blocks of nx normals
        ctx = {"cfg": cfg, "ops": ops, "S0": S0, "outs": outs, "rows": rows, "final": numpy.array(ps._scrn, copy=True),
               "drew": drew, "pos_ok": end_state == ref.bit_generator.state, "nx": nx, "ln": ln, "req": req, "A": A, "B": B,
               "noise": noise, "vk": variant_key(ps, cfg)}
        jobs.append(("ids", "C05 ids %d %d %d %s" % (req, nx, ln, ops.replace("p", "r")), ctx))
        small = nx <= (17 if chk.tier == "quick" else 33)
        if nh < n_hist and small and nadd <= 6:
            nh += 1
            ints = " ".join("%d %d" % (int(i), int(j)) for i, j in sc)
            if cfg["variant"] == "fried":
                ints += " %d %d" % tuple(int(x) for x in ps.reference_coord)
            fl = " ".join(common.f2h(x) for x in list(A.ravel()) + list(B.ravel()) + list(S0.ravel()) + list(noise.ravel()))
            jobs.append(("hist", "C05 hist %s %d %d %d %d %s %s %s" % (cfg["variant"], req, nx, ln, len(sc), ints,
                                                                      ops.replace("p", "r"), fl), ctx))
    # malformed lines must be refused, never defaulted
    for bad in ("C05 ids 2 3 4 ax", "C05 fas x", "C05 hist vk 2 2 2 4 0 0 0 1 1 0 5 5 a", "C05 nope"):
        jobs.append(("malformed", bad, None))
    answers = common.run_driver([j[1] for j in jobs], "C05")
    for (kind, line, ctx), ans in zip(jobs, answers):
        chk.corr_cases += 1
        chk.count("corr:" + kind)
        if kind == "malformed":
            if ans != "bad-op":
                chk.broke("correspondence", "driver accepted malformed line %r -> %r" % (line, ans[:60]))
            continue
        if ans == "bad-op":
            chk.broke("correspondence", "driver refused %s" % line[:120])
            continue
        if kind == "fas":
            real = int(ips.find_allowed_size(ctx))
            chk.case(("fas", ctx), nontrivial=ctx < 40)
            if int(ans) != real:
                chk.broke("correspondence", "find_allowed_size(%d): model %s, implementation %d" % (ctx, ans, real))
            continue
        if kind == "cfg":
            cfg, real = ctx
            chk.case(("cfg", cfg["variant"], cfg["req"], cfg.get("factor", 1)))
            if tuple(int(x) for x in ans.split()) != real:
                chk.broke("correspondence", "sizes (requested, internal width, rows kept): model %s, implementation %r for %s"
                          % (ans, real, json.dumps(cfg)))
            continue
        cfg, ops = ctx["cfg"], ctx["ops"]
        nx, ln, req = ctx["nx"], ctx["ln"], ctx["req"]
        what = "%s ops=%s" % (json.dumps(cfg, sort_keys=True), ops)
        if kind == "ids":
            pos, blocks = parse_blocks(ans, int)
            chk.case(("ids", json.dumps(cfg, sort_keys=True), ops),
                     sample={"op": line[:80], "cfg": cfg, "model_pos": pos} if chk.corr_cases % 50 == 3 else None)
            chk.count("corr:ids:%s" % ctx["vk"])
            nadd = ops.count("a")
            total = sum(c for (_, c) in ctx["drew"])
            if pos != total or any(nm not in ("normal", "standard_normal") for nm, _ in ctx["drew"]) or not ctx["pos_ok"] \
                    or [c for _, c in ctx["drew"]] != [nx] * nadd:
                chk.broke("correspondence", "generator consumption: model position %d (= %d add_row × %d), implementation drew "
                          "%r, stream position as predicted: %s; %s" % (pos, nadd, nx, ctx["drew"][:6], ctx["pos_ok"], what))

            def val(label):
                if label < ln * nx:
                    return ctx["S0"].flat[label]
                d = label - ln * nx
                return ctx["rows"][d // nx][d % nx]
            reals = ctx["outs"] + [("I", ctx["final"])]
            if len(blocks) != len(reals):
                chk.broke("correspondence", "model answered %d blocks for %d operations; %s" % (len(blocks), len(reals), what))
                continue
            for bi, ((tag, blk), (op, arr)) in enumerate(zip(blocks, reals)):
                if blk is None:
                    chk.broke("correspondence", "model array ragged at op %d; %s" % (bi, what))
                    break
                r, c, labels = blk
                if (r, c) != arr.shape:
                    chk.broke("correspondence", "shape after op %d ('%s'): model (%d,%d), implementation %r; %s"
                              % (bi, op, r, c, arr.shape, what))
                    break
                try:
                    exp = numpy.array([val(l) for l in labels], dtype=float).reshape(r, c)
                except IndexError:
                    chk.broke("correspondence", "model refers to a row the implementation never generated at op %d; %s" % (bi, what))
                    break
                if not bits_equal(exp, numpy.asarray(arr, dtype=float)):
                    chk.broke("correspondence", "content after op %d ('%s'): the implementation's array is not the arrangement "
                              "of initial entries and generated rows the model predicts (%d entries differ); %s"
                              % (bi, op, int((exp != arr).sum()), what))
                    break
        else:
            pos, blocks = parse_blocks(ans, common.h2f)
            chk.case(("hist", json.dumps(cfg, sort_keys=True), ops))
            chk.count("corr:hist:%s" % ctx["vk"])
            reals = ctx["outs"] + [("I", ctx["final"])]
            # running error bound: one step contributes <= 1e-12·scale (rounding is ~1e-14·scale), earlier errors are
            # amplified by at most (2·|A|_inf + 1) per step
            ainf = float(numpy.abs(ctx["A"]).sum(1).max())
            amp = max(1.0, ainf) if cfg["variant"] == "vk" else 2 * ainf + 1
            e, k, scr = 0.0, 0, ctx["S0"]
            if len(blocks) != len(reals):
                chk.broke("correspondence", "Float model answered %d blocks for %d operations; %s" % (len(blocks), len(reals), what))
                continue
            okk = True
            for bi, ((tag, blk), (op, arr)) in enumerate(zip(blocks, reals)):
                if op == "a":
                    sc_abs = float(numpy.abs(scr).max()) + float(numpy.abs(ctx["noise"][k]).max()) * float(numpy.abs(ctx["B"]).sum(1).max())
                    e = amp * e + 1e-12 * ((2 * ainf + 1) * sc_abs + 1e-300)
                    k += 1
                if blk is None or (blk[0], blk[1]) != arr.shape:
                    chk.broke("correspondence", "Float model shape differs at op %d; %s" % (bi, what))
                    okk = False
                    break
                m = numpy.array(blk[2], dtype=float).reshape(arr.shape)
                if op == "a" or op == "I":
                    scr = numpy.asarray(arr)
                d = float(numpy.max(numpy.abs(m - arr))) if arr.size else 0.0
                if not d <= e:
                    chk.broke("correspondence", "Float model and implementation differ by %.3g (bound %.3g) after op %d ('%s'); %s"
                              % (d, e, bi, op, what))
                    okk = False
                    break
            if okk and e > 1e-6 * (float(numpy.abs(ctx["S0"]).max()) + 1e-300):
                chk.count("corr:hist:loose-bound")


# --------------------------------------------------------------------------------------------- Round 5: generator audit
BIG_SIZES = [("vk", 40, 2), ("fried", 34, 1), ("fried", 48, 2), ("vk", 64, 2), ("fried", 64, 1), ("fried", 65, 2), ("fried", 66, 1),
             ("vk", 100, 1), ("fried", 100, 1), ("fried", 129, 1), ("fried", 130, 1), ("vk", 129, 2), ("vk", 200, 2), ("fried", 257, 1)]


def with_par(cfg, par):
    cfg = dict(cfg)
    cfg.pop("nc", None), cfg.pop("factor", None)
    cfg["nc" if cfg["variant"] == "vk" else "factor"] = par
    return cfg


def cast_twins(chk, rng, quick):
    """the same parameter VALUES handed over as another numeric type (Python int, NumPy integer / float64 scalars, 0-d arrays) give the
    same object: A, B and — with the same seed — the same screen after every step, as the twin built from plain Python floats of exactly
    those values.  The history clauses only compare an object with its own matrices, and the stationarity oracle is only run on float
    parameters, so an integer pixel_scale that makes the separations integer (truncated distances, seeded change C05-I: stationary
    covariance off by 2-15 %) passed every clause of rounds 1-5."""
    for k in range(10 if quick else 80):
        cfg = gen_cfg(rng, 12 if quick else 24)
        cast = ("pyint", "npint", "npfloat", "zerod")[k % 4] if k % 8 < 4 else "pyint"
        if k % 8 == 5:
            # sizes 128 … 255 as numpy.uint8 with the stencil depth in the same type: products of the two wrap in 8 bits (seeded change
            # C05-L built the von Karman stencil from numpy.arange(n_columns * nx_size): 2·200 -> 144 points, all in row 0)
            cast = "uint8"
            cfg = with_par(gen_cfg(rng, 12, variant="vk"), 2)      # von Karman only: the Fried variant's working size (257) does not fit the type and numpy refuses it loudly
            cfg["req"] = rng.choice([129, 130, 150, 200])
        if cast == "pyint":         # whole metres: pixel 1 … 3 m, outer scale a few … 40 pixels
            cfg["px"] = float(rng.choice([1, 1, 2, 3]))
            cfg["L0"] = float(cfg["px"] * rng.choice([2, 3, 5, 8, 13, 20, 40]))
            cfg["r0"] = float(rng.choice([1, 2, 3]))
        a = dict(cfg, cast=cast)
        req, px, r0, L0, par = cast_arguments(a)
        b = dict(cfg, req=int(req), px=float(px), r0=float(r0), L0=float(L0))
        rep = {"cfg": {kk: vv for kk, vv in a.items()}, "twin_with_python_floats": {kk: vv for kk, vv in b.items()}}
        chk.count("oracle:cast-twin:" + cast)
        chk.oracle_cases += 1
        chk.case(("cast-twin", json.dumps(a, sort_keys=True)))
        try:
            pb, gb = construct(b)
        except Exception:
            continue                                       # the float configuration itself is refused: nothing to compare with
        try:
            pa, ga = construct(a)
        except Exception as ex:
            chk.fail("cast-twin:raises:%s:%s" % (cfg["variant"], cast), "%s(nx=%r, pixel_scale=%r, r0=%r, L0=%r) raised %r; with the same values "
                     "as Python floats it constructs" % (cfg["variant"], req, px, r0, L0, ex), rep)
            continue
        bad = None
        for name in ("A_mat", "B_mat"):
            x, y = numpy.asarray(getattr(pa, name), dtype=float), numpy.asarray(getattr(pb, name), dtype=float)
            if x.shape != y.shape or not numpy.all(numpy.abs(x - y) <= 1e-7 * max(1.0, float(numpy.max(numpy.abs(y))))):
                bad = "%s differs by %.3g (largest entry %.3g)" % (name, float(numpy.max(numpy.abs(x - y))) if x.shape == y.shape else float("nan"),
                                                                    float(numpy.max(numpy.abs(y))))
                break
        if bad is None:
            for step in range(4):
                x, y = numpy.asarray(pa.scrn, dtype=float), numpy.asarray(pb.scrn, dtype=float)
                if x.shape != y.shape or not numpy.all(numpy.abs(x - y) <= 1e-6 * max(1.0, float(numpy.max(numpy.abs(y))))):
                    bad = "screen after %d steps differs by %.3g" % (step, float(numpy.max(numpy.abs(x - y))) if x.shape == y.shape else float("nan"))
                    break
                pa.add_row()
                pb.add_row()
        if bad:
            chk.fail("cast-twin:%s:%s" % (cfg["variant"], cast), "%s(nx=%r, pixel_scale=%r, r0=%r, L0=%r) with the arguments as %s and the twin with "
                     "the same values as Python floats (same seed): %s" % (cfg["variant"], req, px, r0, L0, cast, bad), rep)


def sibling_r0(chk, rng, quick):
    """screens of ONE geometry and outer scale built one after the other with different r0 (the layers of one atmosphere): the matrix A
    is the same for all of them and B·Bᵀ scales as r0^(-5/3) — exactly, both follow from the covariance being r0^(-5/3) times a function
    of the geometry and L0.  (Seeded change C05-K kept A and B in a module-level memo keyed on geometry and L0 only: later screens
    drove their recursion with the first screen's B; every history clause compares an object with its OWN matrices.)
    Lean: `stationary_scales` / `stationary_scales_unique` — with the same A and B'·B'ᵀ = s·B·Bᵀ the stationary covariance of the
    sibling is s times the first screen's."""
    for k in range(4 if quick else 40):
        cfg = gen_cfg(rng, 10 if quick else 20)
        r0s = [cfg["r0"], cfg["r0"] * rng.choice([0.25, 0.5, 2.0, 4.0]), cfg["r0"] * rng.choice([0.125, 3.0])]
        mats = []
        chk.oracle_cases += 1
        chk.count("oracle:sibling-r0")
        chk.case(("sibling-r0", json.dumps(cfg, sort_keys=True), r0s))
        for r0 in r0s:
            try:
                ps, _ = construct(dict(cfg, r0=r0))
            except Exception:
                mats = []
                break
            A, B = numpy.array(ps.A_mat, dtype=float), numpy.array(ps.B_mat, dtype=float)
            mats.append((r0, A, B @ B.T))
        for r0, A, Q in mats[1:]:
            r00, A0, Q0 = mats[0]
            want = Q0 * (r0 / r00) ** (-5. / 3)
            # tolerances: A = Cxz·Czz⁻¹ and B·Bᵀ = Cxx − A·Czx are computed from covariances that are scaled by a factor which is not a power
            # of two, so they agree to eps·cond(Czz) only (observed up to 1.0e-7 of the largest entry of B·Bᵀ at L0/pixel ≈ 1400 in a thorough
            # run — the first version of this clause demanded 1e-7 and alarmed on the unchanged tree); a memo serving another r0's B is off by O(1)
            ok = A.shape == A0.shape and numpy.all(numpy.abs(A - A0) <= 1e-5 * max(1.0, float(numpy.max(numpy.abs(A0))))) and \
                numpy.all(numpy.abs(Q - want) <= 1e-3 * float(numpy.max(numpy.abs(want))) + 1e-300)
            if not ok:
                chk.fail("sibling-r0:%s" % cfg["variant"], "%s screens of one geometry (nx=%r, pixel_scale=%r, L0=%r) built one after the other with "
                         "r0 = %r and then r0 = %r: A must be equal and B·Bᵀ scale by (r0'/r0)^(-5/3); A differs by %.3g, B·Bᵀ is off by %.3g of its "
                         "largest entry" % (cfg["variant"], cfg["req"], cfg["px"], cfg["L0"], r00, r0,
                                            float(numpy.max(numpy.abs(A - A0))) if A.shape == A0.shape else float("nan"),
                                            float(numpy.max(numpy.abs(Q - want)) / numpy.max(numpy.abs(want))) if Q.shape == want.shape else float("nan")),
                         {"cfg": cfg, "r0_sequence": r0s})
                break


def round5_histories(chk, rng, quick, maxn):
    """input classes and histories the generators of rounds 1-4 never produced (all inside the stated domain: 'all sequences of
    add_row / read operations of any length, for both screen variants and all sizes and parameters')"""
    # (a) the same numbers as other numeric types; random_seed as everything default_rng accepts (0, > 2^32, > 2^53, > 2^64, numpy
    # integer, SeedSequence, None) instead of an injected Generator; positional / all-keyword calls and the optional argument
    # left at its default; the package-level names aotools.PhaseScreen*, aotools.turbulence.PhaseScreen*
    dims = [("seedkind", SEED_KINDS), ("cast", ARG_CASTS), ("call", CALL_FORMS), ("entry", ENTRIES)]
    singles = [(name, v) for name, pool in dims for v in pool]         # every class on its own once per run (19 cases) …
    for k in range(32 if quick else 400):
        cfg = gen_cfg(rng, maxn if k % 2 else 12)
        if k % 32 < len(singles):
            if singles[k % 32][1] == "smallint":     # sizes whose square does not fit the 8-bit type
                cfg = gen_cfg(rng, maxn, req=rng.randint(12, maxn))
            cfg[singles[k % 32][0]] = singles[k % 32][1]
        else:                                                          # … then random combinations
            for name, pool in dims:
                if rng.random() < 0.6:
                    cfg[name] = rng.choice(pool)
        if cfg.get("call") == "default":
            cfg = with_par(cfg, 2 if cfg["variant"] == "vk" else 4)
        if oracle_history(chk, cfg, gen_ops(rng, rng.randint(5, 40 if quick else 200), p_add=0.7)):
            for name in ("cast", "seedkind", "call", "entry"):
                if name in cfg:
                    chk.count("oracle:hist:%s=%s" % (name, cfg[name]))
    # (b) requested sizes beyond 33 (around 2^n and 2^n+1 up to 257; internal Fried sizes 65, 129, 257): short histories, and as
    # many rows as the working array is long (+5) where that is at most 140
    sizes = list(BIG_SIZES)
    rng.shuffle(sizes)
    for variant, n, par in sizes[:5 if quick else len(sizes)]:
        cfg = with_par(gen_cfg(rng, maxn, variant=variant, req=n), par)
        ln = n if variant == "vk" else par * (2 ** max(n - 2, 0).bit_length() + 1)
        nadd = ln + 5 if ln <= 140 else 12
        if oracle_history(chk, cfg, ops_many_adds(rng, nadd, p_read=0.05)):
            chk.count("oracle:hist:size>33")
    if not quick:
        for _ in range(20):
            variant = rng.choice(VARIANTS)
            cfg = with_par(gen_cfg(rng, maxn, variant=variant, req=rng.randint(34, 300)), rng.choice([1, 2]))
            if oracle_history(chk, cfg, ops_many_adds(rng, 12, p_read=0.05)):
                chk.count("oracle:hist:size>33")
    # (c) the configuration of the repository's own test and documentation, PhaseScreenKolmogorov(128, 4/64, 0.2, 50) with the
    # default stencil_length_factor: more rows than its 516-row working array is long, every step checked
    big = {"variant": "fried", "req": 128, "px": 4. / 64, "r0": 0.2, "L0": 50., "factor": 4, "seed": rng.randint(0, 2 ** 31), "call": "default"}
    if oracle_history(chk, big, "a" * (516 + 8 if quick else 2 * 516 + 3)):
        chk.count("oracle:hist:default-128-screen-past-its-length")
    bigvk = {"variant": "vk", "req": 128, "px": 4. / 64, "r0": 0.2, "L0": 50., "nc": 2, "seed": rng.randint(0, 2 ** 31), "call": "default"}
    if oracle_history(chk, bigvk, "a" * (128 + 8 if quick else 2 * 128 + 3)):
        chk.count("oracle:hist:default-128-screen-past-its-length")
    # (d) magnitudes: pixels of the order of / larger than the outer scale; other absolute scales; r0 from 1 mm to 30 m
    for k in range(12 if quick else 200):
        cfg = gen_cfg(rng, 17, extreme="coarse" if k % 2 else "scaled")
        if oracle_history(chk, cfg, gen_ops(rng, 30 if quick else 120, p_add=0.8)):
            chk.count("oracle:hist:%s" % ("coarse" if k % 2 else "scaled"))
    # (e) several live screens, operations interleaved: same geometry with another seed / other r0, pixel scale, L0; two screens
    # built from the SAME integer seed; the other variant at the same size; more screens constructed half-way through
    for _ in range(4 if quick else 60):
        base = gen_cfg(rng, 12)
        par = base.get("nc", base.get("factor"))
        s_int = rng.randint(0, 2 ** 31)
        sib_seed = dict(base, seed=rng.randint(0, 2 ** 31))
        sib_par = with_par(gen_cfg(rng, 12, variant=base["variant"], req=base["req"]), par)
        int_a = dict(sib_par, seed=s_int, seedkind="int")
        int_b = dict(int_a)
        other = gen_cfg(rng, 12, variant="fried" if base["variant"] == "vk" else "vk", req=base["req"])
        late = [dict(int_a), gen_cfg(rng, 12), dict(base, seed=rng.randint(0, 2 ** 31), seedkind="none")]
        oracle_interleaved(chk, [base, sib_seed, sib_par, int_a, int_b, other], 60 if quick else 240, late=late, rng=rng)


# --------------------------------------------------------------------------------------------- entry points
# witness of the OPEN finding stability:vk:L0/pixel>2e4 on the repaired tree (Round 5): PhaseScreenVonKarman(32, 0.04, 0.3, 4e6) with the
# default n_columns — spectral radius 1 + 3.4e-3, max|screen| = 7e34 after 20000 add_row (std of the field 2.5e5)
KNOWN_UNSTABLE = {"variant": "vk", "req": 32, "px": 0.04, "r0": 0.3, "L0": 4e6, "nc": 2, "seed": 1}
# the witness recorded on the pinned tree (float32 covariance; spectral radius 25.4 there), stable since fix 4518b2c: still replayed
PINNED_UNSTABLE = {"variant": "vk", "req": 16, "px": 0.1, "r0": 0.15, "L0": 3000.0, "nc": 1, "seed": 1}


def run(chk):
    quick = chk.tier == "quick"
    chk.witnesses, chk.unstable = [], []
    chk.rule = ("labels: bit-exact equality of every array returned along a random history (and of the final working array) "
                "with the arrangement of initial entries / generated rows the Lean state machine predicts; generator: logged "
                "draw sizes and PCG64 state equal to a reference advanced by nx normals per add_row; Float run of the same "
                "machine with the concrete row functions: |impl-model| <= running bound (1e-12·scale per step, amplified by "
                "max(1,|A|inf) resp. 2|A|inf+1 for Fried), rounding is ~1e-14·scale.  Oracle: exact (bitwise) shift/shape/read checks on real objects; "
                "generated row vs A·Z+B·b within 1e-9·(|A||Z|+|B||b|); every size 1..33 of both variants, small screens for "
                "more than 3·stencil_length add_row, watched/unwatched twins (Kolmogorov N = 9, 17, 33 …), outer scales of 1e5..1e7 "
                "pixels (finite/shape/shift only); stability on L0/pixel <= 2000, for the recursion STATE (first n_columns "
                "rows): rho(F)<1 with witness k, |FSF'+GG'-S| <= 5e-9·S(0) (observed <= 4.8e-11; float32 covariances would "
                "leave 3e-7), |P*-S| <= 1e-4·S(0) (observed <= 7.1e-7).  The covariance of the whole exposed screen is "
                "computed on every run and differs from the model (known finding stationary:vk:exposed-rows-beyond-stencil; a deviation "
                "beyond the recorded one is a new failure).")
    chk.assumptions = [
        "IEEE finiteness (no overflow in A·Z + B·b) is not proved: theorem entries_inv reduces it to the row kernel; the oracle "
        "checks isfinite along real histories (quick: hundreds of rows; thorough: 10^4-10^5 rows)",
        "contraction hypothesis ‖F^k‖ < 1 of unique_and_convergent / vk_stable / vk_stable_concrete / vk_stable_from_cov / "
        "start_forgotten is a HYPOTHESIS of these theorems; it is supplied per configuration as a numerical witness (recorded "
        "under notes/witnesses), not proved",
        "SCOPE of the stability clause: theorems (vk_stable_from_cov, vk_is_stationary) and oracle (`companion`) speak about the "
        "recursion STATE = the first n_columns rows of the working array (all the recursion ever reads).  For that state the "
        "theoretical von Kármán covariance is the unique stationary covariance.  The EXPOSED N×N screen also shows rows "
        "n_columns … N−1, which are old states shifted down; their joint covariance with newer rows at lags ≥ n_columns is "
        "produced by the truncated (finite-stencil) recursion and is NOT exactly von Kármán on the real code: measured on every "
        "run (notes: exposed_screen; e.g. PhaseScreenVonKarman(16, 1, 0.2, 100, n_columns=1): max|P−S| = 0.32·S(0), row-lag "
        "structure function 0.65 … 0.26 of theory at lags 2 … 15; default n_columns=2: within ≈ 3 %; n_columns=4: ≈ 2 %).  This "
        "is a property of the method of Assemat & Wilson (finite stencil), not a coding slip, and it is not claimed, proved or "
        "asserted here: 'the statistics converge to the model' is established for the state only",
        ".scrn and add_row() return VIEWS of the working array (the model returns values): a caller WRITING into a returned array "
        "alters the screen; the property's operations are add_row and reads, so this is outside it (recorded under notes: "
        "view_semantics); the converse — add_row never rewrites an array handed out earlier — is asserted",
        "the C04 identities A·Σzz = Σxz, B·Bᵀ = Σxx − A·Σzx and block-stationarity of Σ are hypotheses of vk_is_stationary "
        "(external Cholesky/SVD kernels; Bessel-function covariance); their joint consequence F·S·Fᵀ+G·Gᵀ = S is checked "
        "numerically per configuration against an independently written binary64 von Kármán covariance",
        "the model is hand-written (not translated): its tie to the source is the differential replay of histories",
        "probabilistic reading of the matrix recursion (Cov(F z + G b) = F P Fᵀ + G Gᵀ for unit white b independent of z; "
        "'statistics converge' = convergence of mean F^t z0 and covariance) is the L·Lᵀ bridge of DESIGN §3.4, not formalised",
        "vk_state_recursion (state machine with the concrete kernel = z' = F z + G b) is proved for n_columns <= nx; the "
        "Fried/Kolmogorov kernel is only shown to meet the shape contract (friedKernel_rowOK); the property claims no stability "
        "for that variant",
    ]
    chk.build_and_audit("AoVerif.Props.C05", "AoVerif.Props.C05", REQUIRED)
    maxn = 33
    try:
        correspondence(chk, n_ids=150 if quick else 1200, n_hist=30 if quick else 300, maxn=maxn, all_sizes=True)
    except common.LeanError as ex:
        chk.broke("correspondence", "driver does not build / run", str(ex))
    rng = chk.rng
    # histories on real objects
    n_hist = 300 if quick else 4000
    done = 0
    sizes = [(v, n) for v in VARIANTS for n in range(1, maxn + 1)]
    while done < n_hist:
        if sizes:
            v, n = sizes.pop()
            cfg = gen_cfg(rng, maxn, variant=v, req=n)
        else:
            cfg = gen_cfg(rng, maxn)
        ops = gen_ops(rng, rng.randint(5, 60 if quick else 400), p_add=rng.choice([0.3, 0.6, 0.9]))
        if oracle_history(chk, cfg, ops):
            done += 1
    # small screens for more than 3·stencil_length add_row, checked after every step (buffer wrap-around, periodic slips)
    small = [{"variant": "vk", "req": n, "nc": nc} for n in (1, 2, 3, 4, 5, 8) for nc in (1, 2)] + \
            [{"variant": "fried", "req": n, "factor": f} for n in (1, 2, 3, 4, 5) for f in (1, 2, 4)]
    if not quick:
        small += [{"variant": "vk", "req": n, "nc": nc} for n in (6, 7, 9, 16, 17) for nc in (1, 2, 3, 4)] + \
                 [{"variant": "fried", "req": n, "factor": f} for n in (6, 8, 9, 10) for f in (1, 2, 3, 4, 5)]
    for base in small:
        cfg = gen_cfg(rng, maxn, variant=base["variant"], req=base["req"])
        cfg.update(base)
        for _try in range(5):
            try:
                ln = construct(cfg)[0].stencil_length
                break
            except Exception:
                cfg = dict(gen_cfg(rng, maxn, variant=base["variant"], req=base["req"]), **base)
        else:
            continue
        oracle_history(chk, cfg, ops_many_adds(rng, 3 * ln + 5))
        chk.count("oracle:hist:more-than-3-stencil-lengths")
    # reading / printing after add_row vs a twin that is never read (Kolmogorov: requested N = internal 2^n+1 and not)
    for n in (9, 17, 33, 5, 3, 12, 20) if quick else (2, 3, 5, 9, 17, 33, 4, 7, 12, 20, 31):
        for v in VARIANTS:
            oracle_watched_twin(chk, gen_cfg(rng, maxn, variant=v, req=n), 4 if quick else 12)
    # outer scales of 1e5 … 1e7 pixels: construction succeeds (cond(Szz) up to 1e15); only finiteness / shape / shift / reads
    for cfg in HUGE_L0 + [gen_cfg(rng, 20, extreme="huge") for _ in range(8 if quick else 100)]:
        if oracle_history(chk, cfg, gen_ops(rng, 40 if quick else 200, p_add=0.8)):
            chk.count("oracle:hist:L0/pixel>=1e5")
    # stability of the von Kármán recursion
    for _ in range(120 if quick else 2500):
        oracle_stability(chk, gen_cfg(rng, maxn, variant="vk"))
    # recorded finding replayed every run + the extreme outer-scale stream it belongs to.  The finding is OPEN (Round 5): its witness
    # must still be unstable — then the failure below carries the finding's key and the run prints KNOWN-FINDING; if it is not, the
    # record in findings/C05.json no longer describes the code and that is reported (not silently passed)
    nfail = len(chk.failures)
    oracle_stability(chk, dict(KNOWN_UNSTABLE), quantitative=False, steps=20000)
    if not any(f["key"] == "stability:vk:L0/pixel>2e4" for f in chk.failures[nfail:]):
        chk.broke("finding", "the witness of the open finding stability:vk:L0/pixel>2e4, PhaseScreenVonKarman(32, 0.04, 0.3, 4e6) with the "
                  "default n_columns, is no longer unstable (spectral radius < 1 with a contraction witness): findings/C05.json, the model's "
                  "NOT-PROVED note `contraction_holds` and this replay have to be brought up to date")
    oracle_stability(chk, dict(PINNED_UNSTABLE), quantitative=False, steps=3000)
    for _ in range(16 if quick else 300):
        cfg = gen_cfg(rng, 16, variant="vk", extreme=True)
        oracle_stability(chk, cfg, quantitative=False)
    # long histories
    for _ in range(6 if quick else 30):
        oracle_long(chk, gen_cfg(rng, 17 if quick else maxn), 2000 if quick else 50000)
    if not quick:
        oracle_long(chk, gen_cfg(rng, 9, variant="vk"), 400000)
        oracle_long(chk, gen_cfg(rng, 9, variant="fried"), 400000)
    # Round 5 (generator audit): input classes and histories not produced above.  They draw from a generator of their own (a
    # function of VERIF_SEED only), so the cases of the earlier rounds are the same as before for every seed
    r5 = random.Random(chk.seed * 1000003 + 50505)
    round5_histories(chk, r5, quick, maxn)
    cast_twins(chk, r5, quick)
    sibling_r0(chk, r5, quick)
    # the stability clause for pixels of the order of / larger than the outer scale, for other absolute scales and r0 from 1 mm to
    # 30 m, for stencils deeper than 4 rows up to the whole screen and beyond, and for screens wider than 33 pixels (RES_TOL / DEV_TOL
    # unchanged; observed on these classes over 12 seeds x 33 configurations: residual <= 3.9e-11, deviation <= 7.7e-7: >= 128x margin)
    for _ in range(12 if quick else 300):
        oracle_stability(chk, gen_cfg(r5, maxn, variant="vk", extreme="coarse"))
        oracle_stability(chk, gen_cfg(r5, maxn, variant="vk", extreme="scaled"))
    for _ in range(6 if quick else 100):
        cfg = gen_cfg(r5, 12, variant="vk")
        cfg["nc"] = r5.choice([5, 6, 8, cfg["req"], cfg["req"] + 1])
        oracle_stability(chk, cfg)
    # outer scales of 1e5 … 1e7 pixels (Round 5): here the unchanged library FAILS the stability clause — the spectral radius is
    # 1 ± eps·cond(Σzz) and its sign a coin toss for every n_columns (open finding stability:vk:L0/pixel>2e4: every failure of this
    # stream carries that key and is matched by it; the fraction found unstable is recorded under notes)
    n_huge = n_huge_unstable = 0
    for _ in range(12 if quick else 200):
        nfail = len(chk.failures)
        if oracle_stability(chk, gen_cfg(r5, 20, variant="vk", extreme="huge"), quantitative=False) is not None:
            n_huge += 1
            n_huge_unstable += len(chk.failures) > nfail
    chk.notes.append("outer scales of 1e5…1e7 pixels: %d of %d constructed von Kármán configurations have an unstable row recursion "
                     "(open finding stability:vk:L0/pixel>2e4)" % (n_huge_unstable, n_huge))
    for n, nc in [(64, 2)] if quick else [(64, 2), (65, 3), (100, 2), (128, 1), (48, 4)]:
        oracle_stability(chk, dict(gen_cfg(r5, maxn, variant="vk", req=n), nc=nc))
    exposed = []
    for i, cfg in enumerate(EXPOSED_CFGS + ([] if quick else [gen_cfg(rng, 16, variant="vk") for _ in range(6)])):
        try:
            m = exposed_screen_measurement(cfg)
        except Exception as ex:       # the measurement itself failed: nothing is concluded from it
            exposed.append({"config": json.dumps(cfg, sort_keys=True), "error": "%s: %s" % (type(ex).__name__, str(ex)[:100])})
            continue
        exposed.append(m)
        chk.count("oracle:exposed-screen")
        dev, dev_state = m["max|P_full - S|/S(0)"], m["max|P_state - S|/S(0) (first n_columns rows)"]
        # "from any starting screen the statistics converge to the model": read at full strength this is about the whole
        # exposed screen, and there it is FALSE of the algorithm (`exposed_model_cov_not_fixed`, `exposed_stationary_limit`):
        # rows older than the stencil keep the covariance the Markov recursion gives them, not the von Kármán one.  Recorded as
        # a known finding; a deviation of the STATE block has its own key (stationary:vk:*) and is never covered by it, and a
        # deviation of the whole array beyond what was recorded for the four fixed configurations is a different failure.
        if dev_state <= DEV_TOL and dev > 1e-6:
            chk.fail("stationary:vk:exposed-rows-beyond-stencil",
                     "%s: the stationary covariance of the whole exposed screen differs from the von Kármán covariance by "
                     "%.3g·S(0) (the recursion state, the first n_columns rows, agrees to %.1e·S(0))" % (m["config"], dev, dev_state),
                     {"cfg": cfg, "kind": "exposed", "measurement": m})
        if i < len(EXPOSED_RECORDED) and dev > 1.05 * EXPOSED_RECORDED[i]:
            chk.fail("stationary:vk:exposed-rows:worse-than-recorded",
                     "%s: whole-screen deviation %.4g·S(0), recorded for the unchanged algorithm: %.4g·S(0)"
                     % (m["config"], dev, EXPOSED_RECORDED[i]), {"cfg": cfg, "kind": "exposed", "measurement": m})
    views = [view_semantics(chk, gen_cfg(rng, 9, variant=v, req=n)) for v in VARIANTS for n in (5, 7)]
    chk.notes.append({"exposed_screen (known finding stationary:vk:exposed-rows-beyond-stencil): stationary covariance of the WHOLE working array of the real "
                      "recursion vs the theoretical von Kármán covariance": exposed,
                      "view_semantics (recorded, not asserted)": views,
                      "contraction_witnesses": chk.witnesses, "unstable_configurations": chk.unstable})


def replay(rec):
    """re-run the recorded failing input on the real code"""
    f = rec.get("failure") or {}
    rp = f.get("replay") or {}
    if "cfg" not in rp and rp.get("kind") != "interleaved":
        print("nothing to replay on the real code (no failing input was found): %s" % json.dumps(rec.get("broken"))[:2000])
        return 1
    chk = common.Check("C05", "quick", int(rec.get("seed", 0)))
    chk.witnesses, chk.unstable = [], []
    if rp.get("kind") == "exposed":
        m = exposed_screen_measurement(rp["cfg"])
        print("  " + json.dumps(m)[:1500])
        return 1 if m["max|P_full - S|/S(0)"] > 1e-6 else 0
    if rp.get("kind") == "interleaved":
        oracle_interleaved(chk, rp["cfgs"][:rp["n_initial"]], 0, late=rp["cfgs"][rp["n_initial"]:], schedule=rp["schedule"])
    elif rp.get("kind") in ("stability",):
        oracle_stability(chk, rp["cfg"], quantitative=rp["cfg"]["L0"] / rp["cfg"]["px"] <= RATIO_MAX, steps=3000)
    elif rp.get("kind") in ("finite", "bounded") and len(rp.get("ops", "")) > 300:
        oracle_long(chk, rp["cfg"], len(rp["ops"]))
    else:
        oracle_history(chk, rp["cfg"], rp["ops"])
    for g in chk.failures[:5]:
        print("  still failing: [%s] %s" % (g["key"], g["what"]))
    if not chk.failures:
        print("  the recorded input no longer fails")
    return 1 if chk.failures else 0
