"""C18 — profile compression conserves the turbulence it compresses."""
import math

import numpy

from .. import common

MANIFEST = {
    "text": "Lean 4 theorems over the real numbers about a hand-written model of profile_compression.py: equivalent layers "
            "returns L non-negative strengths, assigns every layer to exactly one slab (so the total Cn2 is conserved) for the "
            "repaired edge construction and conserves the 5/3 height and wind moments when every slab carries turbulence; for "
            "optimal grouping: valid splits give L non-empty contiguous groups covering [0,N), the vicinity preserves validity, and "
            "for EVERY sequence of valid random restarts (= every state of NumPy's global generator) the result is a valid grouping "
            "whose group strengths sum to the total, whose heights are input heights taken one per group in increasing order and "
            "whose cost is no worse than that of the starting (equal) split; GCTM's residual is zero iff the 2L-1 moments match and "
            "its outputs are L non-negative layers for any optimiser respecting its bounds. The same definitions are executed at "
            "Float by a Lean driver and compared with the real code (bit-exactly on dyadic inputs, including argmin tie-breaks and "
            "slab-edge rounding); a direct oracle on the real code supplies failing inputs.",
    "note": "Trusted: Lean kernel + propext/Classical.choice/Quot.sound; Mathlib's Real.rpow as the meaning of **; the hand-written "
            "model (tied by correspondence only, N<=40 quick / <=64 thorough); IEEE rounding is not modelled in the theorems (the "
            "edge-count rounding that drops a layer on the pinned tree is reproduced by the Float driver, not by a theorem); "
            "scipy.optimize.minimize is external: GCTM's 'to optimiser accuracy' clause is numeric only.",
    "technique": "Lean 4 proof over a hand-written model + Float/Nat correspondence driver + oracle search on the real code",
}
REQUIRED = ["el_length", "el_nonneg", "el_total", "el_total_of_edges", "no_layer_dropped_el", "el_extra_edge_drops",
            "el_moment", "el_h_moment", "el_w_moment", "valid_iff", "groups_partition", "no_layer_dropped_og",
            "og_total_of_valid", "og_length", "og_nonneg", "equal_split_valid", "mem_vicinity", "vicinity_preserves_valid",
            "self_mem_vicinity", "argminFirst_spec", "optMin_spec", "og_result", "og_cost_le_equal_split", "og_total",
            "og_defined", "bestRep_spec", "G_eq_returned_cost", "og_rep_in_group", "og_heights_subset_sorted",
            "og_heights_at_increasing_indices", "og_heights_descending_input", "minfunc_nonneg",
            "minfunc_eq_zero_iff", "moments_zero", "gctm_out_nonneg",
            "repCost_real", "repCost_zero_layer", "groupSum_zero_layer", "repCost_support",
            "moving_zero_layer_keeps_sums_and_cost"]

RT = 1e-9          # oracle tolerance on non-exact quantities (moments, costs on float inputs)
RT_CORR = 1e-11    # model(Float) vs numpy on pow/sum pipelines (summation order, libm/SVML pow)
F53 = 5.0 / 3.0
# single-precision (float32) columns: NumPy sums and exponentiates them in float32, so the non-exact conservation clauses can
# only hold to single-precision rounding.  Observed on the unchanged tree over every float32 case of seeds 0..11 quick and one
# thorough run: see the measurements next to each use.  1e-4 leaves a factor >= 100 and is still far below the effect of a dropped
# layer, a wrong exponent or a wrapped integer (>= 1e-2).
RT32 = 1e-4
W32 = {}          # worst relative deviations seen in this process on single-precision columns (reported in the evidence notes)


def _w32(key, a, b):
    if a == a and b == b and max(abs(a), abs(b)) > 0:
        W32[key] = max(W32.get(key, 0.0), abs(a - b) / max(abs(a), abs(b)))


def _single_thread_blas():
    """scipy's L-BFGS-B spends its time in tiny BLAS calls; with a multi-threaded OpenBLAS on a loaded machine every call pays a
    thread hand-off (measured: 8 s per GCTM call instead of 0.15 s).  Limit the OpenBLAS copies loaded in THIS process to one
    thread (timing only: the matrices are at most 10 x 10, no kernel is ever split across threads)."""
    import ctypes
    import re
    seen = set()
    try:
        for line in open("/proc/self/maps"):
            m = re.search(r"(/\S*openblas\S*\.so\S*)", line)
            if m and m.group(1) not in seen:
                seen.add(m.group(1))
                lib = ctypes.CDLL(m.group(1))
                for name in ("scipy_openblas_set_num_threads64_", "scipy_openblas_set_num_threads",
                             "openblas_set_num_threads64_", "openblas_set_num_threads"):
                    if hasattr(lib, name):
                        getattr(lib, name)(1)
                        break
    except OSError:
        pass


# ------------------------------------------------------------------------------------------------ generators
def _heights(rng, N, kind, L):
    if kind == "regular":
        lo = rng.choice([0.0, 0.0, float(rng.randint(0, 500)), common.dyadic(rng, 0, 100)])
        hi = lo + rng.choice([float(rng.randint(1, 30)) * 1000.0, float(rng.randint(N, 25000)), rng.uniform(100, 25000)])
        return numpy.linspace(lo, hi, N)
    if kind == "dyadic":
        vals = sorted(rng.sample(range(0, 4 * 20000), N))
        return numpy.array(vals, dtype=float) / 4.0
    if kind == "irregular":
        return numpy.array(sorted(rng.uniform(0, 25000) for _ in range(N)))
    if kind == "dups":            # several layers at the same height (all of them, now and then)
        pool = [rng.randint(0, 4 * 20000) / 4.0 for _ in range(rng.randint(1, max(1, N // 2)))]
        return numpy.array(sorted(rng.choice(pool) for _ in range(N)))
    if kind == "clustered":       # two clumps: most equal-thickness slabs are empty
        k = rng.randint(1, N - 1)
        a = sorted(rng.uniform(0, 300) for _ in range(k))
        b = sorted(rng.uniform(9000, 10000) for _ in range(N - k))
        return numpy.array(a + b)
    if kind == "on-edges":        # heights sitting exactly on (and one ulp around) the slab edges the code computes
        lo = rng.choice([0.0, float(rng.randint(0, 300)), rng.uniform(0, 300)])
        hi = lo + rng.choice([float(rng.randint(1, 30)) * 1000.0, rng.uniform(100, 25000)])
        step = (hi - lo) / L
        pool = set()
        for i in range(1, L):
            e = lo + step * i
            pool.update([e, numpy.nextafter(e, -numpy.inf), numpy.nextafter(e, numpy.inf), lo + i * ((lo + step) - lo)])
        pool = [x for x in pool if lo < x < hi]
        rng.shuffle(pool)
        mid = pool[:max(0, N - 2)]
        while len(mid) < N - 2:
            x = rng.uniform(lo, hi)
            if lo < x < hi:
                mid.append(x)
        return numpy.array(sorted(set([lo, hi] + mid)))
    raise ValueError(kind)


def _relayout1(a, kind):
    """the same 1-D VALUES in another memory layout: a column of a 2-D table (what numpy.loadtxt / a FITS table gives; the other
    columns hold NaN / a sentinel, so code that walks the buffer reads garbage), a negative-stride view, a read-only array"""
    a = numpy.array(a)
    if kind == "table-column":
        tab = numpy.full((len(a), 3), numpy.nan if a.dtype.kind == "f" else 7, dtype=a.dtype)
        tab[:, 1] = a
        return tab[:, 1]
    if kind == "negstride":
        return a[::-1].copy()[::-1]
    if kind == "readonly":
        b = a.copy()
        b.setflags(write=False)
        return b
    raise ValueError(kind)


NP_INTS = ["int64", "int32", "int16", "uint8"]


def _np_int(rng, L):
    """L (or R) as a NumPy integer scalar — what `for L in numpy.arange(2, 8)` or `L = table['nlayers'][0]` hands over"""
    return getattr(numpy, rng.choice(NP_INTS))(L)


GCTM_GENERAL = ["regular", "irregular"]
GCTM_THIN = ["ground-alone", "regular-L=N-1", "strong-ground"]


def _gctm_profile(rng, it, NMAX, fams):
    """(family, heights, strengths, L) for GCTM.  Families: the two general ones (regular / irregular heights, any N), and three in
    which the equal-thickness slabs are non-empty but as thinly filled as the domain allows, so that the starting guess has layers
    EXACTLY at input heights: `ground-alone` (the lowest slab holds nothing but a ground layer at h = 0, the next layer lies above
    the first slab edge; in 60 % a strong ground layer), `regular-L=N-1` (regular grid from 0, every slab but the top one holds one
    layer), `strong-ground` (any heights shifted to start at 0, the ground layer carries 0.5-5 x the rest).  A fifth of the
    profiles has integer-typed heights (whole metres, int64 / int32)."""
    fam = fams[it % len(fams)]

    def strengths(N):
        return numpy.array([rng.uniform(0.02, 1) ** rng.randint(1, 4) for _ in range(N)])
    if fam == "ground-alone":
        L = rng.randint(2, 5)
        N = rng.randint(L + 1, 30)
        top = rng.choice([rng.uniform(5000, 25000), float(rng.randint(5, 25)) * 1000.0])
        step = top / L
        hs = [0.0] + [rng.uniform(step * (i + 0.05), step * (i + 1)) for i in range(1, L)]
        while len(hs) < N - 1:
            hs.append(rng.uniform(step * 1.02, top))
        h = numpy.array(sorted(hs + [top]))
        p = strengths(len(h))
        if rng.random() < 0.6:
            p[0] = p.sum() * rng.uniform(0.3, 3)
    elif fam == "regular-L=N-1":
        N = rng.randint(3, 6)
        L = N - 1
        h = numpy.linspace(0.0, rng.choice([float(rng.randint(1, 25)) * 1000.0, rng.uniform(1000, 25000)]), N)
        p = strengths(N)
    else:
        N = rng.randint(3, NMAX) if it % 6 else rng.randint(NMAX + 1, 100)
        L = rng.randint(1, min(N - 1, 5))
        if it < 10:
            L = min(N - 1, 1 + it % 5)            # every L in every run
        if fam == "strong-ground":
            h = _heights(rng, N, rng.choice(["regular", "irregular"]), L)
            h = h - h.min()
            p = strengths(N)
            p[0] = p.sum() * rng.uniform(0.5, 5)
        else:
            h = _heights(rng, N, fam, L)
            p = strengths(N)
    p = p * 10 ** rng.uniform(-14, -12)
    if rng.random() < 0.2:
        h = numpy.round(h).astype(rng.choice(["int64", "int32"]))
        fam += ":int-heights"
    return fam, h, p, L


GCTM_AUDIT = ["co-scaled:pow2", "co-scaled:units", "L=6..7", "zero-layers", "unsorted", "large-N", "layout", "numpy-int-L"]


def _gctm_audit_profile(rng, it, NMAX):
    """round 5 (generator audit): (family, heights, strengths, L, scalings, bands) — GCTM argument classes the families above never
    produce.  `scalings` = (h_scaling, cn2_scaling, how) or None; `bands` as in oracle_gctm.
      co-scaled:pow2   a general-family profile in other units, heights x 2^a and strengths x 2^b, with h_scaling = 1e4 x 2^a and
                       cn2_scaling = 1e-13 x 2^b passed by keyword or by position (one of them alone when only one unit changes):
                       the scaled problem the optimiser sees is bit-identical to the default-units one, so the calibrated bands
                       apply unchanged;
      co-scaled:units  the same with decimal factors — kilometres (1e-3), feet (3.28084), centimetres (100); strengths as
                       fractions of the total (sum = 1) or any decade from 1e-5 to 1e+15 of the usual: identical up to rounding;
      L=6..7           more output layers than the bands were calibrated for (L <= 5): judged by every clause but the bands;
      zero-layers      10-30 % of the layers carry no turbulence (every slab still does): every clause but the bands;
      unsorted         the layers in arbitrary order (the method does not need sorted input): same profile, bands apply;
      large-N          257 .. 3000 input layers: the band on the residual norm only.  Measured on the unchanged tree, 2300 profiles of
                       this family (10 generator seeds): worst residual norm L=1: 4e-16, L=2: 6.5e-5 (band 0.10), L=3: 1.4e-3 (band
                       0.03, factor 21), L=4: 3.8e-4 (0.03, 79 x), L=5: 4.5e-4 (0.03, 66 x).  The total Cn2 comes within 11 x of its
                       band (L=4: 0.0090 of 0.10; L=5: 0.031 of 0.40) and the worst single moment within 3 x (L=4: 0.155 of 0.5): both
                       too close to apply, they are recorded in the evidence notes only;
      layout           columns of a 2-D table / negative stride / read-only: same values, bands apply;
      numpy-int-L      L as a NumPy integer scalar."""
    fam = GCTM_AUDIT[it % len(GCTM_AUDIT)]

    def strengths(N):
        return numpy.array([rng.uniform(0.02, 1) ** rng.randint(1, 4) for _ in range(N)])
    N = rng.randint(3, NMAX)
    L = rng.randint(1, min(N - 1, 5))
    scalings, bands = None, True
    if fam == "L=6..7":
        N = rng.randint(14, max(NMAX, 60))
        L = rng.choice([6, 7])
        bands = False
    elif fam == "large-N":
        N = rng.choice([257, rng.randint(258, 400), 1000, 3000])
        bands = "norm"
    h = _heights(rng, N, rng.choice(GCTM_GENERAL), L)
    p = strengths(N) * 10 ** rng.uniform(-14, -12)
    if fam == "co-scaled:pow2":
        a, b = rng.randint(-10, 10), rng.randint(-60, 60)
        how = rng.choice(["kw", "pos", "kw-h", "kw-cn2"])
        if how == "kw-h":
            b = 0
        if how == "kw-cn2":
            a = 0
        h, p = h * 2.0 ** a, p * 2.0 ** b
        scalings = (None if how == "kw-cn2" else 10000.0 * 2.0 ** a, None if how == "kw-h" else 100e-15 * 2.0 ** b, how)
    elif fam == "co-scaled:units":
        fa = rng.choice([1e-3, 3.28084, 100.0, 1.0])
        fb = rng.choice([1.0 / float(p.sum()), 10 ** rng.uniform(-5, 15)])
        how = rng.choice(["kw", "pos"])
        h, p = h * fa, p * fb
        scalings = (10000.0 * fa, 100e-15 * fb, how)
    elif fam == "zero-layers":
        for j in rng.sample(range(N), max(1, int(N * rng.uniform(0.1, 0.3)))):
            p[j] = 0.0
        bands = False
    elif fam == "unsorted":
        perm = list(range(N))
        rng.shuffle(perm)
        h, p = h[perm], p[perm]
    elif fam == "layout":
        kind = rng.choice(["table-column", "negstride", "readonly"])
        h, p = _relayout1(h, kind), _relayout1(p, kind)
        fam += ":" + kind
    elif fam == "numpy-int-L":
        L = _np_int(rng, L)
    return fam, h, p, L, scalings, bands


def _roundup_profile(rng, N, L):
    """regular heights for which fl((hmax-hmin)/fl((hmax-hmin)/L)) > L: numpy.arange then makes L+1 edges (D13)"""
    for _ in range(400):
        lo = rng.choice([0.0, float(rng.randint(0, 100))])
        hi = lo + rng.choice([float(rng.randint(1, 40)) * 500.0, float(rng.randint(L, 30000)), rng.uniform(10, 30000)])
        st = (hi - lo) / L
        if st > 0 and math.ceil((hi - lo) / st) > L:
            return numpy.linspace(lo, hi, N)
    return None


def _strengths(rng, N, kind):
    if kind == "ones":
        return numpy.ones(N)
    if kind == "bits":            # layer j carries 2^j: every sum of a subset identifies the subset exactly
        return numpy.array([2.0 ** j for j in range(N)])
    if kind == "dyadic":
        return numpy.array([rng.randint(1, 1024) / 16.0 for _ in range(N)])
    if kind == "float":
        return numpy.array([10 ** rng.uniform(-16, -12) for _ in range(N)])
    if kind == "zeros":           # some layers without turbulence
        v = [rng.randint(1, 1024) / 16.0 for _ in range(N)]
        for j in rng.sample(range(N), rng.randint(1, max(1, N // 2))):
            v[j] = 0.0
        if not any(v):
            v[rng.randrange(N)] = 1.0
        return numpy.array(v)
    raise ValueError(kind)


EXACT_P = ("ones", "bits", "dyadic", "zeros")


def _hex(a):
    return " ".join(common.f2h(x) for x in a)


def _fl(a):
    return [float(x) for x in a]


# ------------------------------------------------------------------------------------------------ oracle pieces
def _isclose(a, b, rt):
    return abs(a - b) <= rt * max(abs(a), abs(b))


def group_cost(h, p, a, b, rep=None):
    """Eq. 7 of Saxenhuber et al.: cost of representing layers [a,b) by one of them (the cheapest, or `rep`)"""
    best = None
    for g in (range(a, b) if rep is None else [rep]):
        c = 0.0
        for j in range(a, b):
            c += p[j] * abs(h[j] - h[g])
        if best is None or c < best:
            best = c
    return best


def splits_cost(h, p, splits, N):
    bounds = [0] + [int(s) + 1 for s in splits] + [N]
    return sum(group_cost(h, p, bounds[i], bounds[i + 1]) for i in range(len(bounds) - 1))


def oracle_el(pc, h, p, L, w, exact, rt32=None):
    """the property on equivalent_layers, evaluated on the real code.  Returns [(key, what)].
    `rt32`: the columns are stored in single precision, so the library computes its sums in float32 (NumPy's promotion rules);
    the non-exact clauses are then asked to that tolerance, against references computed in float64 from the same values"""
    out = []
    h0, p0, w0 = h.copy(), p.copy(), (None if w is None else w.copy())
    res = pc.equivalent_layers(h, p, L, w=w) if w is not None else pc.equivalent_layers(h, p, L)
    if not (numpy.array_equal(h, h0) and numpy.array_equal(p, p0) and (w is None or numpy.array_equal(w, w0))):
        out.append(("el:mutates-input", "equivalent_layers changed its arguments"))
    if len(res) != (3 if w is not None else 2):
        return out + [("el:length", "equivalent_layers returned %d arrays" % len(res))]
    he, ce = numpy.asarray(res[0], dtype=float), numpy.asarray(res[1], dtype=float)
    we = numpy.asarray(res[2], dtype=float) if w is not None else None
    if he.shape != (L,) or ce.shape != (L,) or (we is not None and we.shape != (L,)):
        return out + [("el:length", "equivalent_layers(L=%d) returned shapes %s %s" % (L, he.shape, ce.shape))]
    if not numpy.all(numpy.isfinite(ce)) or numpy.any(ce < 0):
        out.append(("el:negative-strength", "cn2_el=%s" % ce.tolist()))
    tot, got = float(p.sum(dtype=float) if rt32 else p.sum()), float(ce.sum())
    if exact and p[0] == 1.0 and len(p) > 1 and p[1] == 2.0:      # bit-coded strengths: name the layer
        seen = 0
        for c in ce:
            seen += int(c)
        missing = [j for j in range(len(p)) if not (seen >> j) & 1]
        if missing or seen != (1 << len(p)) - 1:
            out.append(("el:layer-dropped", "layers %s of %d are in no slab (or counted twice): sum cn2_el=%r, input %r"
                        % (missing, len(p), got, tot)))
    if rt32:
        _w32("el:total", got, tot)
    if not (got == tot if exact else _isclose(got, tot, rt32 or 1e-12)):
        out.append(("el:total-cn2", "sum(cn2_el)=%r but sum(p)=%r (N=%d, L=%d)" % (got, tot, len(p), L)))
    empty = ce == 0
    if numpy.any(numpy.isnan(he)):
        if numpy.all(empty[numpy.isnan(he)]):
            out.append(("el:empty-slab:nan-height", "a slab without turbulence gets height NaN (0/0): h_el=%s cn2_el=%s"
                        % (he.tolist(), ce.tolist())))
        else:
            out.append(("el:nan-height", "NaN height in a slab that carries turbulence: h_el=%s cn2_el=%s" % (he.tolist(), ce.tolist())))
    ok = ~empty
    for nm, xin, xout in (("h", h, he), ("w", w, we)):
        if xin is None:
            continue
        if numpy.any(~numpy.isfinite(xout[ok])):
            out.append(("el:%s-moment" % nm, "non-finite effective %s in a non-empty slab: %s" % (nm, xout.tolist())))
            continue
        lhs = float((ce[ok] * xout[ok] ** F53).sum())
        rhs = float((p.astype(float) * xin.astype(float) ** F53).sum()) if rt32 else float((p * xin ** F53).sum())
        if rt32:
            _w32("el:%s-moment" % nm, lhs, rhs)
        if not _isclose(lhs, rhs, rt32 or RT):
            out.append(("el:%s-moment" % nm, "sum cn2_el*%s_el^(5/3)=%r but sum p*%s^(5/3)=%r (N=%d, L=%d)" % (nm, lhs, nm, rhs, len(p), L)))
    if w is not None:             # giving wind must not change the layers
        h2, c2 = pc.equivalent_layers(h, p, L)
        if not (numpy.array_equal(h2, he, equal_nan=True) and numpy.array_equal(c2, ce)):
            out.append(("el:wind-changes-layers", "heights/strengths differ between the calls with and without w"))
    return out


def oracle_og(pc, h, p, L, R, np_seed, exact, exact_cost=None, rt32=None):
    """the property on optimal_grouping for the global-RNG state `numpy.random.seed(np_seed)`.  Only the clause "heights in
    increasing order" needs strictly increasing input heights (theorem og_heights_subset_sorted, hypothesis hmono); every other
    clause (L layers, non-negative, total, heights are input heights of their own group, no layer dropped, cost <= equal split)
    is evaluated for unsorted / repeated / descending / integer-typed heights as well"""
    out = []
    N = len(p)
    rt_tot, rt_part, rt_cost = (rt32, rt32, rt32) if rt32 else (1e-12, 1e-11, RT)
    increasing = bool(numpy.all(numpy.diff(numpy.asarray(h, dtype=float)) > 0))
    exact_cost = exact if exact_cost is None else exact_cost
    h0, p0 = h.copy(), p.copy()
    state = numpy.random.get_state()
    try:
        numpy.random.seed(np_seed)
        res = pc.optimal_grouping(R, L, h, p)
    finally:
        numpy.random.set_state(state)
    if not (numpy.array_equal(h, h0) and numpy.array_equal(p, p0)):
        out.append(("og:mutates-input", "optimal_grouping changed its arguments"))
    hL, cL = numpy.asarray(res[0], dtype=float), numpy.asarray(res[1], dtype=float)
    if hL.shape != (L,) or cL.shape != (L,):
        return out + [("og:length:L=1" if L == 1 else "og:length", "optimal_grouping(L=%d) returned shapes %s %s" % (L, hL.shape, cL.shape))]
    if not numpy.all(numpy.isfinite(cL)) or numpy.any(cL < 0):
        out.append(("og:negative-strength", "cn2=%s" % cL.tolist()))
    tot, got = float(p.sum(dtype=float) if rt32 else p.sum()), float(cL.sum())
    if not (got == tot if exact else _isclose(got, tot, rt_tot)):
        out.append(("og:total-cn2", "sum(cn2_L)=%r but sum(p)=%r (N=%d, L=%d, R=%d)" % (got, tot, N, L, R)))
    hs = set(numpy.asarray(h, dtype=float).tolist())
    if any(x not in hs for x in hL.tolist()):
        out.append(("og:height-not-input", "returned heights %s are not all input heights" % hL.tolist()))
    if increasing and numpy.any(numpy.diff(hL) <= 0):
        out.append(("og:heights-unsorted", "returned heights are not increasing: %s" % hL.tolist()))
    if numpy.all(p > 0):
        # the grouping is recoverable from the strengths: consecutive runs of layers whose sums are cn2_L
        bounds, j, okp = [0], 0, True
        for c in cL.tolist():
            acc, j0 = 0.0, j
            while j < N and (acc < c if exact else acc < c * (1 - rt_tot)):
                acc += float(p[j])
                j += 1
            if j == j0 or not (acc == c if exact else _isclose(acc, c, rt_part)):
                okp = False
                break
            bounds.append(j)
        if not okp or bounds[-1] != N:
            out.append(("og:not-a-contiguous-partition", "the returned strengths %s are not the sums of L consecutive non-empty "
                        "groups covering all %d layers (a layer is dropped or counted twice)" % (cL.tolist(), N)))
        else:
            reps = []
            for l in range(L):
                idx = [g for g in range(bounds[l], bounds[l + 1]) if h[g] == hL[l]]
                reps.append(idx[0] if idx else None)
            if any(r is None for r in reps):
                out.append(("og:height-outside-group", "a returned height is not a height of its own group: %s, groups %s"
                            % (hL.tolist(), bounds)))
            else:
                # the oracle's own costs are evaluated in float64 whatever type the columns are stored in (unsigned or narrow
                # integer heights must not wrap inside the ORACLE)
                hf, pf = numpy.asarray(h, dtype=float), numpy.asarray(p, dtype=float)
                cost = sum(group_cost(hf, pf, bounds[l], bounds[l + 1], rep=reps[l]) for l in range(L))
                eq = numpy.linspace(0, N, int(L) + 1, dtype=int)[1:-1]
                ceq = splits_cost(hf, pf, eq, N)
                if rt32 and ceq > 0:
                    W32["og:cost/equal-split - 1"] = max(W32.get("og:cost/equal-split - 1", -1.0), cost / ceq - 1.0)
                if not (cost <= ceq if exact_cost else cost <= ceq * (1 + rt_cost)):
                    out.append(("og:cost-worse-than-equal-split", "cost of the returned layers %r > cost of the equal split %r "
                                "(N=%d, L=%d, R=%d, numpy seed %s)" % (cost, ceq, N, L, R, np_seed)))
    elif increasing and numpy.all(numpy.asarray(p, dtype=float) >= 0) and not any(k == "og:total-cn2" for k, _ in out):
        # round 6 — profiles with zero-strength layers (empty bins of a measured profile): where a zero layer goes changes neither the sums
        # nor the cost, so the grouping of the layers that DO carry turbulence is recovered from the strengths, and the cost of the
        # returned layers (each turbulent layer against the returned height of its group) must not exceed the equal split's either.
        # (Seeded change C18-K: the cost kernel skipped zero-strength candidates and left their cost entries at 0, so any group
        # holding an empty bin looked free; only this clause sees it — L layers, the total and the heights stay right.)
        # Lean: `repCost_zero_layer`, `groupSum_zero_layer`, `moving_zero_layer_keeps_sums_and_cost`, `repCost_support`.
        hf, pf = numpy.asarray(h, dtype=float), numpy.asarray(p, dtype=float)
        pos = [j for j in range(N) if pf[j] > 0]
        cost, j, okp = 0.0, 0, True
        for l, c in enumerate(cL.tolist()):
            acc = 0.0
            while j < len(pos) and (acc < c if exact else acc < c * (1 - rt_tot)):
                acc += float(pf[pos[j]])
                cost += float(pf[pos[j]]) * abs(float(hf[pos[j]]) - float(hL[l]))
                j += 1
            if not (acc == c if exact else _isclose(acc, c, rt_part) or (c == 0 and acc == 0)):
                okp = False
                break
        if okp and j == len(pos):
            eq = numpy.linspace(0, N, int(L) + 1, dtype=int)[1:-1]
            ceq = splits_cost(hf, pf, eq, N)
            if not (cost <= ceq if exact_cost else cost <= ceq * (1 + rt_cost) + 1e-300):
                out.append(("og:cost-worse-than-equal-split", "cost of the returned layers %r > cost of the equal split %r (N=%d with %d "
                            "zero-strength layers, L=%d, R=%d, numpy seed %s)" % (cost, ceq, N, N - len(pos), L, R, np_seed)))
    return out


def my_moments(hs, cs, L):
    return numpy.array([float(numpy.sum(cs * hs ** k)) for k in range(2 * L - 1)])


def proj_grad(x, L, m0):
    """max-norm of the projected gradient of GCTM's objective sum_i (M_i(x) - m0_i)^2 at x = (h_1..h_L, c_1..c_L) under the bounds
    x >= 0 (analytic; a component at the bound 0 that wants to go negative is dropped) — the quantity L-BFGS-B compares with its
    pgtol = 1e-5 to decide that a point is already stationary"""
    hs, cs = numpy.asarray(x[:L], dtype=float), numpy.asarray(x[L:], dtype=float)
    r = my_moments(hs, cs, L) - m0
    g = numpy.zeros(2 * L)
    for i in range(2 * L - 1):
        if i >= 1:
            g[:L] += 2.0 * r[i] * i * cs * hs ** (i - 1)
        g[L:] += 2.0 * r[i] * hs ** i
    g = numpy.where((numpy.asarray(x) <= 0) & (g > 0), 0.0, g)
    return float(numpy.abs(g).max())


# "the optimiser moved": when the equivalent-layers starting guess is measurably NOT a solution — projected gradient of the
# scaled objective >= PG_MIN = 1e-3 (100 x L-BFGS-B's stopping threshold pgtol = 1e-5) and relative norm of the moment residual
# >= RES_MIN = 1e-4 — the returned layers must differ from the starting guess (largest change of a scaled variable >= MOVE_MIN)
# and have a strictly smaller moment residual (f1 <= (1 - 1e-6) f0).  Measured on the unchanged tree, 17 658 profiles of the five
# GCTM families below (6 seeds; 7471 of them with a starting height of exactly 0): the result equals the start in 232 cases, ALL
# with projected gradient < 1e-5 (largest 9.98e-6 = pgtol); one further case in 9 700 (projected gradient 3.3e-4, but f0 = 4e-14,
# relative residual 4.5e-9: finite-difference gradient of a squared residual that small is noise, the line search gives up).
# Inside the guarded region (16 382 profiles, 93 %): never unmoved, smallest move 1.7e-6, largest f1/f0 = 0.76.
PG_MIN, RES_MIN, MOVE_MIN = 1e-3, 1e-4, 1e-9


def oracle_gctm(pc, h, p, L, stats=None, bands=True, scalings=None):
    """`bands`: apply the per-L accuracy bands GCTM_BAND (calibrated on the general families only; the thinly filled families
    GCTM_THIN come within 1.3 x of them on the unchanged tree, so they are judged by every other clause); "norm": only the
    band on the residual norm (large N, see GCTM_AUDIT).
    `scalings` = (h_scaling, cn2_scaling, how): the call passes the two optional scaling arguments (how = "kw" / "pos" / "kw-h" /
    "kw-cn2"; None in a pair = that default) and every moment is evaluated in THOSE units — the clauses are the same"""
    out = []
    HS, CS = 10000.0, 100e-15
    h0, p0 = h.copy(), p.copy()
    if scalings is None:
        res = pc.GCTM(h, p, L)
    else:
        hs_, cs_, how = scalings
        HS, CS = (HS if hs_ is None else float(hs_)), (CS if cs_ is None else float(cs_))
        if how == "pos":
            res = pc.GCTM(h, p, L, HS if hs_ is None else hs_, CS if cs_ is None else cs_)
        else:
            kw = {}
            if hs_ is not None:
                kw["h_scaling"] = hs_
            if cs_ is not None:
                kw["cn2_scaling"] = cs_
            res = pc.GCTM(h, p, L, **kw)
    if not (numpy.array_equal(h, h0) and numpy.array_equal(p, p0)):
        out.append(("gctm:mutates-input", "GCTM changed its arguments"))
    hL, cL = numpy.asarray(res[0], dtype=float), numpy.asarray(res[1], dtype=float)
    if hL.shape != (L,) or cL.shape != (L,):
        return out + [("gctm:length", "GCTM(L=%d) returned shapes %s %s" % (L, hL.shape, cL.shape))], (0.0, 0.0, 0.0)
    if not (numpy.all(numpy.isfinite(hL)) and numpy.all(numpy.isfinite(cL))) or numpy.any(cL < 0) or numpy.any(hL < 0):
        out.append(("gctm:negative", "GCTM returned h=%s cn2=%s" % (hL.tolist(), cL.tolist())))
        return out, (0.0, 0.0, 0.0)
    m0 = my_moments(h0 / HS, p0 / CS, L)          # h0, p0: the profile the caller passed (h, p may have been modified)
    m1 = my_moments(hL / HS, cL / CS, L)
    he, ce = pc.equivalent_layers(h0.copy(), p0.copy(), L)
    f0 = float(((my_moments(he / HS, ce / CS, L) - m0) ** 2).sum())
    f1 = float(((m1 - m0) ** 2).sum())
    if not f1 <= f0 * (1 + 1e-9) + 1e-24 * float((m0 ** 2).sum()):
        out.append(("gctm:worse-than-start", "moment residual %r of the result exceeds %r of its own starting guess (N=%d, L=%d)"
                    % (f1, f0, len(p), L)))
    if L >= 2 and numpy.all(numpy.isfinite(he)) and numpy.all(numpy.asarray(ce) > 0):
        x0 = numpy.hstack([numpy.asarray(he, dtype=float) / HS, numpy.asarray(ce, dtype=float) / CS])
        x1 = numpy.hstack([hL / HS, cL / CS])
        pg0, res0 = proj_grad(x0, L, m0), math.sqrt(f0 / float((m0 ** 2).sum()))
        if pg0 >= PG_MIN and res0 >= RES_MIN:
            move = float(numpy.abs(x1 - x0).max())
            if stats is not None:
                stats["guarded"] = stats.get("guarded", 0) + 1
                stats["guarded:start-height-0"] = stats.get("guarded:start-height-0", 0) + int(x0[0] == 0.0)
                stats["min-move"] = min(stats.get("min-move", float("inf")), move)
                stats["max-f1/f0"] = max(stats.get("max-f1/f0", 0.0), f1 / f0)
            if not move >= MOVE_MIN:
                out.append(("gctm:returns-starting-guess", "GCTM returned its own starting guess (the equivalent layers h=%s) unchanged although "
                            "that guess does not reproduce the moments: relative moment residual %.3g (worst single moment off by %.3g), "
                            "projected gradient of the scaled objective %.3g (the optimiser's stopping threshold is 1e-5) (N=%d, L=%d)"
                            % (numpy.asarray(he).tolist(), res0, float(numpy.max(numpy.abs(my_moments(x0[:L], x0[L:], L) - m0) / m0)),
                               pg0, len(p), L)))
            elif not f1 <= f0 * (1 - 1e-6):
                out.append(("gctm:no-improvement", "GCTM's result has moment residual %r, not smaller than %r of its starting guess, although the "
                            "projected gradient there is %.3g (N=%d, L=%d)" % (f1, f0, pg0, len(p), L)))
    relk = numpy.abs(m1 - m0) / m0
    rel, rel0 = float(numpy.max(relk)), float(relk[0])
    resn = float(numpy.linalg.norm(m1 - m0) / numpy.linalg.norm(m0))
    band, band0, bandn = GCTM_BAND[min(L, 5)] if bands else (float("inf"),) * 3
    if bands == "norm":
        band = band0 = float("inf")
    if not rel0 <= band0:
        out.append(("gctm:total-cn2", "moment 0 (the total Cn2) of the result is off by %.3g (relative), allowed %.3g for L=%d (N=%d): "
                    "sum %r vs %r" % (rel0, band0, L, len(p), float(cL.sum()), float(p0.sum()))))
    if not rel <= band:
        k = int(numpy.argmax(relk))
        out.append(("gctm:moments-off", "scaled moment %d of the result is off by %.3g (relative), allowed %.3g for L=%d (N=%d)"
                    % (k, rel, band, L, len(p))))
    if not resn <= bandn:
        out.append(("gctm:residual", "||moments(result) - moments(input)|| / ||moments(input)|| = %.3g, allowed %.3g for L=%d (N=%d)"
                    % (resn, bandn, L, len(p))))
    return out, (rel, rel0, resn)


# "to optimiser accuracy" as MEASURED on the repaired tree (L-BFGS-B with its default tolerances on the scaled moments; see
# notes/asbuilt/C18.md for the calibration): L -> (max relative error of any of the 2L-1 scaled moments, relative error of
# moment 0 = total Cn2, relative 2-norm of the moment residual).  L = 1 starts at the exact answer.
# Calibration (repaired tree, 5300 generated profiles, >= 950 per L, regular and irregular heights, N <= 100), worst observed:
#   L=1: 6e-16 (all three);  L=2: 0.090 / 0.0045 / 0.031;  L=3: 0.179 / 0.0075 / 0.0061;  L=4: 0.146 / 0.020 / 0.0052;
#   L=5: 0.199 / 0.137 / 0.0048.  The bands are 1.5-2.4 x the worst observed value (the distribution has a heavy tail — low
#   profiles, where h/h_scaling << 1 makes the high moments invisible to the optimiser — so no 100 x margin is possible without
#   making the clause empty; the previous band was 1.0 for every L).
#   Integrator's soak (2026-09-27, 30 000 further profiles, 12 seeds): worst L=2: 0.113 / 0.0117 / 0.0129 (one profile beyond the
#   0.01 first chosen for moment 0 — a false alarm in waiting, about 3 % per thorough run), L=3: 0.170 / 0.0053 / 0.0081,
#   L=4: 0.192 / 0.033 / 0.0054, L=5: 0.195 / 0.121 / 0.0052.  The bands are now about 3 x the worst of both measurements.
GCTM_BAND = {1: (1e-12, 1e-12, 1e-12), 2: (0.35, 0.05, 0.10), 3: (0.50, 0.03, 0.03), 4: (0.50, 0.10, 0.03), 5: (0.50, 0.40, 0.03)}


# ------------------------------------------------------------------------------------------------ a fresh interpreter
# The property quantifies over HISTORIES.  The one history this process cannot produce is "no history": the first call of a
# function in a new interpreter.  A child interpreter (started at the beginning of the run, collected at the end, so it costs no
# wall time) evaluates ten calls — one per method as the FIRST call of that method in its process, then seven more of the local
# search, whose result depends on where it starts — and the parent makes the same
# calls at the END of its run (hundreds of calls later, and directly after a different profile with the same N and L).  All three
# functions are deterministic given the arguments (optimal_grouping: given the seeded global generator), so the results must
# agree (rel. 1e-9, the standard of the shared-arrays sequence test; observed: bit-identical, seeds 0..11).
_CHILD = r"""
import sys, json, numpy, warnings
warnings.filterwarnings("ignore")
from harness import common
from harness.props import c18
from aotools.turbulence import profile_compression as pc
c18._single_thread_blas()
out = []
for job in json.loads(sys.argv[1]):
    h = numpy.array([common.h2f(x) for x in job["h"].split()])
    p = numpy.array([common.h2f(x) for x in job["p"].split()])
    with numpy.errstate(all="ignore"):
        if job["fn"] == "equivalent_layers":
            w = numpy.array([common.h2f(x) for x in job["w"].split()])
            res = pc.equivalent_layers(h, p, job["L"], w=w)
        elif job["fn"] == "optimal_grouping":
            numpy.random.seed(job["seed"])
            res = pc.optimal_grouping(job["R"], job["L"], h, p)
        else:
            res = pc.GCTM(h, p, job["L"])
    out.append([" ".join(common.f2h(float(x)) for x in numpy.asarray(r, dtype=float).ravel()) for r in res])
json.dump(out, sys.stdout)
"""


def _start_child(jobs):
    import json
    import os
    import subprocess
    import sys
    env = dict(os.environ)
    env["PYTHONPATH"] = os.pathsep.join([common.REPO, common.VERIF])
    return subprocess.Popen([sys.executable, "-W", "ignore", "-c", _CHILD, json.dumps(jobs)], stdin=subprocess.DEVNULL,
                            stdout=subprocess.PIPE, stderr=subprocess.PIPE, env=env, cwd=common.VERIF, text=True)


def _pinned_el(h, p, L):
    """NumPy semantics of the PINNED edge construction (numpy.arange + numpy.digitize); used only to validate the driver's
    Float model of `arange` (length ⌈(stop-start)/step⌉, elements start + i·((start+step)-start)) and of `digitize`."""
    hstep = (h.max() - h.min()) / L
    bins = numpy.arange(h.min(), h.max(), hstep)
    ix = numpy.digitize(h, bins)
    return len(bins), [float(p[ix == i + 1].sum()) for i in range(L)]


def _cmp_floats(model_hex, real, exact_idx, rt):
    """first index at which the model and the real output differ, else None"""
    if len(model_hex) != len(real):
        return "length %d vs %d" % (len(model_hex), len(real))
    for i, (mh, r) in enumerate(zip(model_hex, real)):
        m = common.h2f(mh)
        r = float(r)
        if i in exact_idx:
            if not (m == r or (m != m and r != r)):
                return "value %d: model %r real %r (exact comparison)" % (i, m, r)
        elif not common.close(m, r, rt):
            return "value %d: model %r real %r" % (i, m, r)
    return None


def run(chk):
    from aotools.turbulence import profile_compression as pc
    import aotools
    rng = chk.rng
    quick = chk.tier == "quick"
    _single_thread_blas()
    chk.rule = ("correspondence: Lean model at Float/Nat vs the real functions (equivalent_layers, _convert_splits_to_groups, "
                "_vicinity, _G, _Gjit, _optGroupingMinimization, optimal_grouping with the restarts the global RNG produced, _moments, "
                "_moments_minfunc): bit-exact on dyadic inputs (strengths, costs, split lists, tie-breaks, slab membership via "
                "bit-coded strengths), rel. 1e-11 on pow pipelines; oracle: the property on the real code, exact on dyadic inputs, "
                "rel. 1e-9 on moments; distinct = distinct (function, N, L, height kind, strength kind, restarts)")
    chk.assumptions = [
        "Real.rpow models Python's ** up to IEEE rounding; the theorems are about exact arithmetic",
        "the floating-point rounding of the slab edges is not covered by a theorem: the repaired construction has exactly L edges "
        "by construction (theorem el_total needs only that and edge 0 = min h <= every height, which also holds in binary64); the pinned "
        "arange construction is reproduced by the Float driver only",
        "el_h_moment / el_w_moment assume every slab carries turbulence (finding el:empty-slab:nan-height otherwise)",
        "GCTM: 'reproduces the first 2L-1 moments to optimiser accuracy' is numeric only (scipy L-BFGS-B is external): the oracle "
        "checks that the residual does not exceed that of the starting guess and that the scaled moments stay inside per-L bands "
        "calibrated on the repaired tree (GCTM_BAND: L=1 exact to 1e-12; L=2..5 up to 35-50 % on the worst single moment, 3-40 % "
        "on the total Cn2, 3-10 % on the norm of the moment vector — the measured accuracy of L-BFGS-B's default tolerances, see "
        "notes/asbuilt/C18.md); the worst values of each run are recorded in the evidence notes; and, when the starting guess is "
        "measurably not a solution (projected gradient >= 1e-3, relative residual >= 1e-4), that the result differs from the "
        "starting guess and has a strictly smaller residual (what 'the optimiser ran' means for scipy's stopping rules; measured)",
        "og_heights_subset_sorted ('heights in increasing order') has the hypothesis hmono: the INPUT heights are strictly "
        "increasing (descending input comes back descending: theorem og_heights_descending_input); the part that needs no "
        "ordering (returned heights are input heights at strictly increasing layer indices, one per group) is "
        "og_heights_at_increasing_indices; the oracle evaluates every other clause on unsorted / repeated / descending heights too",
        "integer-typed columns (int32/int64 h, p, w) are exercised by the oracle and the Float correspondence only (the model has "
        "one scalar type)",
        "numpy.random.choice is external: the theorems hold for every list of valid restart split-lists; that the real generator "
        "only yields valid lists is checked on every restart the harness observes",
        "round 5 (generator audit): columns of a 2-D table / negative-stride / read-only arrays, float32 columns (NumPy then sums in "
        "single precision: totals, 5/3 moments and costs asked to 1e-4, observed <= 4.5e-7; strengths kept dyadic so that the grouping "
        "stays exactly recoverable), unsigned columns for equivalent_layers, strengths and heights rescaled by exact powers of two "
        "(2^-100 .. 2^40, 'kilometres'), calm layers (w = 0), L and R as NumPy integer scalars, N up to 5000 (equivalent layers) / 300 "
        "(optimal grouping) / 3000 (GCTM, judged by the residual-norm band only), R = 10 (thorough 50), global-generator states "
        "seeded with 0 / 2^32-1 / arrays, GCTM's h_scaling / cn2_scaling arguments (profile and scalings co-scaled, moments evaluated "
        "in the passed units), GCTM with L = 6..7, zero-strength layers, unsorted layers, every public entry point (module, "
        "aotools.turbulence, aotools) are exercised by the oracle only",
        "histories: besides sequences on shared arrays, each method is called on a second profile with the same N and L right after "
        "the first, and ten calls are compared (rel. 1e-9) with the same calls made as the first calls of a FRESH interpreter — "
        "the three functions are deterministic given their arguments and the seeded global generator",
        "NOT generated: float32 columns for GCTM (its L = 1 band of 1e-12 is a double-precision statement), lists / tuples (h.max() "
        "raises on the unchanged tree; the docstrings ask for numpy.ndarray), negative heights (h^(5/3) is NaN)",
        "numpy.linspace(0,N,L+1,dtype=int)[1:-1] is evaluated in binary64 and can differ by one from floor(kN/L); its validity is "
        "checked exhaustively for N <= 200 (quick) / 600 (thorough) by the model's decidable `Valid`",
    ]
    chk.build_and_audit("AoVerif.Props.C18", "AoVerif.Props.C18", REQUIRED)

    # ---------------------------------------------------------------- a fresh interpreter works on ten calls meanwhile
    fresh_jobs, fresh_prev = [], []
    for k_job, fn in enumerate(["equivalent_layers", "optimal_grouping", "GCTM"] + ["optimal_grouping"] * 7):
        N = rng.randint(6, 30)
        L = rng.randint(2, min(5, N - 1))
        if k_job >= 3:
            # the local search alone (no restarts) on regular grids, where its result depends on the grouping it starts from in
            # about a third of the profile pairs (measured: 70 of 200) — anything carried over from profile A shows
            N, L = rng.randint(12, 30), rng.randint(3, 5)
        prof = []
        for _ in range(2):            # profile A (the history) and profile B (the call under test): same N, same L
            hh = _heights(rng, N, "regular" if k_job >= 3 else rng.choice(["regular", "irregular"]), L)
            pp = numpy.array([rng.uniform(0.05, 1) ** rng.randint(1, 3) for _ in range(N)]) * 10 ** rng.uniform(-14, -12)
            ww = numpy.array([rng.uniform(1, 60) for _ in range(N)])
            prof.append((hh, pp, ww))
        if rng.random() < 0.5:
            prof[0] = (prof[1][0].copy(), prof[0][1], prof[0][2])     # same heights, other strengths
        fresh_prev.append(prof[0])
        fresh_jobs.append({"fn": fn, "L": L, "R": 0 if 3 <= k_job < 9 else 3, "seed": rng.getrandbits(31), "h": _hex(prof[1][0]), "p": _hex(prof[1][1]),
                           "w": _hex(prof[1][2])})
    child = _start_child(fresh_jobs)

    lines, after = [], []      # driver operations and the comparison to run on each answer

    def op(line, fn):
        lines.append("C18 " + line)
        after.append(fn)

    cur = [""]

    def corr_fail(what, detail=""):
        # the driver line carries the complete input (hex floats), so the replay file is a concrete reproduction
        chk.broke("correspondence", what, detail or ("driver operation: " + cur[0]))

    def guarded(section, fn, it):
        """the real code raising inside a correspondence section breaks the tie (the oracles look for the failing input)"""
        try:
            fn(it)
        except common.LeanError:
            raise
        except Exception as ex:
            corr_fail("%s: the real code raised %s: %s (case %s)" % (section, type(ex).__name__, ex, it))

    NMAX = 40 if quick else 64
    # every public entry point of the three functions (the sub-package and the package re-export them with `import *`)
    ENTRY = (("profile_compression", pc), ("aotools.turbulence", aotools.turbulence), ("aotools", aotools))
    np_state = numpy.random.get_state()

    # ---------------------------------------------------------------- corpus: the recorded inputs of D13, D14, D15 first
    corpus = [("equivalent_layers", numpy.linspace(0, 15000, 10), numpy.ones(10), 7),                       # D13 (fixed)
              ("equivalent_layers", numpy.linspace(0, 15000, 10), numpy.array([2.0 ** j for j in range(10)]), 7),
              ("equivalent_layers", numpy.array([0., 100., 200., 9000., 10000.]), numpy.ones(5), 4),        # D15 (open)
              ("optimal_grouping", numpy.linspace(0, 15000, 10), numpy.ones(10), 1),                        # D14 (fixed)
              ("optimal_grouping", numpy.array([0., 100., 200., 9000., 10000.]), numpy.arange(1., 6.), 1)]
    for call, h, p, L in corpus:
        chk.oracle_cases += 1
        chk.count("corpus")
        chk.case(("corpus", call, len(p), L, float(p[-1])))
        try:
            if call == "equivalent_layers":
                fails = oracle_el(pc, h, p, L, None, True)
                replay = {"call": call, "h": _fl(h), "p": _fl(p), "L": L, "w": None, "h_hex": _hex(h), "p_hex": _hex(p), "exact": True}
            else:
                fails = oracle_og(pc, h, p, L, 2, 12345, True, False)
                replay = {"call": call, "R": 2, "L": L, "h": _fl(h), "p": _fl(p), "numpy_seed": 12345, "h_hex": _hex(h),
                          "p_hex": _hex(p), "exact": True, "exact_cost": False}
        except Exception as ex:
            fails = [("%s:exception" % ("el" if call == "equivalent_layers" else "og"), "%s raised %s: %s" % (call, type(ex).__name__, ex))]
            replay = {"call": call, "h_hex": _hex(h), "p_hex": _hex(p), "L": L, "R": 2, "numpy_seed": 12345, "w": None}
        for key, what in fails:
            chk.fail(key, what, dict(replay, key=key))

    # ---------------------------------------------------------------- equivalent layers: correspondence + oracle
    n_el = 350 if quick else 5000
    hk = ["regular", "dyadic", "irregular", "clustered", "on-edges", "roundup", "dups"]
    pk = ["ones", "bits", "dyadic", "float", "zeros"]
    for it in range(n_el):
        N = rng.randint(2, NMAX) if it % 7 else rng.randint(2, 6)
        if it % 25 == 3:
            N = rng.randint(NMAX + 1, 100)        # up to the documented use (a 100-layer profile)
        if it % 50 == 11:
            # high-resolution input (radiosonde / SCIDAR / model levels): N beyond 2^8 and into the thousands
            N = rng.choice([257, rng.randint(258, 400), 1000, 5000])
            chk.count("el:N>256")
        L = rng.randint(1, N - 1)
        if it % 25 == 3 and rng.random() < 0.5:
            L = rng.randint(1, 10)
        if it % 50 == 11:
            L = rng.choice([1, 2, 5, 10, 37, rng.randint(1, N - 1), N - 1])
        kind = hk[it % len(hk)]
        if kind == "roundup":
            h = _roundup_profile(rng, N, L)
            if h is None:
                kind, h = "regular", _heights(rng, N, "regular", L)
        else:
            h = _heights(rng, N, kind, L)
        N = len(h)
        if L >= N:
            L = N - 1
        if L < 1:
            continue
        skind = pk[(it // len(hk)) % len(pk)]
        if skind == "bits" and N > 50:
            skind = "dyadic"
        p = _strengths(rng, N, skind)
        exact = skind in EXACT_P
        usew = rng.random() < 0.5
        w = numpy.array([rng.uniform(1, 60) for _ in range(N)]) if usew else None
        idt = None
        if it % 5 == 2:
            # integer-typed columns (heights in metres, strengths as counts, wind in whole m/s — what a table read with
            # dtype=int gives): the results are floats all the same
            # (round 5: unsigned columns too — heights below 65 km and counts below 16385 fit uint16)
            idt = rng.choice(["int64", "int32", "uint16", "uint32", "uint64"])
            h = numpy.round(h).astype(idt)
            if skind in ("ones", "bits", "dyadic", "zeros") and (skind != "bits" or (N <= 30 and idt == "int64") or N <= 20):
                p = numpy.round(p * (16 if skind in ("dyadic", "zeros") else 1)).astype("int64" if skind == "bits" else idt)
            if usew or rng.random() < 0.5:
                usew = True
                w = numpy.array([rng.randint(1, 60) for _ in range(N)], dtype=idt)
            chk.count("el:integer-dtype")
            chk.count("el:dtype=" + idt)
        # ---- round 5 (generator audit): storage / magnitude / argument-type classes; the clauses are unchanged
        rt32 = None
        if idt is None and it % 11 == 5:
            # single-precision columns (a FITS table, numpy.float32 model output): the library then sums in float32.
            # Observed on the unchanged tree (seeds 0..11 quick + thorough seed 0, twice): total 1.4e-7, height moment 4.5e-7,
            # wind moment 2.4e-7 -> RT32 = 1e-4 is >= 220 x
            rt32 = RT32
            if skind == "bits":
                skind = "dyadic"
                p = _strengths(rng, N, skind)
            h, p = h.astype("float32"), p.astype("float32")       # dyadic strengths (<= 14 bits) and their sums stay exact
            if skind == "float":
                exact = False
            if usew:
                w = w.astype("float32")
            chk.count("el:dtype=float32")
        elif idt is None and it % 3 == 1:
            # other units / magnitudes, as exact powers of two so that exactness survives: strengths from 1e-30 to 1e+12 of the
            # usual (Cn2 per metre, relative weights, unnormalised counts), heights in "kilometres" (x 2^-10)
            kp = rng.randint(-100, 40)
            p = p * 2.0 ** kp
            if rng.random() < 0.5:
                h = h * 2.0 ** -10
            chk.count("el:rescaled-by-powers-of-two")
        if usew and w.dtype.kind == "f" and rng.random() < 0.2:
            w = w.copy()
            for j in rng.sample(range(N), rng.randint(1, max(1, N // 3))):     # calm layers: wind speed exactly 0
                w[j] = 0.0
            chk.count("el:calm-layers (w = 0)")
        if it % 6 == 4:
            L = _np_int(rng, L)
            chk.count("el:L is a NumPy integer")
        pc_ = ENTRY[it % 3][1]
        if rng.random() < 0.2:                      # layers need not be sorted for this method
            perm = list(range(N))
            rng.shuffle(perm)
            h, p = h[perm], p[perm]
            if usew:
                w = w[perm]
            if skind == "bits":
                skind, exact = "dyadic", True
            chk.count("el:unsorted")
        layout = None
        if it % 4 == 1:
            layout = rng.choice(["table-column", "negstride", "readonly"])
            h, p = _relayout1(h, layout), _relayout1(p, layout)
            if usew:
                w = _relayout1(w, layout)
            chk.count("el:layout=" + layout)
        chk.count("el:h=%s" % kind)
        chk.count("el:p=%s" % skind)
        chk.count("el:L=1" if L == 1 else ("el:L=N-1" if L == N - 1 else "el:1<L<N-1"))
        chk.case(("el", N, L, kind, skind, usew, it if N > 8 else _fl(h)[:3]),
                 sample={"fn": "equivalent_layers", "N": N, "L": L, "h": _fl(h), "p": _fl(p)} if it < 2 else None)
        chk.oracle_cases += 1
        replay = {"call": "equivalent_layers", "h": _fl(h), "p": _fl(p), "L": int(L), "w": None if w is None else _fl(w),
                  "h_hex": _hex(h), "p_hex": _hex(p), "exact": exact,
                  "dtypes": [str(h.dtype), str(p.dtype), None if w is None else str(w.dtype)],
                  "layout": layout, "L_type": type(L).__name__, "rt32": rt32, "via": ENTRY[it % 3][0]}
        try:
            fails = oracle_el(pc_, h, p, L, w, exact, rt32)
        except Exception as ex:                      # an exception on an in-domain profile is a failure of the property
            fails = [("el:exception", "equivalent_layers raised %s: %s" % (type(ex).__name__, ex))]
        for key, what in fails:
            chk.fail(key, what, dict(replay, key=key))
        # correspondence on the same input
        try:
            real = pc.equivalent_layers(h, p, L, w=w) if usew else pc.equivalent_layers(h, p, L)
        except Exception:
            real = None
        if real is not None and all(numpy.shape(r) == (L,) for r in real) and rt32 is None and N <= 400:
            # (single-precision columns are computed in float32 by NumPy, the model runs in binary64: oracle only; N > 400: oracle only)
            flat = [x for arr in real for x in arr]
            ex_idx = set(range(L, 2 * L)) if exact else set()

            def chk_el(ans, flat=flat, ex_idx=ex_idx, N=N, L=L, kind=kind, skind=skind):
                d = "bad-op" if ans == "bad-op" else _cmp_floats(ans.split(), flat, ex_idx, RT_CORR)
                if d:
                    corr_fail("el: model and equivalent_layers disagree (N=%d L=%d heights %s strengths %s): %s" % (N, L, kind, skind, d))
            op("el %d %d %d %s %s%s" % (N, L, 1 if usew else 0, _hex(h), _hex(p), (" " + _hex(w)) if usew else ""), chk_el)
            chk.corr_cases += 1
        # NumPy semantics of the pinned construction (validates the Float model of arange/digitize)
        if exact and it % 2 == 0 and h.max() > h.min() and rt32 is None and N <= 400:
            n_real, c_real = _pinned_el(h, p, L)
            if n_real != L:
                chk.count("elpin:edges!=L")

            def chk_pin(ans, n_real=n_real, c_real=c_real, N=N, L=L):
                t = ans.split()
                if ans == "bad-op" or int(t[0]) != n_real or [common.h2f(x) for x in t[1 + L:1 + 2 * L]] != c_real:
                    corr_fail("elpin: Float model of numpy.arange/digitize disagrees with NumPy (N=%d L=%d): model %s, numpy n=%d %s"
                              % (N, L, ans[:200], n_real, c_real))
            op("elpin %d %d %s %s" % (N, L, _hex(h), _hex(p)), chk_pin)
            chk.corr_cases += 1

    # D13 mechanism on the model: the recorded input, pinned construction (arange) vs repaired construction
    h13, p13 = numpy.linspace(0, 15000, 10), numpy.array([2.0 ** j for j in range(10)])

    def chk_d13(ans):
        t = ans.split()
        if ans == "bad-op" or int(t[0]) != 8 or sum(common.h2f(x) for x in t[8:15]) != 511.0:
            corr_fail("elpin: the model of the pinned arange construction no longer reproduces D13 (8 edges, top layer dropped): %s" % ans[:200])
        else:
            chk.notes.append("D13 reproduced on the model of the PINNED construction: N=10, h=linspace(0,15000,10), L=7 -> "
                             "numpy.arange makes 8 edges, layer 9 falls in slab 8 and is dropped (sum 511 of 1023)")
    op("elpin 10 7 %s %s" % (_hex(h13), _hex(p13)), chk_d13)

    # ---------------------------------------------------------------- splits / groups / vicinity / cost (exact)
    def rand_splits(N, m):
        return sorted(rng.sample(range(0, N - 1), m))

    n_sp = 100 if quick else 600
    def _body_splits(it):
        N = rng.randint(2, 14 if it % 3 else 30)
        m = rng.randint(0, N - 2)
        s = rand_splits(N, m)
        sa = numpy.array(s, dtype=int)
        chk.case(("splits", N, tuple(s)))
        chk.count("splits:m=0" if m == 0 else ("splits:m=N-2" if m == N - 2 else "splits:0<m<N-2"))
        real_g = [(int(g[0]), int(g[-1]) + 1) if len(g) else (-1, -1) for g in pc._convert_splits_to_groups(sa, N)]

        def chk_groups(ans, real_g=real_g, N=N, s=s):
            t = [int(x) for x in ans.split()] if ans != "bad-op" else []
            if list(zip(t[0::2], t[1::2])) != real_g:
                corr_fail("groups: model %s vs _convert_splits_to_groups %s (N=%d splits %s)" % (ans, real_g, N, s))
        op("groups %d %d %s" % (N, m, " ".join(map(str, s))), chk_groups)
        full = [list(map(int, g)) for g in pc._convert_splits_to_groups(sa, N)]
        if [x for g in full for x in g] != list(range(N)) or len(full) != m + 1 or any(len(g) == 0 for g in full):
            chk.fail("og:groups-not-a-partition", "_convert_splits_to_groups(%s, %d) = %s is not %d non-empty consecutive groups covering "
                     "all layers" % (s, N, full, m + 1), {"call": "_convert_splits_to_groups", "splits": s, "N": N})
        if m + 1 < N:
            real_v = [list(map(int, v)) for v in pc._vicinity(sa, N)]

            def chk_vic(ans, real_v=real_v, N=N, s=s):
                mv = [[] if x.strip() == "e" else [int(y) for y in x.split()] for x in ans.split("|")] if ans != "bad-op" else None
                if mv != real_v:
                    corr_fail("vic: model vicinity differs from _vicinity (N=%d splits %s): model %s real %s" % (N, s, str(mv)[:300], str(real_v)[:300]))
            op("vic %d %d %s" % (N, m, " ".join(map(str, s))), chk_vic)
            chk.corr_cases += 1
        h = _heights(rng, N, "dyadic", 1)
        p = _strengths(rng, N, "dyadic")
        g1 = float(pc._G(pc._convert_splits_to_groups(sa, N), h, p))
        g2 = float(pc._Gjit(sa, h, p))
        mine = splits_cost(h, p, s, N)

        def chk_cost(ans, g1=g1, g2=g2, mine=mine, N=N, s=s):
            v = common.h2f(ans) if ans != "bad-op" else float("nan")
            if not (v == g1 == g2 == mine):
                corr_fail("cost: model G=%r, _G=%r, _Gjit=%r, definition %r (N=%d splits %s, dyadic profile)" % (v, g1, g2, mine, N, s))
        op("cost %d %d %s %s %s" % (N, m, " ".join(map(str, s)), _hex(h), _hex(p)), chk_cost)
        chk.corr_cases += 2
    for it in range(n_sp):
        guarded('splits', _body_splits, it)

    # exhaustively: every split list (valid or not strictly needed: every subset of 0..N-2 IS a valid list) for small N
    import itertools
    NEX = 5 if quick else 9

    def _body_exh(key):
        N, s = key
        sa = numpy.array(s, dtype=int)
        m = len(s)
        real_g = [(int(g[0]), int(g[-1]) + 1) if len(g) else (-1, -1) for g in pc._convert_splits_to_groups(sa, N)]

        def chk_groups(ans, real_g=real_g, N=N, s=s):
            t = [int(x) for x in ans.split()] if ans != "bad-op" else []
            if list(zip(t[0::2], t[1::2])) != real_g:
                corr_fail("groups: model %s vs _convert_splits_to_groups %s (N=%d splits %s)" % (ans, real_g, N, s))
        op("groups %d %d %s" % (N, m, " ".join(map(str, s))), chk_groups)

        def chk_valid(ans, s=s, N=N):
            if ans != "1":
                corr_fail("valid: the subset %s of 0..%d is not Valid in the model" % (s, N - 2))
        op("valid %d %d %s" % (N, m, " ".join(map(str, s))), chk_valid)
        if m + 1 < N:
            real_v = [list(map(int, v)) for v in pc._vicinity(sa, N)]

            def chk_vic(ans, real_v=real_v, N=N, s=s):
                mv = [[] if x.strip() == "e" else [int(y) for y in x.split()] for x in ans.split("|")] if ans != "bad-op" else None
                if mv != real_v:
                    corr_fail("vic: model vicinity differs from _vicinity (N=%d splits %s): model %s real %s" % (N, s, str(mv)[:300], str(real_v)[:300]))
            op("vic %d %d %s" % (N, m, " ".join(map(str, s))), chk_vic)
        chk.corr_cases += 1
    nex = 0
    for N in range(2, NEX + 1):
        for m in range(0, N - 1):
            for s in itertools.combinations(range(N - 1), m):
                guarded("splits-exhaustive", _body_exh, (N, list(s)))
                nex += 1
    chk.count("splits:exhaustive (every split list, N<=%d)" % NEX, nex)

    # the equal split the code starts from: model (binary64 floor) == numpy, and valid — exhaustively
    NEQ = 200 if quick else 600
    bad_eq = 0
    for N in range(2, NEQ + 1):
        for L in range(1, N):
            s = numpy.linspace(0, N, L + 1, dtype=int)[1:-1].tolist()
            if len(s) != L - 1 or any(not (0 <= s[i] <= N - 2) for i in range(L - 1)) or any(s[i] >= s[i + 1] for i in range(L - 2)):
                bad_eq += 1
                chk.fail("og:equal-split-invalid", "numpy.linspace(0,%d,%d,dtype=int)[1:-1]=%s is not a valid split list" % (N, L + 1, s),
                         {"call": "linspace", "N": N, "L": L})
    chk.count("equal-split:(N,L) pairs checked valid", (NEQ - 1) * NEQ // 2)
    for it in range(40 if quick else 400):
        N = rng.randint(2, NEQ)
        L = rng.randint(1, N - 1)
        s = numpy.linspace(0, N, L + 1, dtype=int)[1:-1].tolist()

        def chk_eq(ans, s=s, N=N, L=L):
            mv = [] if ans.strip() == "e" else ([int(x) for x in ans.split()] if ans != "bad-op" else None)
            if mv != s:
                corr_fail("equal: model %s vs numpy.linspace(0,%d,%d,dtype=int)[1:-1] = %s" % (mv, N, L + 1, s))
        op("equal %d %d" % (N, L), chk_eq)

        def chk_valid(ans, s=s, N=N):
            if ans != "1":
                corr_fail("valid: the code's equal split %s (N=%d) is not Valid in the model" % (s, N))
        op("valid %d %d %s" % (N, len(s), " ".join(map(str, s))), chk_valid)

    # ---------------------------------------------------------------- optimal grouping: correspondence (exact) + oracle
    searched = [0]
    n_og_corr = 60 if quick else 500
    def _body_og_corr(it):
        N = rng.randint(2, 9) if it % 4 else rng.randint(10, 16 if quick else 22)
        L = rng.randint(1, N - 1)
        R = rng.choice([0, 1, 2, 3])
        h = _heights(rng, N, "dyadic", L)
        if it % 3 == 0:
            h = numpy.floor(numpy.linspace(0, 1000 * rng.randint(1, 20), N))     # regular: many ties
        p = _strengths(rng, N, "ones" if it % 5 == 0 else "dyadic")
        seed = rng.getrandbits(31)
        numpy.random.seed(seed)
        restarts = [list(map(int, pc._random_grouping(N, L))) for _ in range(R)]
        numpy.random.seed(seed)
        res = pc.optimal_grouping(R, L, h, p)
        flat_r = [x for r in restarts for x in r]
        chk.case(("og-corr", N, L, R, tuple(flat_r), it))
        chk.count("og-corr:R=%d" % R)
        for r in restarts:
            def chk_rv(ans, r=r, N=N, L=L):
                if ans != "1" or len(r) != L - 1:
                    corr_fail("valid: restart %s drawn by _random_grouping (N=%d) is not Valid in the model" % (r, N))
            op("valid %d %d %s" % (N, len(r), " ".join(map(str, r))), chk_rv)
        if numpy.shape(res[0]) == (L,) and numpy.shape(res[1]) == (L,):
            want = [float(x) for x in res[0]] + [float(x) for x in res[1]]

            def chk_og(ans, want=want, N=N, L=L, R=R, seed=seed, restarts=restarts, h=h, p=p):
                if ans == "bad-op":
                    corr_fail("og: model rejects N=%d L=%d R=%d restarts %s" % (N, L, R, restarts))
                    return
                parts = ans.split(";")
                got = [common.h2f(x) for x in (parts[2] + " " + parts[3]).split()]
                if got != want:
                    # failing-input search seeded with the disagreeing input (DESIGN 2.5): same profile, more RNG states
                    if searched[0] < 6:
                        searched[0] += 1
                        for sd in [seed] + [rng.getrandbits(31) for _ in range(25)]:
                            for RR in (R, 3, 10):
                                try:
                                    ff = oracle_og(pc, h, p, L, RR, sd, True, True)
                                except Exception as ex:
                                    ff = [("og:exception", "optimal_grouping raised %s: %s" % (type(ex).__name__, ex))]
                                for key, what in ff:
                                    chk.fail(key, what, {"call": "optimal_grouping", "R": RR, "L": L, "h": _fl(h), "p": _fl(p),
                                                         "numpy_seed": sd, "h_hex": _hex(h), "p_hex": _hex(p), "exact": True,
                                                         "exact_cost": True, "key": key})
                    corr_fail("og: model (heights, cn2)=%s vs optimal_grouping %s (N=%d L=%d R=%d numpy seed %d restarts %s, "
                              "dyadic profile; model splits %s)" % (got, want, N, L, R, seed, restarts, parts[0].strip()))
            op("og %d %d 200 %d %s %s %s" % (N, L, R, " ".join(map(str, flat_r)), _hex(h), _hex(p)), chk_og)
            chk.corr_cases += 1
        # local search alone, from a random valid start
        if L >= 1 and it % 2 == 0:
            s = rand_splits(N, L - 1)
            gn, Gn = pc._optGroupingMinimization(numpy.array(s, dtype=int), h, p)
            gn = list(map(int, gn))

            def chk_om(ans, gn=gn, Gn=float(Gn), s=s, N=N):
                if ans == "bad-op":
                    corr_fail("optmin: model rejects start %s N=%d" % (s, N))
                    return
                a, b = ans.split(";")
                ms = [] if a.strip() == "e" else [int(x) for x in a.split()]
                if ms != gn or common.h2f(b.strip()) != Gn:
                    corr_fail("optmin: model (%s, %r) vs _optGroupingMinimization (%s, %r) from start %s (N=%d)"
                              % (ms, common.h2f(b.strip()), gn, Gn, s, N))
            op("optmin %d %d 200 %s %s %s" % (N, L - 1, " ".join(map(str, s)), _hex(h), _hex(p)), chk_om)
            chk.corr_cases += 1
    for it in range(n_og_corr):
        guarded('og-corr', _body_og_corr, it)

    n_og = 220 if quick else 4000
    for it in range(n_og):
        N = rng.randint(2, 12) if it % 3 else rng.randint(2, NMAX)
        if it % 40 == 7:
            N = rng.randint(NMAX + 1, 100)        # up to the documented use (a 100-layer profile, L = 5)
        L = 1 if it % 11 == 0 else rng.randint(1, N - 1)
        if it % 40 == 7:
            L = rng.randint(2, 6)
        R = rng.choice([0, 1, 2, 3] if quick else [0, 1, 2, 3, 5, 10])
        if it % 25 == 4:
            R = 10 if quick else rng.choice([10, 10, 50])       # the docstring's recommendation ("recommended 10?")
        if it % 110 == 50:
            # high-resolution input: N beyond 2^8 (the local search costs O(N^2 L) per step: few layers out, no / one restart)
            N, L, R = rng.randint(257, 300), rng.randint(2, 4), (0 if quick else rng.choice([0, 1]))
            chk.count("og:N>256")
        hkind = ["dyadic", "irregular", "regular", "clustered", "dups", "unsorted", "descending"][it % 7]
        skind = ["dyadic", "float", "ones", "zeros", "dyadic"][it % 5]
        if hkind in ("unsorted", "descending"):
            # only "heights in increasing order" needs increasing input heights; everything else is checked here
            h = _heights(rng, N, "dyadic", L)
            if hkind == "descending":
                h = h[::-1].copy()
            else:
                perm = list(range(N))
                rng.shuffle(perm)
                h = h[perm]
        else:
            h = _heights(rng, N, hkind, L)
        if hkind not in ("dups", "unsorted", "descending") and len(set(h.tolist())) != N:
            continue
        p = _strengths(rng, N, skind)
        exact = skind in EXACT_P
        exact_cost = exact and hkind in ("dyadic", "dups", "unsorted", "descending")
        if it % 20 == 9 and hkind in ("dyadic", "dups", "unsorted", "descending") and exact:
            # integer-typed heights and strengths
            h = numpy.round(h * 4).astype("int64")
            p = numpy.round(p * 16).astype("int64")
            chk.count("og:integer-dtype")
        # ---- round 5 (generator audit): storage / magnitude / argument-type / RNG-state classes; the clauses are unchanged
        rt32, layout, is_int = None, None, h.dtype.kind != "f"
        if it % 20 == 19 and hkind in ("dyadic", "dups", "unsorted", "descending") and exact:
            h = numpy.round(h * 4).astype("int32")          # quarter metres up to 20 km and 14-bit counts fit int32
            p = numpy.round(p * 16).astype("int32")
            is_int = True
            chk.count("og:integer-dtype")
            chk.count("og:dtype=int32")
        # unsigned integer heights (what a table column of non-negative whole metres is often stored as): finding og:unsigned-heights
        # (|h_a − h_b| wrapped around inside the cost function), fixed by 12ba4b5
        elif it % 20 == 7 and hkind in ("dyadic", "dups", "unsorted", "descending") and exact:
            h = numpy.round(h * 4).astype(["uint16", "uint32", "uint64"][it // 20 % 3] if float(numpy.max(h)) * 4 < 65000 else "uint32")
            p = numpy.round(p * 16).astype("int32")
            is_int = True
            chk.count("og:integer-dtype")
            chk.count("og:dtype=unsigned")
        elif not is_int and it % 20 == 11:
            # single-precision columns: the library's costs are float32 numbers; strengths are kept dyadic (<= 14 bits, sums
            # exact in float32) so that the grouping stays recoverable exactly; the cost clause is asked to RT32
            # (observed on the unchanged tree: the returned cost never exceeded the equal split's at all — ratio <= 1 — in every
            # float32 case of seeds 0..11 quick + thorough seed 0)
            if not exact:
                skind = "dyadic"
                p = _strengths(rng, N, skind)
                exact = True
            h, p = h.astype("float32"), p.astype("float32")
            exact_cost, rt32 = False, RT32
            chk.count("og:dtype=float32")
        elif not is_int and it % 3 == 2:
            p = p * 2.0 ** rng.randint(-100, 40)                 # other units / magnitudes, exact powers of two
            if rng.random() < 0.5:
                h = h * 2.0 ** -10
            chk.count("og:rescaled-by-powers-of-two")
        if it % 10 in (3, 6):
            layout = rng.choice(["table-column", "negstride"]) if it % 10 == 3 else "readonly"
            h, p = _relayout1(h, layout), _relayout1(p, layout)
            chk.count("og:layout=" + layout)
        if it % 6 == 1:
            R, L = _np_int(rng, R), _np_int(rng, L)
            chk.count("og:R, L are NumPy integers")
        pc_ = ENTRY[it % 3][1]
        chk.count("og:h=%s" % hkind)
        seed = rng.getrandbits(31)
        if it % 9 == 2:
            # states of the global generator reached from the smallest / largest scalar seed and from array seeds (> 2^32, > 2^53)
            seed = rng.choice([0, 2 ** 32 - 1, [rng.getrandbits(32), rng.getrandbits(32)], [2 ** 32 - 1] * 3 + [rng.getrandbits(32)]])
            chk.count("og:numpy seed 0 / 2^32-1 / array")
        chk.case(("og", N, L, R, hkind, skind, str(seed)))
        chk.count("og:L=1" if L == 1 else ("og:L=N-1" if L == N - 1 else "og:1<L<N-1"))
        chk.count("og:R=%d" % R)
        chk.count("og:p=%s" % skind)
        chk.oracle_cases += 1
        replay = {"call": "optimal_grouping", "R": int(R), "L": int(L), "h": _fl(h), "p": _fl(p), "numpy_seed": seed,
                  "h_hex": _hex(h), "p_hex": _hex(p), "exact": exact, "exact_cost": exact_cost,
                  "dtypes": [str(h.dtype), str(p.dtype), None], "layout": layout, "L_type": type(L).__name__, "rt32": rt32,
                  "via": ENTRY[it % 3][0]}
        try:
            fails = oracle_og(pc_, h, p, L, R, seed, exact, exact_cost, rt32)
        except Exception as ex:
            fails = [("og:exception", "optimal_grouping raised %s: %s" % (type(ex).__name__, ex))]
        for key, what in fails:
            chk.fail(key, what, dict(replay, key=key))

    # ---------------------------------------------------------------- GCTM
    n_g = 60 if quick else 1000
    worst = {}
    moved = {}
    def _body_gctm(it):
        thin = n_g <= it < n_g + n_thin
        scalings = None
        if it >= n_g + n_thin:
            fam, h, p, L, scalings, bands = _gctm_audit_profile(rng, it - n_g - n_thin, NMAX)
            chk.count("gctm:round-5 argument classes")
        else:
            fam, h, p, L = _gctm_profile(rng, it - n_g if thin else it, NMAX, GCTM_THIN if thin else GCTM_GENERAL)
            bands = not thin
        pc_ = ENTRY[it % 3][1]
        N = len(h)
        with numpy.errstate(all="ignore"):
            he, ce = pc.equivalent_layers(h, p, L)
        if not (numpy.shape(ce) == (L,) and numpy.all(numpy.asarray(ce) > 0) and numpy.all(numpy.isfinite(he))):
            chk.count("gctm:skipped (an equal-thickness slab is empty: outside the stated domain)")
            return
        chk.case(("gctm", N, L, it))
        chk.count("gctm:L=%d" % L)
        chk.count("gctm:family=%s" % fam)
        if float(numpy.asarray(he)[0]) == 0.0:
            chk.count("gctm:starting guess has a layer at h = 0")
        chk.oracle_cases += 1
        replay = {"call": "GCTM", "L": int(L), "h": _fl(h), "p": _fl(p), "h_hex": _hex(h), "p_hex": _hex(p),
                  "dtypes": [str(h.dtype), str(p.dtype), None], "bands": bands, "scalings": scalings, "family": fam,
                  "L_type": type(L).__name__, "via": ENTRY[it % 3][0],
                  "layout": fam.split(":")[1] if fam.startswith("layout:") else None}
        try:
            fails, rel = oracle_gctm(pc_, h, p, L, moved, bands=bands, scalings=scalings)
            if it < n_g:
                worst[L] = tuple(max(a, b) for a, b in zip(worst.get(L, (0.0, 0.0, 0.0)), rel))
            elif fam == "large-N":
                worst_big[int(L)] = tuple(max(a, b) for a, b in zip(worst_big.get(int(L), (0.0, 0.0, 0.0)), rel))
        except Exception as ex:
            fails = [("gctm:exception", "GCTM raised %s: %s" % (type(ex).__name__, ex))]
        for key, what in fails:
            chk.fail(key, what, dict(replay, key=key))
        if it % 3 == 0 and N <= 400:
            HS, CS = 10000.0, 100e-15
            if scalings is not None:
                HS, CS = (HS if scalings[0] is None else scalings[0]), (CS if scalings[1] is None else scalings[1])
            hs, cs = h / HS, p / CS
            mom = [float(x) for x in pc._moments(hs, cs, L)]

            def chk_mom(ans, mom=mom, N=N, L=L):
                d = "bad-op" if ans == "bad-op" else _cmp_floats(ans.split(), mom, set(), RT_CORR)
                if d:
                    corr_fail("mom: model moments vs _moments (N=%d L=%d): %s" % (N, L, d))
            op("mom %d %d %s %s" % (N, L, _hex(hs), _hex(cs)), chk_mom)
            x = numpy.array([rng.uniform(0, 2) for _ in range(L)] + [rng.uniform(0, 5) for _ in range(L)])
            fv = float(pc._moments_minfunc(x, L, numpy.array(mom)))

            def chk_mf(ans, fv=fv, L=L):
                if ans == "bad-op" or not common.close(common.h2f(ans), fv, RT_CORR):
                    corr_fail("minfunc: model %s vs _moments_minfunc %r (L=%d)" % (ans, fv, L))
            op("minfunc %d %s %s" % (L, _hex(x), _hex(mom)), chk_mf)
            chk.corr_cases += 2
    n_thin = 30 if quick else 600
    n_audit = 24 if quick else 400
    worst_big = {}
    for it in range(n_g + n_thin + n_audit):
        guarded('gctm', _body_gctm, it)
    if worst_big:
        chk.notes.append("GCTM on 257..3000 input layers, measured in this run, L: (worst single moment [not judged], total Cn2 [not judged], "
                         "residual norm) — " + "; ".join("L=%d: (%.3g, %.3g, %.3g) allowed (-, -, %g)" % ((L,) + worst_big[L] + GCTM_BAND[L][2:])
                                                for L in sorted(worst_big)))
    chk.notes.append("GCTM accuracy measured in this run (numeric only), L: (worst relative error of a scaled moment, of moment 0 = "
                     "total Cn2, relative norm of the moment residual) — "
                     + "; ".join("L=%d: (%.3g, %.3g, %.3g) allowed (%g, %g, %g)" % ((L,) + worst[L] + GCTM_BAND[L]) for L in sorted(worst)))
    chk.notes.append("GCTM 'the optimiser moved' clause (start measurably off: projected gradient >= %g, relative residual >= %g): applied to "
                     "%d of the L >= 2 profiles (%d with a starting height of exactly 0); smallest move of a scaled variable %.3g (must be >= %g), "
                     "largest residual ratio f1/f0 %.3g (must be <= 1 - 1e-6)"
                     % (PG_MIN, RES_MIN, moved.get("guarded", 0), moved.get("guarded:start-height-0", 0), moved.get("min-move", float("nan")),
                        MOVE_MIN, moved.get("max-f1/f0", float("nan"))))

    # ---------------------------------------------------------------- sequences of compressions on the SAME arrays
    # a caller compresses one profile with several methods / several L: every call must see the profile the caller holds.
    # Each result on the shared float64 arrays is compared with the result on private copies; the arrays must stay untouched.
    def _body_seq(it):
        N = rng.randint(6, 30)
        h = _heights(rng, N, ["regular", "irregular"][it % 2], 1)
        p = numpy.array([rng.uniform(0.05, 1) for _ in range(N)]) * 10 ** rng.uniform(-14, -12)
        w = numpy.array([rng.uniform(1, 60) for _ in range(N)])
        Ls = sorted(rng.sample(range(1, min(N - 1, 5) + 1), 2))
        seed = rng.getrandbits(31)
        chk.case(("sequence", N, tuple(Ls), it))
        chk.count("sequence")
        chk.oracle_cases += 1
        h0, p0, w0 = h.copy(), p.copy(), w.copy()
        base = {"h": _fl(h0), "p": _fl(p0), "w": _fl(w0), "h_hex": _hex(h0), "p_hex": _hex(p0), "Ls": Ls, "numpy_seed": seed}

        def og(hh, pp, L):
            st = numpy.random.get_state()
            try:
                numpy.random.seed(seed)
                return pc.optimal_grouping(2, L, hh, pp)
            finally:
                numpy.random.set_state(st)
        calls = []
        for L in Ls:
            calls += [("GCTM", L, lambda hh, pp, ww, L=L: pc.GCTM(hh, pp, L)),
                      ("equivalent_layers", L, lambda hh, pp, ww, L=L: pc.equivalent_layers(hh, pp, L, w=ww)),
                      ("optimal_grouping", L, lambda hh, pp, ww, L=L: og(hh, pp, L))]
        with numpy.errstate(all="ignore"):
            for k, (name, L, fn) in enumerate(calls):
                fresh = fn(h0.copy(), p0.copy(), w0.copy())
                got = fn(h, p, w)
                hist = " -> ".join("%s(L=%d)" % (n_, l_) for n_, l_, _ in calls[:k + 1])
                same = len(fresh) == len(got) and all(
                    numpy.shape(a) == numpy.shape(b) and numpy.allclose(a, b, rtol=1e-9, atol=0, equal_nan=True) for a, b in zip(fresh, got))
                if not same:
                    chk.fail("sequence:%s:depends-on-earlier-calls" % name,
                             "on the same arrays, call %d of the sequence %s returns %s, but %s on a fresh copy of the profile (N=%d)"
                             % (k + 1, hist, [numpy.asarray(x).tolist() for x in got][:2], [numpy.asarray(x).tolist() for x in fresh][:2], N),
                             dict(base, call="sequence", key="sequence:%s:depends-on-earlier-calls" % name, upto=k + 1))
                    break
                if not (numpy.array_equal(h, h0) and numpy.array_equal(p, p0) and numpy.array_equal(w, w0)):
                    chk.fail("%s:mutates-input" % {"GCTM": "gctm", "equivalent_layers": "el", "optimal_grouping": "og"}[name],
                             "after the sequence %s the caller's arrays have changed (h[:3] %s -> %s, p[:3] %s -> %s)"
                             % (hist, _fl(h0[:3]), _fl(h[:3]), _fl(p0[:3]), _fl(p[:3])),
                             dict(base, call="sequence", key="mutates-input", upto=k + 1))
                    break
    for it in range(6 if quick else 60):
        guarded('sequence', _body_seq, it)

    # round 5: ... and then ANOTHER profile with the same number of layers and the same L (a night's worth of profiles from one
    # instrument): anything remembered between calls under (N, L) alone belongs to the previous profile.  Profile B is profile A
    # with the strengths mirrored (turbulence moved to the other end) and/or new heights; every clause is evaluated on B's result.
    def _body_seq2(it):
        N = rng.randint(6, 30)
        L = rng.randint(1, min(N - 1, 5))
        hA = _heights(rng, N, ["regular", "irregular", "dyadic"][it % 3], L)
        pA = numpy.array([rng.uniform(0.05, 1) ** 3 for _ in range(N)]) * 10 ** rng.uniform(-14, -12)
        wA = numpy.array([rng.uniform(1, 60) for _ in range(N)])
        how = ["mirrored strengths, same heights", "new heights, same strengths", "new heights and strengths"][it % 3]
        hB = hA.copy() if it % 3 == 0 else _heights(rng, N, ["irregular", "regular"][it % 2], L)
        pB = pA[::-1].copy() if it % 3 == 0 else (pA.copy() if it % 3 == 1 else pA[::-1] * numpy.array([rng.uniform(0.5, 2) for _ in range(N)]))
        wB = wA[::-1].copy()
        seed = rng.getrandbits(31)
        chk.case(("sequence-2", N, L, it))
        chk.count("sequence: another profile with the same N and L")
        chk.oracle_cases += 1
        base = {"call": "sequence", "hA": _fl(hA), "pA": _fl(pA), "h": _fl(hB), "p": _fl(pB), "w": _fl(wB), "L": L, "numpy_seed": seed, "how": how}
        with numpy.errstate(all="ignore"):
            st = numpy.random.get_state()
            try:
                numpy.random.seed(seed)
                pc.equivalent_layers(hA, pA, L, w=wA)
                pc.optimal_grouping(3, L, hA, pA)
                pc.GCTM(hA, pA, L)
            finally:
                numpy.random.set_state(st)
            # (the oracles' own keys are kept: an empty slab in B is the known finding el:empty-slab:nan-height here as anywhere)
            fails = list(oracle_el(pc, hB, pB, L, wB, False))
            fails += list(oracle_og(pc, hB, pB, L, 3, seed, False, False))
            he, ce = pc.equivalent_layers(hB, pB, L)
            if numpy.all(numpy.asarray(ce) > 0) and numpy.all(numpy.isfinite(he)):
                fails += list(oracle_gctm(pc, hB, pB, L, None, bands=False)[0])
        for key, what in fails:
            chk.fail(key, what + " — for profile B (%s) compressed right after profile A with the same N=%d, L=%d" % (how, N, L),
                     dict(base, key=key))
    for it in range(6 if quick else 60):
        guarded('sequence', _body_seq2, it)

    # ---------------------------------------------------------------- the same calls here, at the end of a long history
    def _call(job, hh, pp, ww):
        with numpy.errstate(all="ignore"):
            if job["fn"] == "equivalent_layers":
                return pc.equivalent_layers(hh, pp, job["L"], w=ww)
            if job["fn"] == "optimal_grouping":
                numpy.random.seed(job["seed"])
                return pc.optimal_grouping(job["R"], job["L"], hh, pp)
            return pc.GCTM(hh, pp, job["L"])
    import json as _json
    try:
        c_out, c_err = child.communicate(timeout=600)
    except Exception as ex:
        child.kill()
        raise OSError("the fresh-interpreter child did not finish: %s" % ex)
    if child.returncode != 0:
        if "aotools" in c_err and "Traceback" in c_err:
            chk.fail("history:fresh-process:exception", "in a fresh interpreter one of the calls %s raised: %s"
                     % ([(j["fn"], j["L"]) for j in fresh_jobs], c_err.strip().splitlines()[-1][:300]),
                     {"call": "fresh-process", "jobs": fresh_jobs, "stderr": c_err[-2000:]})
            fresh_res = None
        else:
            raise OSError("the fresh-interpreter child failed to run: " + c_err[-1500:])
    else:
        fresh_res = _json.loads(c_out.strip().splitlines()[-1])
    for k, job in enumerate(fresh_jobs if fresh_res is not None else []):
        hB = numpy.array([common.h2f(x) for x in job["h"].split()])
        pB = numpy.array([common.h2f(x) for x in job["p"].split()])
        wB = numpy.array([common.h2f(x) for x in job["w"].split()])
        hA, pA, wA = fresh_prev[k]
        chk.oracle_cases += 1
        chk.count("history:first call in a fresh interpreter vs last call of this run")
        chk.case(("fresh-process", job["fn"], len(hB), job["L"]))
        try:
            _call(job, hA, pA, wA)                 # a different profile with the same N and L comes first
            here = _call(job, hB, pB, wB)
        except Exception as ex:
            chk.fail("history:%s:exception" % job["fn"], "%s raised %s: %s at the end of the run" % (job["fn"], type(ex).__name__, ex),
                     {"call": "fresh-process", "job": job})
            continue
        fresh = [numpy.array([common.h2f(x) for x in r.split()]) for r in fresh_res[k]]
        same = len(fresh) == len(here) and all(numpy.shape(a) == numpy.shape(b) and numpy.allclose(numpy.asarray(a, dtype=float), b, rtol=1e-9,
                                                                                                  atol=0, equal_nan=True) for a, b in zip(here, fresh))
        if not same:
            chk.fail("history:%s:differs-from-a-fresh-process" % job["fn"],
                     "%s(N=%d, L=%d) called at the end of this run, right after another profile with the same N and L, returns %s, but %s as "
                     "the first call in a fresh interpreter (same arguments%s)"
                     % (job["fn"], len(hB), job["L"], [numpy.asarray(x).tolist() for x in here][:2], [x.tolist() for x in fresh][:2],
                        ", global generator seeded with %d" % job["seed"] if job["fn"] == "optimal_grouping" else ""),
                     {"call": "fresh-process", "job": job, "previous_profile": {"h": _fl(hA), "p": _fl(pA)},
                      "key": "history:%s:differs-from-a-fresh-process" % job["fn"]})

    numpy.random.set_state(np_state)
    chk.notes.append("single-precision columns, worst relative deviation in this run (allowed %g): %s"
                     % (RT32, ", ".join("%s %.3g" % kv for kv in sorted(W32.items())) or "none generated"))

    # ---------------------------------------------------------------- run the driver once, compare
    try:
        answers = common.run_driver(lines, "C18")
    except common.LeanError as ex:
        chk.broke("correspondence", "the C18 driver does not build / run", str(ex))
        return
    for line, ans, fn in zip(lines, answers, after):
        cur[0] = line
        fn(ans.strip())


def replay(rec):
    """re-evaluate the recorded failing input on the real code"""
    from aotools.turbulence import profile_compression as pc
    f = rec.get("failure") or {}
    r = f.get("replay") or {}
    call = r.get("call")
    if call not in ("equivalent_layers", "optimal_grouping", "GCTM"):
        print("proof / correspondence record: re-running the recorded run (seed %s, tier %s)" % (rec.get("seed"), rec.get("tier")))
        chk = common.Check("C18", rec.get("tier", "quick"), int(rec.get("seed", 0)))
        run(chk)
        return chk.finish()
    h = numpy.array([common.h2f(x) for x in r["h_hex"].split()])
    p = numpy.array([common.h2f(x) for x in r["p_hex"].split()])
    dts = r.get("dtypes") or [None, None, None]
    if dts[0]:
        h = h.astype(dts[0])
    if dts[1]:
        p = p.astype(dts[1])
    lay = r.get("layout")
    if lay:
        h, p = _relayout1(h, lay), _relayout1(p, lay)
    L = r["L"]
    if str(r.get("L_type", "int")) != "int":
        L = getattr(numpy, r["L_type"])(L)
    if r.get("via") in ("aotools", "aotools.turbulence"):
        import importlib
        pc = importlib.import_module(r["via"])
    try:
        if call == "equivalent_layers":
            w = None if r.get("w") is None else numpy.array(r["w"], dtype=dts[2] or float)
            if lay and w is not None:
                w = _relayout1(w, lay)
            fails = oracle_el(pc, h, p, L, w, r.get("exact", False), r.get("rt32"))
        elif call == "optimal_grouping":
            fails = oracle_og(pc, h, p, L, r["R"], r["numpy_seed"], r.get("exact", False), r.get("exact_cost", False), r.get("rt32"))
        else:
            sc = r.get("scalings")
            fails = oracle_gctm(pc, h, p, L, bands=r.get("bands", True), scalings=tuple(sc) if sc else None)[0]
    except Exception as ex:     # the recorded failure may be an exception raised by the library
        fails = [("%s:exception" % {"equivalent_layers": "el", "optimal_grouping": "og"}.get(call, "gctm"),
                  "%s raised %s: %s" % (call, type(ex).__name__, ex))]
    for key, what in fails:
        print("STILL FAILS [%s] %s" % (key, what))
    if not fails:
        print("the recorded input no longer fails")
    return 1 if fails else 0
