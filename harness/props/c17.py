"""C17 — atmospheric and photometric conversions are mutually inverse and scale right."""
import json
import math

import numpy

from .. import common, t1check

MANIFEST = {
    "text": "Lean 4 theorems (inverse pairs, compositions, scaling laws, 5-magnitude factor, linearity in area and exposure, "
            "single-layer constant with |c-0.314|<0.002) over the real numbers about definitions REGENERATED from the Python source on "
            "every run (translator T1), for all positive arguments and every band of the regenerated table; the translator is "
            "validated each run against the Python functions; a direct oracle on the real code supplies failing inputs.",
    "note": "Trusted: Lean kernel + propext/Classical.choice/Quot.sound; Mathlib's Real.rpow/logb/pi as the meaning of **, log10, "
            "numpy.pi; translator T1 (self-checked each run); IEEE rounding and NumPy axis semantics are not modelled (exercised by "
            "the oracle on ranks 1-3, every axis).",
    "technique": "Lean 4 proof over a model regenerated from source (translator) + differential self-check + oracle search",
}
REQUIRED = ["cn2_r0_inv", "r0_cn2_inv", "r0_seeing_inv", "seeing_r0_inv", "cn2_to_seeing_eq_comp",
            "seeing_to_cn2_eq_comp", "cn2_seeing_inv", "seeing_cn2_inv", "r0_scales_lambda", "r0_scales_cn2",
            "seeing_scales_lambda", "slopevar_r0_inv", "r0_slopevar_inv", "table_positive",
            "table_has_twelve_bands", "mag_flux_inv", "flux_mag_inv", "five_mag_factor_100",
            "photons_per_band_linear", "photons_per_mag_linear", "coherence_single_layer",
            "isoplanatic_single_layer", "cθ_approx"]
T1_NAMES = ["cn2_to_r0", "r0_to_cn2", "r0_to_seeing", "seeing_to_r0", "cn2_to_seeing", "seeing_to_cn2",
            "coherenceTime", "isoplanaticAngle", "rytov_variance", "slope_variance_from_r0",
            "r0_from_slopes_kernel", "magnitude_to_flux", "flux_to_magnitude", "photons_per_mag",
            "photons_per_band"]
BANDS = list("UBVRIJHKgriz")
RT = 1e-9


def logu(rng, lo, hi):
    return math.exp(rng.uniform(math.log(lo), math.log(hi)))


def arggen(name, rng):
    n = rng.randint(1, 6)
    pool = {
        "cn2": logu(rng, 1e-16, 1e-11), "lamda": logu(rng, 3e-7, 1e-5), "r0": logu(rng, 0.01, 2.0),
        "seeing": logu(rng, 0.1, 5.0), "wavelength": logu(rng, 3e-7, 1e-5), "subapDiam": logu(rng, 0.05, 2.0),
        "slopeVar": logu(rng, 1e-16, 1e-10), "magnitude": rng.uniform(-2, 25), "mag": rng.uniform(-2, 25),
        "flux": logu(rng, 1e-3, 1e12), "waveband": rng.choice(BANDS), "pixel_scale": logu(rng, 1e-3, 1.0),
        "pxlScale": logu(rng, 1e-3, 1.0), "wvlBand": logu(rng, 10, 500), "exposure_time": logu(rng, 1e-4, 100),
        "expTime": logu(rng, 1e-4, 100),
    }
    if name in ("coherenceTime", "isoplanaticAngle", "rytov_variance"):
        pool["cn2"] = [logu(rng, 1e-16, 1e-12) for _ in range(n)]
        pool["v"] = [logu(rng, 1, 60) for _ in range(n)]
        pool["h"] = [logu(rng, 10, 2e4) for _ in range(n)]
    if name in ("photons_per_mag", "photons_per_band"):
        pool["mask"] = [float(rng.randint(0, 1)) for _ in range(rng.randint(1, 12))]
    return pool


def oracle(chk, n):
    """the property evaluated directly on the REAL code"""
    from aotools.turbulence import atmos_conversions as ac
    from aotools.astronomy import _astronomy as ast_
    import aotools
    rng = chk.rng

    def rel(a, b):
        return abs(a - b) <= RT * max(abs(a), abs(b), 1e-300)

    def bad(key, what, **replay):
        chk.fail(key, what, replay)

    for it in range(n):
        chk.oracle_cases += 1
        cn2, lam, r0, s = logu(rng, 1e-16, 1e-11), logu(rng, 3e-7, 1e-5), logu(rng, .01, 2.), logu(rng, .1, 5.)
        c = logu(rng, 0.2, 5.0)
        chk.case(("oracle", it), sample={"cn2": cn2, "lamda": lam, "r0": r0, "seeing": s, "c": c} if it < 2 else None)
        # inverse pairs (module functions and the package-level exports)
        for modname, mod in (("atmos_conversions", ac), ("aotools", aotools)):
            pairs = [("cn2_to_r0", "r0_to_cn2", cn2), ("r0_to_cn2", "cn2_to_r0", r0), ("r0_to_seeing", "seeing_to_r0", r0),
                     ("seeing_to_r0", "r0_to_seeing", s), ("cn2_to_seeing", "seeing_to_cn2", cn2),
                     ("seeing_to_cn2", "cn2_to_seeing", s)]
            for f, g, x in pairs:
                y = getattr(mod, g)(getattr(mod, f)(x, lam), lam)
                if not rel(y, x):
                    bad("inverse:%s∘%s" % (g, f), "%s.%s(%s(x,λ),λ)=%r ≠ x=%r (λ=%r)" % (modname, g, f, y, x, lam),
                        f=f, g=g, x=x, lamda=lam, got=y)
        # composites
        if not rel(ac.cn2_to_seeing(cn2, lam), ac.r0_to_seeing(ac.cn2_to_r0(cn2, lam), lam)):
            bad("composite:cn2_to_seeing", "cn2_to_seeing ≠ r0_to_seeing∘cn2_to_r0 at cn2=%r λ=%r" % (cn2, lam), cn2=cn2, lamda=lam)
        if not rel(ac.seeing_to_cn2(s, lam), ac.r0_to_cn2(ac.seeing_to_r0(s, lam), lam)):
            bad("composite:seeing_to_cn2", "seeing_to_cn2 ≠ r0_to_cn2∘seeing_to_r0 at s=%r λ=%r" % (s, lam), seeing=s, lamda=lam)
        # scalings
        if not rel(ac.cn2_to_r0(cn2, c * lam), c ** 1.2 * ac.cn2_to_r0(cn2, lam)):
            bad("scale:r0~lambda^6/5", "r0 does not scale as λ^(6/5) at cn2=%r λ=%r c=%r" % (cn2, lam, c), cn2=cn2, lamda=lam, c=c)
        if not rel(ac.cn2_to_r0(c * cn2, lam), c ** -0.6 * ac.cn2_to_r0(cn2, lam)):
            bad("scale:r0~cn2^-3/5", "r0 does not scale as Cn2^(-3/5) at cn2=%r λ=%r c=%r" % (cn2, lam, c), cn2=cn2, lamda=lam, c=c)
        if not rel(ac.cn2_to_seeing(cn2, c * lam), c ** -0.2 * ac.cn2_to_seeing(cn2, lam)):
            bad("scale:seeing~lambda^-1/5", "seeing does not scale as λ^(-1/5) at cn2=%r λ=%r c=%r" % (cn2, lam, c), cn2=cn2, lamda=lam, c=c)
        # slope variance <-> r0 through the real estimator: slopes whose variance along the last axis is v
        d = logu(rng, .05, 2.)
        v = ac.slope_variance_from_r0(r0, lam, d)
        nfr = rng.choice([2, 4, 10])
        base = numpy.array([1.0, -1.0] * (nfr // 2))              # population variance exactly 1
        nsub = rng.randint(1, 4)
        slopes = numpy.sqrt(v) * numpy.broadcast_to(base, (2, nsub, nfr)).copy()
        # static mean slopes that differ between sub-apertures (defocus, reference offsets) do not change the temporal
        # variance of any sub-aperture, so they must not change the recovered r0
        offs = rng.choice(["none", "common", "per-subap"])
        chk.count("slopes-offset:" + offs)
        if offs == "common":
            slopes = slopes + 3.7 * numpy.sqrt(v)
        elif offs == "per-subap":
            slopes = slopes + numpy.sqrt(v) * numpy.array([[[rng.uniform(-5, 5)] for _ in range(nsub)] for _ in range(2)])
        got = ac.r0_from_slopes(slopes, lam, d)
        if not abs(got - r0) <= 1e-7 * r0:
            bad("inverse:r0_from_slopes∘slope_variance_from_r0", "r0_from_slopes(slopes of variance slope_variance_from_r0(r0))=%r ≠ r0=%r"
                % (got, r0), r0=r0, wavelength=lam, subapDiam=d, nframes=nfr)
        # photometry
        band, m = rng.choice(BANDS), rng.uniform(-2, 25)
        fl = ast_.magnitude_to_flux(m, band)
        if not abs(ast_.flux_to_magnitude(fl, band) - m) <= 1e-9 * max(1, abs(m)):
            bad("inverse:flux_to_magnitude∘magnitude_to_flux", "band %s m=%r round trip gives %r" % (band, m, ast_.flux_to_magnitude(fl, band)),
                band=band, m=m)
        f0 = logu(rng, 1e-3, 1e12)
        if not rel(ast_.magnitude_to_flux(ast_.flux_to_magnitude(f0, band), band), f0):
            bad("inverse:magnitude_to_flux∘flux_to_magnitude", "band %s flux=%r round trip" % (band, f0), band=band, flux=f0)
        if not rel(ast_.magnitude_to_flux(m, band), 100 * ast_.magnitude_to_flux(m + 5, band)):
            bad("five-magnitudes", "5 magnitudes are not a factor 100 in band %s at m=%r" % (band, m), band=band, m=m)
        mask = numpy.array([[rng.randint(0, 1) for _ in range(4)] for _ in range(4)], dtype=float)
        mask[0, 0] = 1
        px, t = logu(rng, 1e-3, 1.), logu(rng, 1e-4, 100)
        for fn, args in (("photons_per_band", lambda mk, p, tt: ast_.photons_per_band(m, mk, p, tt, band)),
                         ("photons_per_mag", lambda mk, p, tt: ast_.photons_per_mag(m, mk, p, 100., tt))):
            b0 = args(mask, px, t)
            if not rel(args(mask, px, c * t), c * b0):
                bad("linear-time:" + fn, "%s not proportional to exposure time" % fn, m=m, band=band, px=px, t=t, c=c)
            if not rel(args(numpy.kron(mask, numpy.ones((1, 2))), px, t), 2 * b0):
                bad("linear-area:" + fn, "%s not proportional to collecting area (mask doubled)" % fn, m=m, band=band, px=px, t=t)
            if not rel(args(mask, 2 * px, t), 4 * b0):
                bad("linear-area-px:" + fn, "%s not proportional to pixel area" % fn, m=m, band=band, px=px, t=t)
        # single layer
        h, vv = logu(rng, 10, 2e4), logu(rng, 1, 60)
        cth = 0.0581 * (0.423 * 4 * math.pi ** 2) ** 0.6
        r0l = ac.cn2_to_r0(cn2, lam)
        iso = ac.isoplanaticAngle(numpy.array([cn2]), numpy.array([h]), lam)
        if not rel(iso, cth * r0l / h * 180 * 3600 / math.pi):
            bad("single-layer:isoplanatic", "isoplanaticAngle([cn2],[h]) ≠ c·r0/h at cn2=%r h=%r λ=%r" % (cn2, h, lam), cn2=cn2, h=h, lamda=lam)
        tau = ac.coherenceTime(numpy.array([cn2]), numpy.array([vv]), lam)
        if not rel(tau, cth * r0l / vv):
            bad("single-layer:coherence", "coherenceTime([cn2],[v]) ≠ c·r0/v at cn2=%r v=%r λ=%r" % (cn2, vv, lam), cn2=cn2, v=vv, lamda=lam)
        # integration axis = loop over profiles, any rank and axis
        rank = rng.randint(1, 3)
        shape = tuple(rng.randint(1, 4) for _ in range(rank))
        axis = rng.randrange(rank)
        nprng = numpy.random.default_rng(rng.getrandbits(32))
        C = 10 ** nprng.uniform(-16, -12, shape)
        H = 10 ** nprng.uniform(1, 4, shape)
        chk.count("axis:rank%d" % rank)
        for fn in (ac.isoplanaticAngle, ac.coherenceTime, ac.rytov_variance):
            full = numpy.asarray(fn(C, H, lam, axis=axis))
            Cm, Hm = numpy.moveaxis(C, axis, -1), numpy.moveaxis(H, axis, -1)
            loop = numpy.empty(Cm.shape[:-1])
            for idx in numpy.ndindex(*Cm.shape[:-1]):
                loop[idx] = fn(Cm[idx], Hm[idx], lam)
            if full.shape != loop.shape or not numpy.allclose(full, loop, rtol=RT, atol=0):
                bad("axis:" + fn.__name__, "%s with axis=%d on shape %s differs from looping over profiles" % (fn.__name__, axis, shape),
                    fn=fn.__name__, shape=shape, axis=axis, cn2=C.tolist(), h=H.tolist(), lamda=lam)
            if axis == rank - 1:
                d0 = numpy.asarray(fn(C, H, lam))
                if d0.shape != loop.shape or not numpy.allclose(d0, loop, rtol=RT, atol=0):
                    bad("axis-default:" + fn.__name__, "%s default axis is not the last axis" % fn.__name__, fn=fn.__name__, shape=shape)


def run(chk):
    quick = chk.tier == "quick"
    chk.rule = ("T1 self-check: Float instantiation of the regenerated Lean definitions vs the Python functions on log-uniform "
                "positive arguments; oracle: round trips / scalings / linearity / single-layer constant / axis semantics on the real "
                "code, rel. tol 1e-9; distinct = distinct argument tuples")
    chk.assumptions = ["Real.rpow/logb/π model Python's ** / log10 / numpy.pi up to IEEE rounding",
                       "NumPy axis semantics are exercised by the oracle only (ranks 1-3, every axis)",
                       "r0_from_slopes: the theorem covers its scalar kernel; the variance/mean reduction is exercised by the oracle"]
    meta = t1check.regenerate(chk)
    chk.build_and_audit("AoVerif.Props.C17", "AoVerif.Props.C17", REQUIRED)
    if meta is not None:
        try:
            t1check.selfcheck(chk, meta, T1_NAMES, arggen, 6 if quick else 60, rtol=1e-11)
        except common.LeanError as ex:
            chk.broke("translator", "generated Lean does not compile / run", str(ex))
    oracle(chk, 60 if quick else 2000)
